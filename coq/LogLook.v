(* LogLook.v — C09 for the solver log parser (parse_log / log_loop): the per-line statement in trace-free form.
   The log parser returns only at the end of the log, so there is no item after which a caller could observe the
   reader.  What can be said line by line is a statement about the loop: every admissible run of [log_loop] is a chain
       v = v0 --line--> v1 --line--> ... --line--> vk --exit--> v'
   in which each step [LineStep] has consumed at least one whole line and ends just behind its line break (or at the
   end of the input) with nothing beyond that point asked for (ItemLk), the invariant K holding again, and the rest of
   the run being a run of the loop from there; the last iteration leaves the loop with the look-ahead condition of a
   single call (framer: what it asked for lies in the line of its final cursor), and, when the result is Ok, at the end
   of the input with only the request that found the end going beyond it.  [LogLines] is that chain;
   [log_loop_lines] proves it by induction on the loop; [parse_log_lookahead] is the conclusion for the whole parse:
   Lk for every outcome, ItemLk and "the whole log has been consumed" for Ok.
   LookProofs.log_loop_step is the continuation-passing form of one step; it is redone here for the body of the loop with
   its continuations made explicit ([log_body], [log_body_step]) and with the stronger exit condition (the end of the
   input) that the conclusion for Ok needs; [log_loop (S n)] is the body continued by [log_loop n] (log_loop_body, by
   computation).  Buf2.v uses the same body to run a single iteration (C10 for the log). *)
From Flussab Require Import Base Reader ListN Writer Parsed Prog Text TextSpec ProgProofs ScanProofs DigitsProofs.
From Flussab Require Import ReaderProofs Simulation Consts Cnf CnfProofs ErrProofs Hoare CnfSafe Look LookProofs LookW.
Ltac Zify.zify_post_hook ::= Z.to_euclidean_division_equations.
Local Open Scope N_scope.

Section LogL.
Variable fuel : nat.

Local Notation K := (K fuel).
Local Notation Gk := (Gk fuel).
Local Notation Gs := (Gs fuel).
Local Notation TokPostR := (TokPostR fuel).
Local Notation GsI := (GsI fuel).
Local Notation meas_init := (meas_init fuel).
Local Notation meas_stepr := (meas_stepr fuel).
Local Notation matches_tok_okr := (matches_tok_okr fuel).
Local Notation or_unexpected_okr := (or_unexpected_okr fuel).
Local Notation unexpected_okr := (unexpected_okr fuel).
Local Notation interactive_end_of_line_okr := (interactive_end_of_line_okr fuel).
Local Notation interactive_skip_line_okr := (interactive_skip_line_okr fuel).
Local Notation skip_whitespace_okr := (skip_whitespace_okr fuel).
Local Notation teof_okr := (teof_okr fuel).
Local Notation strict_comments_okr := (strict_comments_okr fuel).
Local Notation value_lits_okr := (value_lits_okr fuel).
Local Notation tfixed_log_okr := (tfixed_log_okr fuel).
Local Notation status_tok_okr := (status_tok_okr fuel).

(* ================================================================== *)
(* 1. token::eof succeeds at the end of the input only                  *)

Lemma teof_at_end lr v : wrt fuel teof lr v (fun a _ v' => forall u, a = Res (Ok u) -> vcur v' = nlen (vS v)).
Proof.
  apply wrt_W. intros HW. unfold teof, tok_ft, tok_ok. apply wrt_pbnd, wrt_ppeek.
  destruct (vpeek v 0) as [b|] eqn:Ep; [apply wrt_pret; intros u E; discriminate|].
  apply wrt_pbnd, wrt_errparked. destruct (s_parked (after_peek v 0)); [apply wrt_pret; intros u E; discriminate|].
  apply wrt_pret. intros u _. cbn [after_peek vcur]. pose proof (Wv_cur_le fuel v HW) as Hle.
  unfold vpeek, nnth in Ep. apply nth_error_None in Ep. unfold nlen in *. lia.
Qed.

Lemma teof_endr lr v : K lr v ->
  prt teof lr v (TokPostR (fun _ lr' v' => K lr' v' /\ vfail v' = None /\ ItemLk v v' /\ vcur v' = nlen (vS v)) v).
Proof.
  intros HK. pose proof (VOK_Wv fuel v (K_VOK fuel _ _ HK)) as HW.
  eapply prt_conseq; [apply (prt_wrt fuel teof lr v _ _ HW (teof_okr lr v HK) (teof_at_end lr v))|].
  intros a lr' v' [[Hf Ha] He]. split; [exact Hf|]. destruct a as [[u|e]|]; [|exact Ha|exact Ha].
  destruct Ha as (h1 & h2 & h3). split; [exact h1|]. split; [exact h2|]. split; [exact h3|exact (He u eq_refl)].
Qed.

(* ================================================================== *)
(* 2. one iteration of the loop                                         *)

(* the ways out of the loop: the result of the whole parse.  Ok: the source has not failed, the input has ended -- the
   cursor is at its end -- and only the request that found the end went beyond it. *)
Definition LogExitI (v : view) : result (option bool * list Z) perr -> lrs -> view -> Prop :=
  ResPostR (fun _ _ v' => vfail v' = None /\ ItemLk v v' /\ vcur v' = nlen (vS v)) v.

Lemma LogExitI_frame v0 v r lr' v' : framer v0 v -> LogExitI v r lr' v' -> LogExitI v0 r lr' v'.
Proof.
  intros Hf0 [Hf Ha]. split; [eapply framer_trans; eassumption|]. destruct r as [x|e]; [|exact Ha].
  destruct Ha as (h1 & h2 & h3). split; [exact h1|]. split; [eapply framer_ItemLk; eassumption|].
  destruct Hf0 as (a1 & _). rewrite <- a1. exact h3.
Qed.

Lemma LogExitI_LogExit v r lr' v' : LogExitI v r lr' v' -> LogExit v r lr' v'.
Proof. intros [Hf Ha]. split; [exact Hf|]. destruct r as [x|e]; [exact (proj1 Ha)|exact Ha]. Qed.

(* the body of the loop with its two kinds of continuation made explicit: [k st'] where the loop goes on to the next
   line, [ex r] where it is left with the result r of the parse.  [log_loop (S n)] is the body with [log_loop n] and
   [pret] for them; Buf2.v runs the body with continuations that just return, to speak about one iteration. *)
Definition log_body {R : Type} (ex : result (option bool * list Z) perr -> PM R) (k : logstate -> PM R)
           (maxd : Z) (ignore_unknown : bool) (st : logstate) : PM R :=
  let* c := strict_comments fuel fuel in
  match c with
  | Err e => ex (Err e)
  | Ok _ =>
      let* v := (if finished st then pret (Ok false) else matches_tok (tfixed log_v)) in
      match v with
      | Err e => ex (Err e)
      | Ok true =>
          skip_whitespace fuel ;;;;
          let* ls := value_lits fuel fuel maxd (assignment st) in
          match ls with
          | Err e => ex (Err e)
          | Ok (a, fin) =>
              let* e := or_unexpected (interactive_end_of_line fuel) in
              match e with
              | Err er => ex (Err er)
              | Ok _ => k {| sat := sat st; assignment := a; started := true; finished := fin |}
              end
          end
      | Ok false =>
          let* s := (match sat st with Some _ => pret (Ok false) | None => matches_tok (tfixed log_s) end) in
          match s with
          | Err e => ex (Err e)
          | Ok true =>
              let* r := or_unexpected (status_tok fuel) in
              match r with
              | Err e => ex (Err e)
              | Ok v => k {| sat := Some v; assignment := assignment st; started := started st; finished := finished st |}
              end
          | Ok false =>
              let* ef := matches_tok teof in
              match ef with
              | Err e => ex (Err e)
              | Ok true =>
                  if started st && negb (finished st) then let* e := unexpected in ex (Err e)
                  else ex (Ok (match sat st with Some (Some b) => Some b | _ => None end, assignment st))
              | Ok false =>
                  let* sk := (if ignore_unknown then matches_tok (interactive_skip_line fuel) else pret (Ok false)) in
                  match sk with
                  | Err e => ex (Err e)
                  | Ok true => k st
                  | Ok false => let* e := unexpected in ex (Err e)
                  end
              end
          end
      end
  end.

Lemma log_loop_body n maxd iu st :
  log_loop fuel (S n) maxd iu st = log_body pret (log_loop fuel n maxd iu) maxd iu st.
Proof. reflexivity. Qed.

(* One iteration (LookProofs.log_loop_step with the exit condition LogExitI).  Q holds of every way out of the loop; the
   next iteration (whatever the new parser state st') is entered only in a state v' reached by consuming at least one
   line, with nothing asked for beyond its line break. *)
Lemma log_body_step {R : Type} (ex : result (option bool * list Z) perr -> PM R) (k : logstate -> PM R)
      maxd iu st lr v (Q : R -> lrs -> view -> Prop) :
  K lr v ->
  (forall st' lr' v', K lr' v' -> framer v v' -> vcur v < vcur v' -> ItemLk v v' -> prt (k st') lr' v' Q) ->
  (forall r lr' v', LogExitI v r lr' v' -> prt (ex r) lr' v' Q) ->
  prt (log_body ex k maxd iu st) lr v Q.
Proof.
  intros HK Hloop Hret. unfold log_body.
  assert (Herr : forall e lr' v', framer v v' -> ErrPost e v' -> prt (ex (Err e)) lr' v' Q)
    by (intros e lr' v' H1 H2; apply Hret; split; assumption).
  assert (Hun : forall lr' v', K lr' v' -> framer v v' -> prt (let* e := unexpected in ex (Err e)) lr' v' Q).
  { intros lr' v' HK' Hf'. apply prt_pbnd. eapply prt_conseq; [apply unexpected_okr; exact HK'|]. intros e lr4 v4 [Hf4 He].
    apply Herr; [eapply framer_trans; eassumption|exact He]. }
  apply prt_pbnd. eapply prt_conseq; [apply strict_comments_okr; [exact HK|eapply meas_init; exact HK]|].
  intros c lr1 v1 [Hf1 Hc]. destruct c as [u|e]; [|apply Herr; assumption].
  apply prt_pbnd.
  apply (prt_conseq _ _ _ (ResPostR (fun (b : bool) lr' v' => if b then K lr' v' /\ vcur v1 < vcur v' else K lr' v') v1)).
  { destruct (finished st); [apply prt_pret; split; [apply framer_refl|exact Hc]|].
    apply matches_tok_okr. apply (tfixed_log_okr log_v); [cbn; tauto|exact Hc]. }
  intros vv lr2 v2 [Hf Hvv]. pose proof (framer_trans _ _ _ Hf1 Hf) as Hf2. destruct vv as [[|]|e];
    [| |apply Herr; assumption].
  - (* a value line *)
    destruct Hvv as [HK2 Hlt2].
    apply prt_pbnd. eapply prt_conseq; [apply skip_whitespace_okr; exact HK2|]. intros _ lr3 v3 (-> & HK3 & Hf23).
    pose proof (framer_trans _ _ _ Hf2 Hf23) as Hf3.
    apply prt_pbnd. eapply prt_conseq; [apply value_lits_okr; [exact HK3|eapply meas_init; exact HK3]|].
    intros ls lr4 v4 [Hf34 Hls]. pose proof (framer_trans _ _ _ Hf3 Hf34) as Hf4.
    destruct ls as [[a fin]|e]; [|apply Herr; assumption].
    apply prt_pbnd. eapply prt_conseq; [apply or_unexpected_okr; apply interactive_end_of_line_okr; exact Hls|].
    intros e lr5 v5 [Hf45 He]. pose proof (framer_trans _ _ _ Hf4 Hf45) as Hf5.
    destruct e as [u5|er]; [|apply Herr; assumption].
    destruct He as [HK5 Hi5].
    apply Hloop; [exact HK5|exact Hf5| |exact (framer_ItemLk _ _ _ Hf4 Hi5)].
    destruct Hf1 as (_ & _ & c1 & _). destruct Hf23 as (_ & _ & c2 & _). destruct Hf34 as (_ & _ & c3 & _).
    destruct Hf45 as (_ & _ & c4 & _). lia.
  - apply prt_pbnd.
    apply (prt_conseq _ _ _ (ResPostR (fun (b : bool) lr' v' => if b then K lr' v' /\ vcur v2 < vcur v' else K lr' v') v2)).
    { destruct (sat st); [apply prt_pret; split; [apply framer_refl|exact Hvv]|].
      apply matches_tok_okr. apply (tfixed_log_okr log_s); [cbn; tauto|exact Hvv]. }
    intros ss lr3 v3 [Hf23 Hss]. pose proof (framer_trans _ _ _ Hf2 Hf23) as Hf3. destruct ss as [[|]|e];
      [| |apply Herr; assumption].
    + (* a status line *)
      destruct Hss as [HK3 Hlt3].
      apply prt_pbnd. eapply prt_conseq; [apply or_unexpected_okr; apply status_tok_okr; exact HK3|].
      intros r lr4 v4 [Hf34 Hr]. pose proof (framer_trans _ _ _ Hf3 Hf34) as Hf4.
      destruct r as [sv|e]; [|apply Herr; assumption].
      destruct Hr as (HK4 & Hlt4 & Hi4). apply Hloop; [exact HK4|exact Hf4| |exact (framer_ItemLk _ _ _ Hf3 Hi4)].
      destruct Hf2 as (_ & _ & c1 & _). lia.
    + apply prt_pbnd.
      eapply prt_conseq; [apply (matches_tok_okr _ (fun lr' v' => K lr' v' /\ vfail v' = None /\ ItemLk v3 v' /\ vcur v' = nlen (vS v3)));
                          apply teof_endr; exact Hss|].
      intros ef lr4 v4 [Hf34 Hef]. pose proof (framer_trans _ _ _ Hf3 Hf34) as Hf4. destruct ef as [[|]|e];
        [| |apply Herr; assumption].
      * destruct Hef as (HK4 & Hfail & Hi4 & He4). destruct (started st && negb (finished st)); [apply Hun; assumption|].
        apply Hret. split; [exact Hf4|]. split; [exact Hfail|]. split; [exact (framer_ItemLk _ _ _ Hf3 Hi4)|].
        destruct Hf3 as (a1 & _). rewrite <- a1. exact He4.
      * apply prt_pbnd.
        apply (prt_conseq _ _ _ (ResPostR (fun (b : bool) lr' v' => if b then GsI v4 tt lr' v' else K lr' v') v4)).
        { destruct iu; [|apply prt_pret; split; [apply framer_refl|exact Hef]].
          apply (matches_tok_okr _ (fun lr' v' => GsI v4 tt lr' v')). apply interactive_skip_line_okr. exact Hef. }
        intros sk lr5 v5 [Hf45 Hsk]. pose proof (framer_trans _ _ _ Hf4 Hf45) as Hf5. destruct sk as [[|]|e];
          [| |apply Herr; assumption].
        -- destruct Hsk as (HK5 & Hlt5 & Hi5). apply Hloop; [exact HK5|exact Hf5| |exact (framer_ItemLk _ _ _ Hf4 Hi5)].
           destruct Hf4 as (_ & _ & c1 & _). lia.
        -- apply Hun; assumption.
Qed.

Lemma log_loop_stepI n maxd iu st lr v (Q : result (option bool * list Z) perr -> lrs -> view -> Prop) :
  K lr v ->
  (forall st' lr' v', K lr' v' -> framer v v' -> vcur v < vcur v' -> ItemLk v v' ->
                      prt (log_loop fuel n maxd iu st') lr' v' Q) ->
  (forall r lr' v', LogExitI v r lr' v' -> Q r lr' v') ->
  prt (log_loop fuel (S n) maxd iu st) lr v Q.
Proof.
  intros HK Hloop Hexit. rewrite log_loop_body. apply log_body_step; [exact HK|exact Hloop|].
  intros r lr' v' H. apply prt_pret. apply Hexit. exact H.
Qed.

(* ================================================================== *)
(* 3. the chain of lines                                                *)

(* the loop has read a line (with the comment lines before it) and goes on in state (lr', v'): the invariant holds again,
   at least one whole line has been consumed, the cursor is just behind its line break (or at the end of the input), and
   nothing beyond that has been asked for *)
Definition LineStep (lr' : lrs) (v v' : view) : Prop :=
  K lr' v' /\ framer v v' /\ vcur v < vcur v' /\ ItemLk v v'.

(* [LogLines n st lr v r]: the run of [log_loop fuel n .. st lr] from v with result r, line by line.  The premise
   [aruns (log_loop ..) v1 r] of a step says that v1 is a state of that very run: from there on the run is a run of the
   loop, with the same result. *)
Inductive LogLines (maxd : Z) (iu : bool) :
  nat -> logstate -> lrs -> view -> ares (result (option bool * list Z) perr * lrs) -> Prop :=
| LL_exit n st lr v res lr' v' :
    LogExitI v res lr' v' -> LogLines maxd iu (S n) st lr v (ADone (res, lr') v')
| LL_line n st lr v st1 lr1 v1 r :
    LineStep lr1 v v1 -> aruns (log_loop fuel n maxd iu st1 lr1) v1 r -> LogLines maxd iu n st1 lr1 v1 r ->
    LogLines maxd iu (S n) st lr v r.

Lemma log_loop_okI n : forall maxd iu st lr v, K lr v -> meas v n -> prt (log_loop fuel n maxd iu st) lr v (LogExitI v).
Proof.
  induction n as [|n IH]; intros maxd iu st lr v HK Hm; [exfalso; unfold meas in Hm; lia|].
  apply log_loop_stepI; [exact HK| |intros r lr' v' H; exact H].
  intros st' lr' v' HK' Hf' Hlt' _. eapply prt_conseq; [apply IH; [exact HK'|eapply meas_stepr; eassumption]|].
  intros a lr3 v3 Ha. eapply LogExitI_frame; eassumption.
Qed.

(* every admissible run of the loop is such a chain *)
Lemma log_loop_lines_gen n : forall maxd iu st lr v r,
  K lr v -> meas v n -> aruns (log_loop fuel n maxd iu st lr) v r -> LogLines maxd iu n st lr v r.
Proof.
  induction n as [|n IH]; intros maxd iu st lr v r HK Hm Hr; [exfalso; unfold meas in Hm; lia|].
  assert (H : prt (log_loop fuel (S n) maxd iu st) lr v (fun res lr' v' => LogLines maxd iu (S n) st lr v (ADone (res, lr') v'))).
  { apply log_loop_stepI; [exact HK| |intros res lr' v' He; apply LL_exit; exact He].
    intros st1 lr1 v1 HK1 Hf1 Hlt1 Hi1 r1 Hr1.
    assert (Hm1 : meas v1 n) by (eapply meas_stepr; eassumption).
    destruct (prt_elim _ _ _ _ _ (log_loop_okI n maxd iu st1 lr1 v1 HK1 Hm1) Hr1) as (res & lr' & v' & -> & _).
    exists (res, lr'), v'. split; [reflexivity|]. cbn [fst snd].
    eapply LL_line; [split; [exact HK1|split; [exact Hf1|split; [exact Hlt1|exact Hi1]]]|exact Hr1|].
    apply IH; assumption. }
  destruct (prt_elim _ _ _ _ _ H Hr) as (res & lr' & v' & -> & HL). exact HL.
Qed.

(* what a chain amounts to for the run as a whole *)
Lemma LogLines_exit maxd iu n st lr v r :
  LogLines maxd iu n st lr v r -> exists res lr' v', r = ADone (res, lr') v' /\ LogExitI v res lr' v'.
Proof.
  induction 1 as [n st lr v res lr' v' He|n st lr v st1 lr1 v1 r (HK1 & Hf1 & Hlt1 & Hi1) Hr1 HL IH].
  - exists res, lr', v'. split; [reflexivity|exact He].
  - destruct IH as (res & lr' & v' & -> & He). exists res, lr', v'. split; [reflexivity|].
    eapply LogExitI_frame; eassumption.
Qed.

(* the number of lines read before the last iteration, and where they end (last first) *)
Fixpoint chain_ok (v : view) (ends : list view) (vk : view) : Prop :=
  match ends with
  | [] => vk = v
  | v1 :: rest => exists lr1, LineStep lr1 v v1 /\ chain_ok v1 rest vk
  end.

Lemma LogLines_chain maxd iu n st lr v r :
  LogLines maxd iu n st lr v r ->
  exists ends vk res lr' v', chain_ok v ends vk /\ r = ADone (res, lr') v' /\ LogExitI vk res lr' v' /\
                             (length ends < n)%nat.
Proof.
  induction 1 as [n st lr v res lr' v' He|n st lr v st1 lr1 v1 r HS Hr1 HL IH].
  - exists [], v, res, lr', v'. split; [reflexivity|]. split; [reflexivity|]. split; [exact He|cbn [length]; lia].
  - destruct IH as (ends & vk & res & lr' & v' & Hc & -> & He & Hlen).
    exists (v1 :: ends), vk, res, lr', v'. split; [exists lr1; split; assumption|]. split; [reflexivity|].
    split; [exact He|cbn [length]; lia].
Qed.

End LogL.

(* ================================================================== *)
(* L1: the theorems                                                     *)

(* one step of the chain, spelled out: the loop is entered again just behind an LF with nothing beyond the cursor asked
   for -- or at the end of the input, after the request that found it *)
Lemma LineStep_explicit fuel lr' v v' :
  LineStep fuel lr' v v' ->
  K fuel lr' v' /\ vS v' = vS v /\ vcur v < vcur v' /\
  ((nnth (vS v) (vcur v' - 1) = Some 10 /\ vreq v' <= N.max (vreq v) (vcur v')) \/
   (vcur v' = nlen (vS v) /\ vreq v' <= N.max (vreq v) (nlen (vS v) + 1))).
Proof.
  intros (HK & (a1 & _) & Hlt & Hi). split; [exact HK|]. split; [exact a1|]. split; [exact Hlt|].
  destruct Hi as [(_ & b2 & b3)|(b1 & b2)]; [left; split; assumption|right; split; assumption].
Qed.

(* the per-line statement: every admissible run of the loop, from any state satisfying K (with fuel for the rest of the
   input), is a chain of lines *)
Theorem solver_log_lines fuel n maxd iu st lr v r :
  K fuel lr v -> meas v n -> aruns (log_loop fuel n maxd iu st lr) v r -> LogLines fuel maxd iu n st lr v r.
Proof. apply log_loop_lines_gen. Qed.
Print Assumptions solver_log_lines.

Theorem parse_log_lines fuel maxd iu lr v r :
  K fuel lr v -> aruns (parse_log fuel maxd iu lr) v r ->
  LogLines fuel maxd iu fuel {| sat := None; assignment := []; started := false; finished := false |} lr v r.
Proof. intros HK Hr. unfold parse_log in Hr. apply log_loop_lines_gen; [exact HK|eapply meas_init; exact HK|exact Hr]. Qed.
Print Assumptions parse_log_lines.

(* the same with the intermediate states listed: v --> v1 --> ... --> vk, each step a LineStep, and the last iteration,
   started at vk, leaves the loop *)
Corollary parse_log_chain fuel maxd iu lr v r :
  K fuel lr v -> aruns (parse_log fuel maxd iu lr) v r ->
  exists ends vk res lr' v', chain_ok fuel v ends vk /\ r = ADone (res, lr') v' /\ LogExitI vk res lr' v'.
Proof.
  intros HK Hr. destruct (LogLines_chain fuel _ _ _ _ _ _ _ (parse_log_lines fuel maxd iu lr v r HK Hr))
    as (ends & vk & res & lr' & v' & h1 & h2 & h3 & _).
  exists ends, vk, res, lr', v'. split; [exact h1|]. split; assumption.
Qed.
Print Assumptions parse_log_chain.

(* the whole parse as one call: whatever the outcome, what it asked for lies in the line of its final cursor (Lk); when
   it returns a result, the source has not failed, the whole log has been consumed, and only the request that found the
   end of the input went beyond it (ItemLk) *)
Theorem parse_log_lookahead fuel maxd iu lr v r :
  K fuel lr v -> aruns (parse_log fuel maxd iu lr) v r ->
  exists res lr' v', r = ADone (res, lr') v' /\ vS v' = vS v /\ vcur v <= vcur v' /\ Lk v v' /\
    match res with
    | Ok _ => vfail v' = None /\ ItemLk v v' /\ vcur v' = nlen (vS v) /\ vreq v' <= N.max (vreq v) (nlen (vS v) + 1)
    | Err e => ErrPost e v'
    end.
Proof.
  intros HK Hr.
  destruct (LogLines_exit fuel _ _ _ _ _ _ _ (parse_log_lines fuel maxd iu lr v r HK Hr)) as (res & lr' & v' & -> & (a1 & _ & a3 & a4) & Ha).
  exists res, lr', v'. split; [reflexivity|]. split; [exact a1|]. split; [exact a3|]. split; [exact a4|].
  destruct res as [x|e]; [|exact Ha]. destruct Ha as (h1 & h2 & h3). split; [exact h1|]. split; [exact h2|]. split; [exact h3|].
  destruct h2 as [(b1 & b2 & b3)|(b1 & b2)]; [lia|exact b2].
Qed.
Print Assumptions parse_log_lookahead.

(* from the start of the input *)
Corollary parse_log_lookahead_init fuel maxd iu S fail res lr' v' :
  Forall (fun b => b < 256) S -> nlen S < 2 ^ 62 -> (length S < fuel)%nat ->
  aruns (parse_log fuel maxd iu lrs_init) (view_init S fail) (ADone (Ok res, lr') v') ->
  vcur v' = nlen S /\ vreq v' <= nlen S + 1 /\ vfail v' = None.
Proof.
  intros Hb Hl Hf Hr. pose proof (K_init fuel S fail Hb Hl Hf) as HK.
  destruct (parse_log_lookahead fuel maxd iu _ _ _ HK Hr) as (res2 & lr2 & v2 & E & _ & _ & _ & Hres).
  inversion E; subst. destruct Hres as (h1 & _ & h3 & h4). cbn [view_init vS vreq] in h3, h4.
  split; [exact h3|]. split; [unfold bytes, byte in *; lia|exact h1].
Qed.
Print Assumptions parse_log_lookahead_init.

(* ================================================================== *)
(* L2: the concrete reader                                              *)

(* over a line source, any chunk size: when the parse returns a result, everything the source has delivered has been
   consumed -- the reader holds no byte, and the log has been read to its end *)
Theorem parse_log_line_by_line fuel maxd iu lr s v res lr' s' :
  Session fuel lr s v -> crun (parse_log fuel maxd iu lr) s = CDone (Ok res, lr') s' ->
  exists v', aruns (parse_log fuel maxd iu lr) v (ADone (Ok res, lr') v') /\ Rel s' v' /\
             Lk v v' /\ ItemLk v v' /\ vcur v' = nlen (vS v) /\ valid_len s' = 0 /\ nlen (g_delivered s') = vcur v'.
Proof.
  intros (HR & HK & HJ & HN) Hc.
  destruct (simulation_inv LineJ LineJ_peek LineJ_same (parse_log fuel maxd iu lr) s v HR HJ) as (r & Hr & Href).
  destruct (parse_log_lookahead fuel maxd iu lr v r HK Hr) as (res2 & lr2 & v' & -> & a1 & a3 & a4 & Hres).
  destruct Href as (s2 & Hc2 & HR' & HJ'). rewrite Hc in Hc2. inversion Hc2; subst res2 lr2 s2.
  destruct Hres as (_ & Hi & He & _).
  exists v'. split; [exact Hr|]. split; [exact HR'|]. split; [exact a4|]. split; [exact Hi|]. split; [exact He|].
  pose proof (item_buffer_empty s' v v' HR' HJ' a1 HN Hi) as Hv. split; [exact Hv|].
  destruct HR' as [HR0 _]. pose proof (inv_count s' (r_inv _ _ HR0)). rewrite (r_cur _ _ HR0). lia.
Qed.
Print Assumptions parse_log_line_by_line.

(* any honest source: the parse asks for nothing beyond the end of the log (and the one position behind it) *)
Theorem parse_log_no_read_when_delivered fuel maxd iu lr s v res lr' s' :
  Rel s v -> K fuel lr v -> crun (parse_log fuel maxd iu lr) s = CDone (Ok res, lr') s' ->
  exists v', aruns (parse_log fuel maxd iu lr) v (ADone (Ok res, lr') v') /\ Rel s' v' /\
             vreq v' <= N.max (vreq v) (nlen (vS v) + 1) /\
             (vreq v' <= nlen (g_delivered s) -> g_delivered s' = g_delivered s /\ src s' = src s).
Proof.
  intros HR HK Hc.
  destruct (simulation_inv (PQ (g_delivered s) (src s)) (PQ_peek _ _) (PQ_same _ _) (parse_log fuel maxd iu lr) s v HR) as (r & Hr & Href);
    [intros _; split; reflexivity|].
  destruct (parse_log_lookahead fuel maxd iu lr v r HK Hr) as (res2 & lr2 & v' & -> & a1 & a3 & a4 & Hres).
  destruct Href as (s2 & Hc2 & HR' & HP'). rewrite Hc in Hc2. inversion Hc2; subst res2 lr2 s2.
  destruct Hres as (_ & _ & _ & Hq). exists v'. split; [exact Hr|]. split; [exact HR'|]. split; [exact Hq|exact HP'].
Qed.
Print Assumptions parse_log_no_read_when_delivered.

(* ================================================================== *)
(* examples                                                             *)

(* "c x\ns SATISFIABLE\nv 1 -2 0\n": three lines; the parse ends at the end of the input, and the highest offset ever
   asked for is the one position behind it *)
Definition exl_data : bytes :=
  [99; 32; 120; 10;
   115; 32; 83; 65; 84; 73; 83; 70; 73; 65; 66; 76; 69; 10;
   118; 32; 49; 32; 45; 50; 32; 48; 10].

Example look_log :
  match srun (parse_log 100 max_dimacs_i32 false lrs_init) (view_init exl_data None) with
  | ADone (Ok (Some true, [1%Z; (-2)%Z]), _) v1 => (vcur v1, vreq v1, nlen exl_data) = (27, 28, 27)
  | _ => False
  end.
Proof. vm_compute. reflexivity. Qed.

(* one line per read: three reads deliver the log, a fourth finds its end; the buffer is empty at the end *)
Definition exl_lines : source := {| prebuf := []; data := exl_data; events := [Deliver 4; Deliver 14; Deliver 9] |}.

Example exl_lines_LineSrc : LineSrc exl_lines.
Proof.
  split; [reflexivity|]. cbn [exl_lines events data line_sched].
  split; [apply lf_lastb_ok; vm_compute; reflexivity|].
  split; [apply lf_lastb_ok; vm_compute; reflexivity|].
  split; [apply lf_lastb_ok; vm_compute; reflexivity|].
  apply lf_lastb_ok. vm_compute. reflexivity.
Qed.

Example exl_line_by_line :
  match crun (parse_log 100 max_dimacs_i32 false lrs_init) (set_chunk (reader_init exl_lines) 16384) with
  | CDone (Ok _, _) s1 => (nlen (g_delivered s1), g_calls s1, valid_len s1) = (27, 4, 0)
  | _ => False
  end.
Proof. vm_compute. reflexivity. Qed.
