(* ConversePc.v — a partial-correctness logic over the abstract semantics: facts about the VALUE a run returns,
   given that the run ended normally.  It complements Hoare.v (total correctness, with the reader invariant): the
   converse round trip (Converse*.v) starts from a run that is known to have ended with a value, and needs facts
   about that value the limits theorems do not record (the bytes of BTOR2 symbols and comments come from the stream;
   AIGER symbol names and comments are valid UTF-8, counts fit usize, deltas fit 8 groups of 7 bits).  Such facts
   follow the control flow only; no invariant of the reader is needed. *)
From Flussab Require Import Base Reader ListN Writer Parsed Prog Text ProgProofs Cnf.
Local Open Scope N_scope.

(* runs never change the stream *)
Lemma aruns_vS {A} (p : prog A) v r : aruns p v r -> forall a v', r = ADone a v' -> vS v' = vS v.
Proof.
  induction 1; intros a0 v0 E; try discriminate; try exact (IHaruns _ _ E).
  inversion E; subst. reflexivity.
Qed.

(* every run of p on the stream S that ends normally returns a value satisfying Q *)
Definition pcp {A} (S : bytes) (p : prog A) (Q : A -> Prop) : Prop :=
  forall v a v', vS v = S -> aruns p v (ADone a v') -> Q a.

Definition pc {A} (S : bytes) (m : PM A) (Q : A -> Prop) : Prop :=
  forall lr, pcp S (m lr) (fun x => Q (fst x)).

Lemma pc_elim {A} S (m : PM A) (Q : A -> Prop) lr v a lr' v' :
  pc S m Q -> vS v = S -> aruns (m lr) v (ADone (a, lr') v') -> Q a.
Proof. intros H Hs Hr. exact (H lr v (a, lr') v' Hs Hr). Qed.

Lemma pcp_ret {A} S (a : A) (Q : A -> Prop) : Q a -> pcp S (Ret a) Q.
Proof. intros H v b v' _ Hr. apply aruns_ret_inv in Hr. inversion Hr; subst. exact H. Qed.

Lemma pcp_conseq {A} S (p : prog A) (Q Q' : A -> Prop) : pcp S p Q -> (forall a, Q a -> Q' a) -> pcp S p Q'.
Proof. intros H HQ v a v' Hs Hr. apply HQ. eapply H; eassumption. Qed.

Lemma pcp_true {A} S (p : prog A) : pcp S p (fun _ => True).
Proof. intros v a v' _ _. exact I. Qed.

Lemma pcp_and {A} S (p : prog A) (Q1 Q2 : A -> Prop) : pcp S p Q1 -> pcp S p Q2 -> pcp S p (fun a => Q1 a /\ Q2 a).
Proof. intros H1 H2 v a v' Hs Hr. split; [eapply H1|eapply H2]; eassumption. Qed.

Lemma pcp_bind {A B} S (p : prog A) (f : A -> prog B) (P : A -> Prop) (Q : B -> Prop) :
  pcp S p P -> (forall a, P a -> pcp S (f a) Q) -> pcp S (pbind p f) Q.
Proof.
  intros Hp Hf v b v' Hs Hr.
  destruct (aruns_bind_inv p f v _ Hr) as [(a & v1 & H1 & H2)|(r0 & H1 & Hab)].
  - eapply (Hf a); [eapply Hp; eassumption| |exact H2]. rewrite (aruns_vS _ _ _ H1 _ _ eq_refl). exact Hs.
  - destruct r0; cbn in Hab; contradiction.
Qed.

Lemma aruns_peek_inv {A} k (c : option byte -> prog A) v r :
  aruns (Peek k c) v r -> aruns (c (vpeek v k)) (after_peek v k) r.
Proof. intros H. inversion H; subst. assumption. Qed.

Lemma vpeek_In v k b : vpeek v k = Some b -> In b (vS v).
Proof. unfold vpeek, nnth. apply nth_error_In. Qed.

(* a peek returns a byte of the stream *)
Lemma pcp_peek {A} S k (c : option byte -> prog A) (Q : A -> Prop) :
  (forall o, (forall b, o = Some b -> In b S) -> pcp S (c o) Q) -> pcp S (Peek k c) Q.
Proof.
  intros H v a v' Hs Hr. apply aruns_peek_inv in Hr.
  refine (H (vpeek v k) _ (after_peek v k) a v' Hs Hr).
  intros b Hb. rewrite <- Hs. eapply vpeek_In. exact Hb.
Qed.

(* ---------- LineReader programs ---------- *)
Lemma pc_pret {A} S (a : A) (Q : A -> Prop) : Q a -> pc S (pret a) Q.
Proof. intros H lr. apply pcp_ret. exact H. Qed.

Lemma pc_conseq {A} S (m : PM A) (Q Q' : A -> Prop) : pc S m Q -> (forall a, Q a -> Q' a) -> pc S m Q'.
Proof. intros H HQ lr. eapply pcp_conseq; [apply H|]. intros [a s]. cbn [fst]. apply HQ. Qed.

Lemma pc_true {A} S (m : PM A) : pc S m (fun _ => True).
Proof. intros lr. apply pcp_true. Qed.

Lemma pc_and {A} S (m : PM A) (Q1 Q2 : A -> Prop) : pc S m Q1 -> pc S m Q2 -> pc S m (fun a => Q1 a /\ Q2 a).
Proof. intros H1 H2 lr v a v' Hs Hr. split; [eapply H1|eapply H2]; eassumption. Qed.

Lemma pc_pbnd {A B} S (m : PM A) (f : A -> PM B) (P : A -> Prop) (Q : B -> Prop) :
  pc S m P -> (forall a, P a -> pc S (f a) Q) -> pc S (pbnd m f) Q.
Proof.
  intros Hm Hf lr. unfold pbnd. eapply pcp_bind; [apply Hm|]. intros [a s] Ha. cbn [fst] in Ha. exact (Hf a Ha s).
Qed.

(* the continuation only *)
Lemma pc_pbnd_any {A B} S (m : PM A) (f : A -> PM B) (Q : B -> Prop) :
  (forall a, pc S (f a) Q) -> pc S (pbnd m f) Q.
Proof. intros Hf. eapply pc_pbnd; [apply pc_true|]. intros a _. apply Hf. Qed.

Lemma pc_lift {A} S (p : prog A) (Q : A -> Prop) : pcp S p Q -> pc S (lift p) Q.
Proof. intros H lr. unfold lift. eapply pcp_bind; [exact H|]. intros a Ha. apply pcp_ret. exact Ha. Qed.

Lemma pc_ppeek S k : pc S (ppeek k) (fun o => forall b, o = Some b -> In b S).
Proof. unfold ppeek. apply pc_lift. apply pcp_peek. intros o Ho. apply pcp_ret. exact Ho. Qed.

Lemma pc_get_lrs_any S (Q : lrs -> Prop) : (forall s, Q s) -> pc S get_lrs Q.
Proof. intros H lr. unfold get_lrs. apply pcp_ret. apply H. Qed.

Lemma pc_crash {A} S k (Q : A -> Prop) : pc S (pcrash k) Q.
Proof. intros lr v a v' _ Hr. unfold pcrash in Hr. inversion Hr. Qed.

Lemma pc_nofuel {A} S (Q : A -> Prop) : pc S (@pnofuel A) Q.
Proof. intros lr v a v' _ Hr. unfold pnofuel in Hr. inversion Hr. Qed.

(* results: the property of an Ok value *)
Definition okP {A E} (P : A -> Prop) (r : result A E) : Prop := match r with Ok a => P a | Err _ => True end.
(* tokens *)
Definition tokP {A E} (P : A -> Prop) (r : parsed A E) : Prop := match r with Res (Ok a) => P a | _ => True end.

Lemma pc_or_unexpected {A} S (t : tok A) (P : A -> Prop) : pc S t (tokP P) -> pc S (or_unexpected t) (okP P).
Proof.
  intros H. unfold or_unexpected. eapply pc_pbnd; [exact H|]. intros [[a|e]|] Ha.
  - apply pc_pret. exact Ha.
  - apply pc_pret. exact I.
  - apply pc_pbnd_any. intros e. apply pc_pret. exact I.
Qed.

Lemma pc_located {A} S (n : PM (parsed A unit)) (err : PM perr) (P : A -> Prop) :
  pc S n (tokP P) -> pc S (located n err) (tokP P).
Proof.
  intros H. unfold located. eapply pc_pbnd; [exact H|]. intros [[a|e]|] Ha.
  - apply pc_pret. exact Ha.
  - apply pc_pbnd_any. intros e'. apply pc_pret. exact I.
  - apply pc_pret. exact I.
Qed.
