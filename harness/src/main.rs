//! Correspondence harness: runs the real flussab crates on a case file and
//! prints one canonical trace line per case (same format as the OCaml driver
//! running the extracted Coq model).
use std::io::{BufRead, Write};

mod common;
mod s_c15;
mod s_rd;
mod s_wr;
mod s_tx;
mod s_pa;
mod s_rn;
mod alloc;

#[global_allocator]
static GLOBAL: alloc::Counting = alloc::Counting;

fn dispatch(line: &str) -> String {
    let toks: Vec<&str> = line.split(' ').filter(|t| !t.is_empty()).collect();
    match toks.first().copied() {
        Some("c15") => s_c15::run(&toks[1..]),
        Some("rd") => s_rd::run(&toks[1..]),
        Some("o_rd") => s_rd::oracle(&toks[1..]),
        Some("wr") => s_wr::run(&toks[1..]),
        Some("tx") => s_tx::run(&toks[1..]),
        Some("o_tx") => s_tx::oracle(&toks[1..]),
        Some("pa") => s_pa::run(&toks[1..]),
        Some("o_c01") => s_pa::oracle_c01(&toks[1..]),
        Some("o_c04") => s_pa::oracle_c04(&toks[1..]),
        Some("o_c05") => s_pa::oracle_c05(&toks[1..]),
        Some("o_exp") => s_pa::oracle_expect(&toks[1..]),
        Some("o_c09") => s_pa::oracle_c09(&toks[1..]),
        Some("o_skip") => s_pa::oracle_skip(&toks[1..]),
        Some("o_new") => s_pa::oracle_new(&toks[1..]),
        Some("o_c10") => s_pa::oracle_c10(&toks[1..]),
        Some("o_rt") => s_pa::oracle_rt(&toks[1..]),
        Some("o_b2c") => s_pa::oracle_btor2_const(&toks[1..]),
        Some("o_wr") => s_wr::oracle(&toks[1..]),
        Some("rn") => s_rn::run(&toks[1..]),
        Some("o_rn") => s_rn::oracle(&toks[1..]),
        Some(s) => format!("HARNESS-ERROR unknown stream {s}"),
        None => String::new(),
    }
}

fn main() {
    let args: Vec<String> = std::env::args().collect();
    let file = std::fs::File::open(&args[1]).expect("case file");
    // keep panic messages out of stderr noise; cases catch panics themselves
    if std::env::var("HARNESS_VERBOSE").is_err() { std::panic::set_hook(Box::new(|_| {})); }
    // every case runs in a worker thread under a watchdog: a parser that does not terminate must not stall the
    // run (C05 "never loops"); the case is reported as HARNESS-TIMEOUT and the process exits (the runner resumes
    // with the next case)
    let limit: u64 = std::env::var("HARNESS_CASE_TIMEOUT").ok().and_then(|s| s.parse().ok()).unwrap_or(15);
    let stdout = std::io::stdout();
    let mut out = std::io::BufWriter::new(stdout.lock());
    for line in std::io::BufReader::new(file).lines() {
        let line = line.unwrap();
        if line.is_empty() || line.starts_with('#') {
            continue;
        }
        let secs = if line.starts_with("o_c10") { limit * 30 } else { limit };
        let (tx, rx) = std::sync::mpsc::channel();
        let l2 = line.clone();
        let worker = std::thread::Builder::new().stack_size(8 << 20).spawn(move || {
            let res = std::panic::catch_unwind(|| dispatch(&l2));
            let _ = tx.send(res.unwrap_or_else(|_| "HARNESS-PANIC".to_string()));
        }).expect("spawn");
        match rx.recv_timeout(std::time::Duration::from_secs(secs)) {
            Ok(res) => {
                let _ = worker.join();
                writeln!(out, "{res}").unwrap();
                out.flush().unwrap(); // a later case may abort the process
            }
            Err(std::sync::mpsc::RecvTimeoutError::Timeout) => {
                writeln!(out, "HARNESS-TIMEOUT the case did not finish within {secs} s").unwrap();
                out.flush().unwrap();
                std::process::exit(3);
            }
            Err(std::sync::mpsc::RecvTimeoutError::Disconnected) => {
                // the worker died without sending (stack overflow aborts the whole process before we get here)
                writeln!(out, "HARNESS-PANIC worker died").unwrap();
                out.flush().unwrap();
            }
        }
    }
}
