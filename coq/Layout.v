(* Layout.v — C07 / C03 for the DIMACS family: the abstract value of a cnf / wcnf / gcnf document, the layouts a
   document can be written in (every choice the property text lists, as plain data), the rendering of a document in
   a layout, the domain of each format, and the writer of the crate (write_header / write_clause) as a function.
   LayoutTok.v (tokens), LayoutClause.v (clauses), LayoutProofs.v (header, whole documents, the theorems) prove that
   the parser programs of Cnf.v return exactly the document on every rendering in a well-formed layout;
   LayoutLog.v does the same for the solver log parser, LayoutWitness.v records the boundaries as concrete runs. *)
From Flussab Require Import Base Writer Parsed Prog Text Consts Cnf.

(* ================================================================== *)
(* 1. the abstract value                                                *)

(* what parse_dimacs returns on success: the header if there is one, and per clause its prefix (0 for cnf, the
   weight for wcnf, the group for gcnf) and its literals *)
Record doc := { d_hdr : option header; d_items : list (Z * list Z) }.

(* ================================================================== *)
(* 2. layouts                                                           *)

(* a run of spaces and tabs; as a separator between two tokens of a line it has to be non-empty *)
Definition blank_ok (b : bytes) : bool := forallb is_blank b.
Definition sep_ok (b : bytes) : bool := match b with [] => false | _ => blank_ok b end.

(* a line end: LF or CR LF *)
Definition eol_bytes (crlf : bool) : bytes := if crlf then [13; 10] else [10].

(* a filler line, from its first non-blank byte to its line break: a comment "c ... LF" (no LF inside; a CR
   before the LF makes it a CR LF line), or an empty / whitespace-only line *)
Inductive fline := FComment (body : bytes) | FBlank (crlf : bool).
Definition fline_bytes (f : fline) : bytes :=
  match f with
  | FComment body => 99 :: body ++ [10]
  | FBlank crlf => eol_bytes crlf
  end.
Definition body_ok (body : bytes) : bool := forallb (fun x => negb (x =? 10) && (x <? 256)) body.
Definition fline_ok (f : fline) : bool := match f with FComment body => body_ok body | FBlank _ => true end.

(* filler lines, each followed by the blanks that start the next line *)
Definition filler := list (fline * bytes).
Fixpoint filler_bytes (f : filler) : bytes :=
  match f with
  | [] => []
  | (l, b) :: f' => fline_bytes l ++ b ++ filler_bytes f'
  end.
Definition filler_ok (f : filler) : bool := forallb (fun lb => fline_ok (fst lb) && blank_ok (snd lb)) f.

(* a line break between two tokens: blanks at the end of the line, the line end, blanks at the start of the next
   line, any number of filler lines *)
Record lbreak := { lb_trail : bytes; lb_crlf : bool; lb_lead : bytes; lb_fill : filler }.
Definition after_break (lb : lbreak) (x : bytes) : bytes := lb_lead lb ++ filler_bytes (lb_fill lb) ++ x.
Definition lbreak_then (lb : lbreak) (x : bytes) : bytes := lb_trail lb ++ eol_bytes (lb_crlf lb) ++ after_break lb x.
Definition lbreak_ok (lb : lbreak) : bool := blank_ok (lb_trail lb) && blank_ok (lb_lead lb) && filler_ok (lb_fill lb).
Definition plain_break : lbreak := {| lb_trail := []; lb_crlf := false; lb_lead := []; lb_fill := [] |}.

(* what stands between two tokens of a clause: blanks, or a line break (the clause continues on a later line) *)
Inductive gap := GSep (b : bytes) | GBreak (lb : lbreak).
Definition gap_bytes (g : gap) : bytes :=
  match g with
  | GSep b => b
  | GBreak lb => lbreak_then lb []
  end.
(* strict: the two tokens would run together without a blank (always, except after the '}' of a gcnf group) *)
Definition gap_ok (strict : bool) (g : gap) : bool :=
  match g with
  | GSep b => if strict then sep_ok b else blank_ok b
  | GBreak lb => lbreak_ok lb
  end.

(* numerals: an optional '-', any number of leading zeros, the canonical digits *)
Definition numeral (neg : bool) (zeros : nat) (n : N) : bytes :=
  (if neg then [45] else []) ++ repeat 48 zeros ++ decimal_N n.
Definition lit_numeral (zeros : nat) (z : Z) : bytes := numeral (z <? 0)%Z zeros (Z.abs_N z).
Definition unum (zeros : nat) (z : Z) : bytes := numeral false zeros (Z.to_N z).

(* the layout of one clause *)
Record clause_lay := {
  cl_before : lbreak;           (* the end of the previous line (header or clause) and the filler lines before this
                                   clause; not used for the first clause of a document without header *)
  cl_pre : nat * gap;           (* wcnf weight / gcnf group: leading zeros, what follows it *)
  cl_lits : list (nat * gap);   (* per literal: leading zeros, what follows it *)
  cl_term : bool * nat          (* the terminator: "-0" instead of "0", leading zeros *)
}.
Definition dgap : nat * gap := (0%nat, GSep [32]).
Definition dcl : clause_lay := {| cl_before := plain_break; cl_pre := dgap; cl_lits := []; cl_term := (false, 0%nat) |}.

(* the layout of the header line: "p" sep1 "cnf" sep2 vars sep3 clauses [sep4 extra] *)
Record header_lay := {
  hl_sep1 : bytes; hl_sep2 : bytes; hl_vars : nat; hl_sep3 : bytes; hl_clauses : nat; hl_sep4 : bytes; hl_extra : nat
}.
Definition plain_header_lay : header_lay :=
  {| hl_sep1 := [32]; hl_sep2 := [32]; hl_vars := 0; hl_sep3 := [32]; hl_clauses := 0; hl_sep4 := [32]; hl_extra := 0 |}.

(* the end of the document after its last token: blanks and the end of the input (no final newline), or a line
   break, filler lines and possibly a last comment line without its LF *)
Inductive fin_lay := FinEof (trail : bytes) | FinNl (lb : lbreak) (last : option bytes).
Definition optc (last : option bytes) : bytes := match last with Some body => 99 :: body | None => [] end.
Definition last_ok (last : option bytes) : bool := match last with Some body => body_ok body | None => true end.
Definition fin_bytes (f : fin_lay) : bytes :=
  match f with
  | FinEof trail => trail
  | FinNl lb last => lbreak_then lb (optc last)
  end.
Definition fin_last (f : fin_lay) : option bytes := match f with FinEof _ => None | FinNl _ last => last end.
Definition fin_ok (f : fin_lay) : bool :=
  match f with
  | FinEof trail => blank_ok trail
  | FinNl lb last => lbreak_ok lb && last_ok last
  end.

Record layout := {
  l_lead : bytes; l_fill : filler;     (* blanks and filler lines before the header (or the first clause) *)
  l_hdr : header_lay;
  l_clauses : list clause_lay;         (* per clause; clauses beyond the list use the plain layout dcl *)
  l_fin : fin_lay
}.

(* layouts are lists indexed by position; positions beyond the list use the default *)
Definition clause_lay_ok (k : dkind) (cl : clause_lay) : bool :=
  lbreak_ok (cl_before cl) &&
  gap_ok (match k with KGcnf => false | _ => true end) (snd (cl_pre cl)) &&
  forallb (fun x => gap_ok true (snd x)) (cl_lits cl).
Definition header_lay_ok (hl : header_lay) : bool :=
  sep_ok (hl_sep1 hl) && sep_ok (hl_sep2 hl) && sep_ok (hl_sep3 hl) && sep_ok (hl_sep4 hl).
Definition lay_ok (k : dkind) (lay : layout) : bool :=
  blank_ok (l_lead lay) && filler_ok (l_fill lay) && header_lay_ok (l_hdr lay) &&
  forallb (clause_lay_ok k) (l_clauses lay) && fin_ok (l_fin lay).

(* ================================================================== *)
(* 3. rendering                                                         *)

Fixpoint lits_bytes (ls : list Z) (ll : list (nat * gap)) : bytes :=
  match ls with
  | [] => []
  | z :: ls' => lit_numeral (fst (hd dgap ll)) z ++ gap_bytes (snd (hd dgap ll)) ++ lits_bytes ls' (tl ll)
  end.

Definition prefix_bytes (k : dkind) (pre : Z) (pl : nat * gap) : bytes :=
  match k with
  | KCnf => []
  | KWcnf => unum (fst pl) pre ++ gap_bytes (snd pl)
  | KGcnf => 123 :: unum (fst pl) pre ++ [125] ++ gap_bytes (snd pl)
  end.

(* a clause, up to and including its terminator (not the blanks after it) *)
Definition clause_bytes (k : dkind) (it : Z * list Z) (cl : clause_lay) : bytes :=
  prefix_bytes k (fst it) (cl_pre cl) ++ lits_bytes (snd it) (cl_lits cl) ++
  numeral (fst (cl_term cl)) (snd (cl_term cl)) 0.

(* the header, up to and including its last numeral *)
Definition header_bytes (k : dkind) (h : header) (hl : header_lay) : bytes :=
  kw_p ++ hl_sep1 hl ++ kind_word k ++ hl_sep2 hl ++ unum (hl_vars hl) (h_vars h) ++ hl_sep3 hl ++
  unum (hl_clauses hl) (h_clauses h) ++
  match k with KCnf => [] | _ => hl_sep4 hl ++ unum (hl_extra hl) (h_extra h) end.

(* the text after a line-ending token (the header's last field or a clause's terminator) *)
Fixpoint tail_bytes (k : dkind) (items : list (Z * list Z)) (cls : list clause_lay) (fin : fin_lay) : bytes :=
  match items with
  | [] => fin_bytes fin
  | it :: items' =>
      lbreak_then (cl_before (hd dcl cls)) (clause_bytes k it (hd dcl cls) ++ tail_bytes k items' (tl cls) fin)
  end.

(* the text from the first non-filler byte of a line on: the clauses, or the last comment line *)
Definition body_bytes (k : dkind) (items : list (Z * list Z)) (cls : list clause_lay) (fin : fin_lay)
  (last : option bytes) : bytes :=
  match items with
  | [] => optc last
  | it :: items' => clause_bytes k it (hd dcl cls) ++ tail_bytes k items' (tl cls) fin
  end.

Definition render (k : dkind) (d : doc) (lay : layout) : bytes :=
  l_lead lay ++ filler_bytes (l_fill lay) ++
  match d_hdr d with
  | Some h => header_bytes k h (l_hdr lay) ++ tail_bytes k (d_items d) (l_clauses lay) (l_fin lay)
  | None => body_bytes k (d_items d) (l_clauses lay) (l_fin lay) (fin_last (l_fin lay))
  end.

(* ================================================================== *)
(* 4. the domain of each format (Parser::new / next_clause, ignore_header = false)                      *)

Definition lit_ok (limit : Z) (z : Z) : bool := negb (z =? 0)%Z && (- limit <=? z)%Z && (z <=? limit)%Z.

Definition prefix_ok (k : dkind) (glimit : Z) (pre : Z) : bool :=
  match k with
  | KCnf => (pre =? 0)%Z
  | KWcnf => in_range U64 pre
  | KGcnf => (0 <=? pre)%Z && (pre <=? glimit)%Z
  end.

Definition item_ok (k : dkind) (limit glimit : Z) (it : Z * list Z) : bool :=
  prefix_ok k glimit (fst it) && forallb (lit_ok limit) (snd it).

Definition extra_ok (k : dkind) (x : Z) : bool :=
  match k with
  | KCnf => (x =? 0)%Z
  | KWcnf => in_range U64 x
  | KGcnf => in_range Usize x
  end.

Definition header_ok (k : dkind) (maxd : Z) (h : header) : bool :=
  (0 <=? h_vars h)%Z && (h_vars h <=? maxd)%Z && in_range Usize (h_vars h) &&
  in_range Usize (h_clauses h) && extra_ok k (h_extra h).

(* the limits Parser::new derives from the header; ih: Config::ignore_header *)
Definition lit_limit_of (ih : bool) (maxd : Z) (oh : option header) : Z :=
  match oh with
  | Some h => if negb ih && negb (h_vars h =? 0)%Z then h_vars h else maxd
  | None => maxd
  end.
Definition group_limit_of (ih : bool) (oh : option header) : Z :=
  match oh with
  | Some h => if negb ih && negb (h_extra h =? 0)%Z then h_extra h else USIZE_MAX
  | None => USIZE_MAX
  end.

(* the domain: the header's fields fit their types and the variable count is at most maxd; unless the header is
   ignored, a non-zero clause count is the number of clauses, literals are within a non-zero variable count and
   groups within a non-zero group count; literals are non-zero and within maxd; weights fit u64 *)
Definition doc_ok (ih : bool) (k : dkind) (maxd : Z) (d : doc) : bool :=
  match d_hdr d with
  | Some h =>
      header_ok k maxd h &&
      (ih || (h_clauses h =? 0)%Z || (h_clauses h =? Z.of_nat (length (d_items d)))%Z)
  | None => true
  end &&
  forallb (item_ok k (lit_limit_of ih maxd (d_hdr d)) (group_limit_of ih (d_hdr d))) (d_items d).

(* ================================================================== *)
(* 5. the writer: cnf.rs / wcnf.rs / gcnf.rs write_header, write_clause *)

(* writeln!(writer, FMT, a, b, ..): every "{}" of the format string is replaced by the next argument *)
Fixpoint fmt_subst (fmt : bytes) (args : list bytes) : bytes :=
  match fmt with
  | [] => []
  | x :: r =>
      match r with
      | y :: r' =>
          if (x =? 123) && (y =? 125) then hd [] args ++ fmt_subst r' (tl args)
          else x :: fmt_subst r args
      | [] => [x]
      end
  end.

Definition hdr_fmt (k : dkind) : bytes :=
  match k with KCnf => hdr_fmt_cnf | KWcnf => hdr_fmt_wcnf | KGcnf => hdr_fmt_gcnf end.

Definition write_header (k : dkind) (h : header) : bytes :=
  fmt_subst (hdr_fmt k) [decimal (h_vars h); decimal (h_clauses h); decimal (h_extra h)] ++ [10].

Definition write_clause (k : dkind) (it : Z * list Z) : bytes :=
  match k with
  | KCnf => flat_map (fun l => decimal l ++ [32]) (snd it) ++ [48; 10]
  | KWcnf => decimal (fst it) ++ flat_map (fun l => 32 :: decimal l) (snd it) ++ [32; 48; 10]
  | KGcnf => [123] ++ decimal (fst it) ++ [125; 32] ++ flat_map (fun l => decimal l ++ [32]) (snd it) ++ [48; 10]
  end.

Definition write_doc (k : dkind) (d : doc) : bytes :=
  match d_hdr d with Some h => write_header k h | None => [] end ++ flat_map (write_clause k) (d_items d).

(* the layout the writer uses: single spaces, no leading zeros, "0", LF after every line *)
Definition plain_layout : layout :=
  {| l_lead := []; l_fill := []; l_hdr := plain_header_lay; l_clauses := []; l_fin := FinNl plain_break None |}.

(* ================================================================== *)
(* 6. examples                                                          *)

Definition ex_doc : doc :=
  {| d_hdr := Some {| h_vars := 3; h_clauses := 2; h_extra := 0 |};
     d_items := [(0, [1; -2; 3]); (0, [-1])]%Z |}.

(* leading blanks, a comment and a blank line before the header, tabs inside the header, CR LF after it, a clause
   spread over three lines with a comment line and a whitespace-only line in between, leading zeros, "-0",
   no final newline *)
Definition ex_layout : layout :=
  {| l_lead := [32; 9];
     l_fill := [(FComment [32; 104; 105; 13], [32]); (FBlank false, [])];
     l_hdr := {| hl_sep1 := [9]; hl_sep2 := [32; 32]; hl_vars := 2; hl_sep3 := [9; 32]; hl_clauses := 0;
                 hl_sep4 := [32]; hl_extra := 0 |};
     l_clauses :=
       [ {| cl_before := {| lb_trail := [32]; lb_crlf := true; lb_lead := [9]; lb_fill := [(FComment [120], [])] |};
            cl_pre := dgap;
            cl_lits := [ (1%nat, GBreak {| lb_trail := []; lb_crlf := false; lb_lead := [32; 32];
                                           lb_fill := [(FComment [32; 99], [9]); (FBlank true, [32])] |});
                         (0%nat, GSep [9; 9]);
                         (3%nat, GBreak {| lb_trail := [32]; lb_crlf := true; lb_lead := []; lb_fill := [] |}) ];
            cl_term := (true, 2%nat) |};
         {| cl_before := {| lb_trail := []; lb_crlf := false; lb_lead := []; lb_fill := [(FBlank false, [])] |};
            cl_pre := dgap; cl_lits := []; cl_term := (false, 0%nat) |} ];
     l_fin := FinEof [32; 9] |}.

Example ex_layout_ok : lay_ok KCnf ex_layout = true.
Proof. vm_compute. reflexivity. Qed.

Example ex_doc_ok : doc_ok false KCnf max_dimacs_i32 ex_doc = true.
Proof. vm_compute. reflexivity. Qed.

Example ex_plain_layout_ok : forall k, lay_ok k plain_layout = true.
Proof. intros []; vm_compute; reflexivity. Qed.

(* the model parser on the example: the document *)
Example ex_render_parses :
  exists v' lr', srun (parse_dimacs 200 KCnf max_dimacs_i32 false lrs_init) (view_init (render KCnf ex_doc ex_layout) None)
                 = ADone (Some (d_hdr ex_doc), d_items ex_doc, FOk, lr') v'.
Proof. eexists. eexists. vm_compute. reflexivity. Qed.

Example ex_write_doc :
  write_doc KCnf ex_doc =
  [112; 32; 99; 110; 102; 32; 51; 32; 50; 10;   49; 32; 45; 50; 32; 51; 32; 48; 10;   45; 49; 32; 48; 10].
Proof. vm_compute. reflexivity. Qed.

Example ex_write_doc_is_plain_render : write_doc KCnf ex_doc = render KCnf ex_doc plain_layout.
Proof. vm_compute. reflexivity. Qed.
