(* ErrProofs.v — how a failing source surfaces in parser programs (C04) *)
From Flussab Require Import Base Parsed Reader Prog Text ProgProofs ScanProofs Cnf CnfProofs.

(* the stream fails with e and nobody has taken the error yet *)
Definition failing (v : view) (e : N) : Prop := v_err_now v = Some e.
(* ... and the reader has seen it (a peek came back empty) *)
Definition err_parked (v : view) (e : N) : Prop := vknown v = true /\ v_err_now v = Some e.

Lemma det_give_up_at pos lr : det (give_up_at pos lr).
Proof.
  unfold give_up_at, pbnd, lift, pret, get_lrs, pcrash. cbn [pbind det]. intros [io|]; cbn [pbind det]; [exact I|].
  destruct (pos <? l_start lr); cbn [det]; exact I.
Qed.

(* every syntax error goes through give_up_at: with a parked error it reports that error, whatever the position *)
Lemma srun_give_up_at_parked pos lr v e :
  err_parked v e -> srun (give_up_at pos lr) v = ADone (EIo e, lr) (v_take v (Some e)).
Proof.
  intros [Hk He]. unfold give_up_at, pbnd, lift, pret. cbn [pbind srun]. unfold s_take. rewrite Hk, He. reflexivity.
Qed.

Lemma give_up_at_parked pos lr v e r :
  err_parked v e -> aruns (give_up_at pos lr) v r -> r = ADone (EIo e, lr) (v_take v (Some e)).
Proof.
  intros Hp H. apply det_aruns in H; [|apply det_give_up_at]. subst r. apply srun_give_up_at_parked; exact Hp.
Qed.

Lemma det_give_up lr : det (give_up lr).
Proof. unfold give_up, pbnd, lift. cbn [pbind det]. intros m. apply det_give_up_at. Qed.
Lemma det_give_up_at_mark lr : det (give_up_at_mark lr).
Proof. unfold give_up_at_mark, pbnd, lift. cbn [pbind det]. intros m. apply det_give_up_at. Qed.

Lemma give_up_parked lr v e r :
  err_parked v e -> aruns (give_up lr) v r -> r = ADone (EIo e, lr) (v_take v (Some e)).
Proof.
  intros Hp H. apply det_aruns in H; [|apply det_give_up]. subst r.
  unfold give_up, pbnd, lift. cbn [pbind srun]. apply srun_give_up_at_parked; exact Hp.
Qed.

Lemma give_up_at_mark_parked lr v e r :
  err_parked v e -> aruns (give_up_at_mark lr) v r -> r = ADone (EIo e, lr) (v_take v (Some e)).
Proof.
  intros Hp H. apply det_aruns in H; [|apply det_give_up_at_mark]. subst r.
  unfold give_up_at_mark, pbnd, lift. cbn [pbind srun]. apply srun_give_up_at_parked; exact Hp.
Qed.

(* without a parked error a give-up is a syntax error at the given position (or the column subtraction trips) *)
Lemma srun_give_up_at_clean pos lr v :
  s_take v = None ->
  srun (give_up_at pos lr) v =
  if pos <? l_start lr then APanic POverflow else ADone (ESyntax (l_line lr) (pos - l_start lr + 1), lr) (v_take v None).
Proof.
  intros Hn. unfold give_up_at, pbnd, lift, pret, get_lrs, pcrash. cbn [pbind srun]. rewrite Hn. cbn [pbind srun].
  destruct (pos <? l_start lr); reflexivity.
Qed.

(* token::eof never succeeds on a failing stream *)
Lemma det_teof lr : det (teof lr).
Proof.
  unfold teof, ppeek, pbnd, lift, tok_ft, tok_ok, pret. cbn [pbind det]. intros [b|]; cbn [pbind det]; [exact I|].
  intros [|]; exact I.
Qed.

Lemma teof_failing lr v e r :
  failing v e -> aruns (teof lr) v r -> r = ADone (Fallthrough, lr) (after_peek v 0).
Proof.
  intros He H. apply det_aruns in H; [|apply det_teof]. subst r.
  unfold teof, ppeek, pbnd, lift, tok_ft, tok_ok, pret. cbn [pbind srun].
  destruct (vpeek v 0) eqn:Ep; cbn [pbind srun]; [reflexivity|].
  unfold s_parked, after_peek, v_err_now in *. cbn [vknown vtaken vfail]. rewrite Ep. cbn [andb].
  unfold failing, v_err_now in He. destruct (vtaken v); [discriminate|]. rewrite He. reflexivity.
Qed.

(* on a stream that ends cleanly eof succeeds exactly at the end *)
Lemma teof_clean lr v r :
  v_err_now v = None -> aruns (teof lr) v r ->
  r = ADone (match vpeek v 0 with Some _ => Fallthrough | None => Res (Ok tt) end, lr) (after_peek v 0).
Proof.
  intros He H. apply det_aruns in H; [|apply det_teof]. subst r.
  unfold teof, ppeek, pbnd, lift, tok_ft, tok_ok, pret. cbn [pbind srun].
  destruct (vpeek v 0) eqn:Ep; cbn [pbind srun]; [reflexivity|].
  unfold s_parked, after_peek, v_err_now in *. cbn [vknown vtaken vfail]. rewrite Ep. cbn [andb].
  destruct (vtaken v); [reflexivity|]. rewrite He. reflexivity.
Qed.

(* once a peek has come back empty on a failing stream the error is parked, and stays parked until taken *)
Lemma peek_none_parks v k e : failing v e -> vpeek v k = None -> err_parked (after_peek v k) e.
Proof.
  intros He Hp. unfold err_parked, after_peek, v_err_now, failing in *. cbn [vknown vtaken vfail]. rewrite Hp. split; [reflexivity|exact He].
Qed.

(* A result that was computed without ever seeing the end of the delivered data is the result on every
   continuation of that data, failing or not: a syntax error reported before the failure point is a syntax error of the
   data itself, and items handed out before it are the items of the unfailing source. *)
Theorem unfailed_prefix {A} (p : prog A) S e a v' :
  srun p (view_init S (Some e)) = ADone a v' -> vknown v' = false ->
  forall T fail', exists vx', srun p (view_init (S ++ T) fail') = ADone a vx' /\ vcur vx' = vcur v' /\ vknown vx' = false.
Proof.
  intros H Hk T fail'.
  destruct (srun_prefix p (view_init S (Some e)) (view_init (S ++ T) fail') T a v') as (vx' & Hr & Hext).
  - unfold WFV, view_init; cbn [vhwm vS]. lia.
  - unfold extends_view, view_init; cbn. repeat split; reflexivity.
  - exact H.
  - exact Hk.
  - exists vx'. split; [exact Hr|]. destruct Hext as (_ & Hc & _ & _ & Hkn & _). split; [exact Hc|]. rewrite Hkn; exact Hk.
Qed.
