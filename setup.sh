#!/bin/sh
# Builds the whole framework from files on disk only (offline).
set -e
cd "$(dirname "$0")"
export CARGO_NET_OFFLINE=true
mkdir -p .work coq/extracted evidence
python3 tools/translate.py
( cd coq && coq_makefile -f _CoqProject -o Makefile >/dev/null 2>&1 && timeout 7000 make -j16 )
python3 - <<'PY'
import sys
sys.path.insert(0, "tools")
import check
log = []
ok, out = check.build_driver(log)
print("driver:", ok, out[-2000:])
ok2, out = check.build_harness(log)
print("harness:", ok2, out[-2000:])
sys.exit(0 if ok and ok2 else 1)
PY
