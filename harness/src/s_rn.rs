//! stream "rn": Renumber::renumber_aig of flussab-aiger on a real Aig<usize>.
//! case:  rn <cfg> <inputs> <latches> <outputs> <bad> <constraints> <justice> <fairness> <gates>
//!          cfg      0..7: bit0 trim, bit1 structural_hash, bit2 const_fold
//!          inputs, outputs, bad, constraints, fairness   comma separated literal codes, "-" if empty
//!          latches  state:next:init (init 0 | 1 | x), comma separated
//!          justice  groups separated by ",", a group is "_" (empty) or codes joined by "."
//!          gates    out:in0:in1, comma separated
//! trace: ok M=<max_var_index> I=<input_count> L=<next:init,..> O=.. B=.. C=.. J=.. F=.. G=<in0:in1,..>
//!           A=<inputs>/<latch states>/<gate outputs of Aig::from(ordered)> map=<lit>get(lit),..>
//!        for every literal occurring in the case, ascending;  or  err redefined|undefined|cycle <lit>
//! stream "o_rn": the same cases checked directly, without the model: PASS / FAIL <what>.
use crate::common::*;
use flussab_aiger::aig::{Aig, AigStructureError, AndGate, Latch, OrderedAig, Renumber, RenumberConfig};
use std::collections::{BTreeSet, HashMap};
use std::panic::{catch_unwind, AssertUnwindSafe};

fn csv(s: &str) -> Vec<&str> {
    if s == "-" { vec![] } else { s.split(',').filter(|t| !t.is_empty()).collect() }
}
fn lits(s: &str) -> Vec<usize> {
    csv(s).iter().map(|t| t.parse().unwrap()).collect()
}

pub fn parse(toks: &[&str]) -> (RenumberConfig, usize, Aig<usize>) {
    assert!(toks.len() == 9, "rn: expected 9 fields");
    let c: usize = toks[0].parse().unwrap();
    let cfg = RenumberConfig::default().trim(c & 1 != 0).structural_hash(c & 2 != 0).const_fold(c & 4 != 0);
    let mut aig = Aig::<usize>::default();
    aig.inputs = lits(toks[1]);
    aig.latches = csv(toks[2]).iter().map(|t| {
        let p: Vec<&str> = t.split(':').collect();
        Latch {
            state: p[0].parse().unwrap(),
            next_state: p[1].parse().unwrap(),
            initialization: match p[2] { "0" => Some(false), "1" => Some(true), _ => None },
        }
    }).collect();
    aig.outputs = lits(toks[3]);
    aig.bad_state_properties = lits(toks[4]);
    aig.invariant_constraints = lits(toks[5]);
    aig.justice_properties = csv(toks[6]).iter().map(|g| {
        if *g == "_" { vec![] } else { g.split('.').filter(|t| !t.is_empty()).map(|t| t.parse().unwrap()).collect() }
    }).collect();
    aig.fairness_constraints = lits(toks[7]);
    aig.and_gates = csv(toks[8]).iter().map(|t| {
        let p: Vec<usize> = t.split(':').map(|x| x.parse().unwrap()).collect();
        AndGate { inputs: [p[1], p[2]], output: p[0] }
    }).collect();
    let mut m = 0;
    for &l in all_lits(&aig).iter() { m = m.max(l >> 1); }
    aig.max_var_index = m;
    (cfg, c, aig)
}

fn all_lits(aig: &Aig<usize>) -> BTreeSet<usize> {
    let mut s = BTreeSet::new();
    s.extend(aig.inputs.iter().copied());
    for l in &aig.latches { s.insert(l.state); s.insert(l.next_state); }
    s.extend(aig.outputs.iter().copied());
    s.extend(aig.bad_state_properties.iter().copied());
    s.extend(aig.invariant_constraints.iter().copied());
    for g in &aig.justice_properties { s.extend(g.iter().copied()); }
    s.extend(aig.fairness_constraints.iter().copied());
    for g in &aig.and_gates { s.insert(g.output); s.insert(g.inputs[0]); s.insert(g.inputs[1]); }
    s
}

fn show<T>(l: &[T], f: impl Fn(&T) -> String) -> String {
    if l.is_empty() { "-".into() } else { l.iter().map(f).collect::<Vec<_>>().join(",") }
}
fn show_init(i: &Option<bool>) -> &'static str {
    match i { Some(false) => "0", Some(true) => "1", None => "x" }
}

fn show_err(e: &AigStructureError<usize>) -> String {
    match e {
        AigStructureError::LitAlreadyDefined { lit } => format!("err redefined {lit}"),
        AigStructureError::LitNotDefined { lit } => format!("err undefined {lit}"),
        AigStructureError::FoundCycle { lit } => format!("err cycle {lit}"),
    }
}

pub fn run(toks: &[&str]) -> String {
    let (cfg, _, aig) = parse(toks);
    let res = catch_unwind(AssertUnwindSafe(|| Renumber::renumber_aig(cfg, &aig)));
    let res = match res {
        Ok(r) => r,
        Err(p) => return format!("PANIC {}", panic_kind(&*p)),
    };
    match res {
        Err(e) => show_err(&e),
        Ok((o, rn)) => {
            let n = |x: &usize| x.to_string();
            let map = all_lits(&aig).iter().map(|&l| match rn.lit_map().get(l) {
                Some(t) => format!("{l}>{t}"),
                None => format!("{l}>none"),
            }).collect::<Vec<_>>();
            let back: Aig<usize> = Aig::from(o.clone());
            format!("ok M={} I={} L={} O={} B={} C={} J={} F={} G={} A={}/{}/{} map={}",
                o.max_var_index, o.input_count,
                show(&o.latches, |l| format!("{}:{}", l.next_state, show_init(&l.initialization))),
                show(&o.outputs, n), show(&o.bad_state_properties, n), show(&o.invariant_constraints, n),
                show(&o.justice_properties, |g| if g.is_empty() { "_".into() } else {
                    g.iter().map(|x| x.to_string()).collect::<Vec<_>>().join(".") }),
                show(&o.fairness_constraints, n),
                show(&o.and_gates, |g| format!("{}:{}", g.inputs[0], g.inputs[1])),
                show(&back.inputs, n), show(&back.latches, |l| l.state.to_string()),
                show(&back.and_gates, |g| g.output.to_string()),
                if map.is_empty() { "-".into() } else { map.join(",") })
        }
    }
}

// ------------------------------------------------------------------ oracle

#[derive(Clone, Copy, Debug, PartialEq)]
enum Def { Const, Input(usize), Latch(usize), Gate(usize) }

struct Analysis {
    /// every definition of a variable with the polarity of the defining literal
    defs: HashMap<usize, Vec<(Def, usize)>>,
}

impl Analysis {
    fn new(aig: &Aig<usize>) -> Self {
        let mut defs: HashMap<usize, Vec<(Def, usize)>> = HashMap::new();
        defs.entry(0).or_default().push((Def::Const, 0));
        for (i, &l) in aig.inputs.iter().enumerate() { defs.entry(l >> 1).or_default().push((Def::Input(i), l & 1)); }
        for (i, l) in aig.latches.iter().enumerate() { defs.entry(l.state >> 1).or_default().push((Def::Latch(i), l.state & 1)); }
        for (i, g) in aig.and_gates.iter().enumerate() { defs.entry(g.output >> 1).or_default().push((Def::Gate(i), g.output & 1)); }
        Analysis { defs }
    }
    fn children(&self, aig: &Aig<usize>, v: usize) -> Vec<usize> {
        let mut c = vec![];
        if let Some(ds) = self.defs.get(&v) {
            for (d, _) in ds {
                if let Def::Gate(i) = d {
                    c.push(aig.and_gates[*i].inputs[0] >> 1);
                    c.push(aig.and_gates[*i].inputs[1] >> 1);
                }
            }
        }
        c
    }
    /// is there a dependency path of length >= 1 from variable v to itself?
    fn on_cycle(&self, aig: &Aig<usize>, v: usize) -> bool {
        let mut seen = std::collections::HashSet::new();
        let mut work = self.children(aig, v);
        while let Some(x) = work.pop() {
            if x == v { return true; }
            if seen.insert(x) { work.extend(self.children(aig, x)); }
        }
        false
    }
    /// variables reachable from the roots (iterative), an undefined one, one on a cycle
    fn reach(&self, aig: &Aig<usize>, roots: &[usize]) -> (Vec<usize>, Option<usize>, Option<usize>) {
        // colours: 1 = on the DFS path, 2 = finished; post-order = evaluation order
        let mut colour: HashMap<usize, u8> = HashMap::new();
        let mut order = vec![];
        let (mut undefined, mut cyclic) = (None, None);
        for &r in roots {
            let rv = r >> 1;
            if colour.contains_key(&rv) { continue; }
            let mut stack: Vec<(usize, Vec<usize>, usize)> = vec![(rv, self.children(aig, rv), 0)];
            colour.insert(rv, 1);
            if !self.defs.contains_key(&rv) { undefined.get_or_insert(rv); }
            while let Some(top) = stack.last_mut() {
                if top.2 < top.1.len() {
                    let c = top.1[top.2];
                    top.2 += 1;
                    match colour.get(&c) {
                        Some(1) => { cyclic.get_or_insert(c); }
                        Some(_) => {}
                        None => {
                            colour.insert(c, 1);
                            if !self.defs.contains_key(&c) { undefined.get_or_insert(c); }
                            let ch = self.children(aig, c);
                            stack.push((c, ch, 0));
                        }
                    }
                } else {
                    let v = top.0;
                    colour.insert(v, 2);
                    order.push(v);
                    stack.pop();
                }
            }
        }
        (order, undefined, cyclic)
    }
}

fn splitmix(x: &mut u64) -> u64 {
    *x = x.wrapping_add(0x9e3779b97f4a7c15);
    let mut z = *x;
    z = (z ^ (z >> 30)).wrapping_mul(0xbf58476d1ce4e5b9);
    z = (z ^ (z >> 27)).wrapping_mul(0x94d049bb133111eb);
    z ^ (z >> 31)
}

fn mask(b: usize) -> u64 { if b & 1 == 1 { !0 } else { 0 } }

pub fn oracle(toks: &[&str]) -> String {
    let (cfg, c, aig) = parse(toks);
    let trim = c & 1 != 0;
    let res = match catch_unwind(AssertUnwindSafe(|| Renumber::renumber_aig(cfg, &aig))) {
        Ok(r) => r,
        Err(p) => return format!("FAIL panic {}", panic_kind(&*p)),
    };
    let an = Analysis::new(&aig);
    let mut roots: Vec<usize> = vec![];
    if !trim { roots.extend(aig.and_gates.iter().map(|g| g.output)); }
    roots.extend(aig.latches.iter().map(|l| l.next_state));
    roots.extend(aig.outputs.iter().copied());
    roots.extend(aig.bad_state_properties.iter().copied());
    roots.extend(aig.invariant_constraints.iter().copied());
    roots.extend(aig.fairness_constraints.iter().copied());
    for g in &aig.justice_properties { roots.extend(g.iter().copied()); }
    // the definitions are checked in the order constant, inputs, gate outputs (lit_defs), latch states
    // (initialize): the first literal whose variable was defined before it must be reported
    let mut expected_clash: Option<usize> = None;
    {
        let mut seen = std::collections::HashSet::new();
        seen.insert(0usize);
        let order = aig.inputs.iter().copied()
            .chain(aig.and_gates.iter().map(|g| g.output))
            .chain(aig.latches.iter().map(|l| l.state));
        for l in order {
            if !seen.insert(l >> 1) { expected_clash = Some(l); break; }
        }
    }
    if let Some(exp) = expected_clash {
        return match &res {
            Err(AigStructureError::LitAlreadyDefined { lit }) if *lit == exp => "PASS err-redefined".into(),
            Err(e) => format!("FAIL variable {} is defined twice (first clash: literal {exp}) but the result is {}", exp >> 1, show_err(e)),
            Ok(_) => format!("FAIL variable {} is defined twice (first clash: literal {exp}) but a circuit was returned", exp >> 1),
        };
    }
    let (ord, rn) = match res {
        Err(AigStructureError::LitAlreadyDefined { lit }) => {
            return format!("FAIL redefined {lit} reported but no variable is defined twice");
        }
        Err(AigStructureError::LitNotDefined { lit }) => {
            return if !an.defs.contains_key(&(lit >> 1)) { "PASS err-undefined".into() }
                   else { format!("FAIL undefined {lit} reported but its variable is defined") };
        }
        Err(AigStructureError::FoundCycle { lit }) => {
            return if an.on_cycle(&aig, lit >> 1) { "PASS err-cycle".into() }
                   else { format!("FAIL cycle {lit} reported but its variable does not depend on itself") };
        }
        Ok(x) => x,
    };
    // ---- a circuit was returned: no variable is defined twice (checked above)
    if let Some((v, _)) = an.defs.iter().find(|(_, d)| d.len() >= 2) {
        return format!("FAIL variable {v} is defined twice but a circuit was returned");
    }
    let (order, undefined, cyclic) = an.reach(&aig, &roots);
    if let Some(v) = undefined { return format!("FAIL used variable {v} is undefined but a circuit was returned"); }
    if let Some(v) = cyclic { return format!("FAIL variable {v} is on a reachable cycle but a circuit was returned"); }
    // ---- order
    let (ni, nl, ng) = (aig.inputs.len(), aig.latches.len(), ord.and_gates.len());
    if ord.input_count != ni || ord.latches.len() != nl { return "FAIL input/latch count changed".into(); }
    if ord.max_var_index != ni + nl + ng { return format!("FAIL max_var_index {} != {}", ord.max_var_index, ni + nl + ng); }
    for (j, g) in ord.and_gates.iter().enumerate() {
        let code = 2 * (ni + nl + 1 + j);
        if !(g.inputs[0] >= g.inputs[1]) { return format!("FAIL gate {j}: inputs not ordered larger first"); }
        if !(g.inputs[0] < code) { return format!("FAIL gate {j}: input {} not below its own code {code}", g.inputs[0]); }
    }
    let lim = 2 * ord.max_var_index + 1;
    let back: Aig<usize> = Aig::from(ord.clone());
    if back.inputs != (0..ni).map(|i| 2 * (i + 1)).collect::<Vec<_>>() { return "FAIL inputs of Aig::from not consecutive".into(); }
    if back.latches.iter().map(|l| l.state).collect::<Vec<_>>() != (0..nl).map(|i| 2 * (ni + 1 + i)).collect::<Vec<_>>() {
        return "FAIL latches of Aig::from not consecutive".into();
    }
    if back.and_gates.iter().map(|g| g.output).collect::<Vec<_>>() != (0..ng).map(|i| 2 * (ni + nl + 1 + i)).collect::<Vec<_>>() {
        return "FAIL gates of Aig::from not consecutive".into();
    }
    if back.max_var_index != ord.max_var_index { return "FAIL max_var_index of Aig::from".into(); }
    for (a, b) in aig.latches.iter().zip(ord.latches.iter()) {
        if a.initialization != b.initialization { return "FAIL latch initialization changed".into(); }
    }
    // ---- pairs (original literal, new literal) that must compute the same function
    let mut pairs: Vec<(String, usize, usize)> = vec![];
    let lists: [(&str, &Vec<usize>, &Vec<usize>); 4] = [
        ("output", &aig.outputs, &ord.outputs), ("bad", &aig.bad_state_properties, &ord.bad_state_properties),
        ("constraint", &aig.invariant_constraints, &ord.invariant_constraints),
        ("fairness", &aig.fairness_constraints, &ord.fairness_constraints)];
    for (name, a, b) in lists {
        if a.len() != b.len() { return format!("FAIL {name} count changed"); }
        for (k, (x, y)) in a.iter().zip(b.iter()).enumerate() { pairs.push((format!("{name}[{k}]"), *x, *y)); }
    }
    if aig.justice_properties.len() != ord.justice_properties.len() { return "FAIL justice count changed".into(); }
    for (k, (a, b)) in aig.justice_properties.iter().zip(ord.justice_properties.iter()).enumerate() {
        if a.len() != b.len() { return format!("FAIL justice[{k}] size changed"); }
        for (x, y) in a.iter().zip(b.iter()) { pairs.push((format!("justice[{k}]"), *x, *y)); }
    }
    for (k, (a, b)) in aig.latches.iter().zip(ord.latches.iter()).enumerate() {
        pairs.push((format!("next[{k}]"), a.next_state, b.next_state));
    }
    let mut mapped_roots = vec![];
    for &l in all_lits(&aig).iter() {
        if let Some(t) = rn.lit_map().get(l) { pairs.push((format!("lit_map[{l}]"), l, t)); mapped_roots.push(l); }
    }
    for r in &roots {
        if rn.lit_map().get(*r).is_none() { return format!("FAIL root literal {r} has no lit_map entry"); }
    }
    for (name, _, y) in &pairs { if *y > lim { return format!("FAIL {name}: new literal {y} above 2*max_var_index+1"); } }
    // every mapped literal must have a meaning in the original graph
    let (order2, undefined, cyclic) = an.reach(&aig, &mapped_roots);
    if undefined.is_some() || cyclic.is_some() { return "FAIL lit_map has an entry for a literal without a meaning".into(); }
    let _ = order;
    // ---- simulation: exhaustive for <= 6 variables (one 64-bit word per variable holds the whole truth table)
    let nv = ni + nl;
    let rounds = if nv <= 6 { 1 } else { 4 };
    let mut seed: u64 = 0x1234_5678 ^ (toks.join(" ").len() as u64) ^ ((aig.and_gates.len() as u64) << 20);
    for &l in roots.iter().take(8) { seed = seed.wrapping_mul(31).wrapping_add(l as u64); }
    const PAT: [u64; 6] = [0xaaaa_aaaa_aaaa_aaaa, 0xcccc_cccc_cccc_cccc, 0xf0f0_f0f0_f0f0_f0f0,
                           0xff00_ff00_ff00_ff00, 0xffff_0000_ffff_0000, 0xffff_ffff_0000_0000];
    for _ in 0..rounds {
        let words: Vec<u64> = (0..nv).map(|k| if nv <= 6 { PAT[k] } else { splitmix(&mut seed) }).collect();
        // original: variables in dependency order
        let mut val: HashMap<usize, u64> = HashMap::new();
        for &v in &order2 {
            let (d, pol) = an.defs[&v][0];
            let x = match d {
                Def::Const => 0,
                Def::Input(i) => words[i],
                Def::Latch(i) => words[ni + i],
                Def::Gate(i) => {
                    let g = &aig.and_gates[i];
                    (val[&(g.inputs[0] >> 1)] ^ mask(g.inputs[0])) & (val[&(g.inputs[1] >> 1)] ^ mask(g.inputs[1]))
                }
            };
            val.insert(v, x ^ mask(pol));
        }
        // renumbered: by construction order
        let mut nval: Vec<u64> = vec![0; ord.max_var_index + 1];
        for k in 0..nv { nval[1 + k] = words[k]; }
        for (j, g) in ord.and_gates.iter().enumerate() {
            let a = nval[g.inputs[0] >> 1] ^ mask(g.inputs[0]);
            let b = nval[g.inputs[1] >> 1] ^ mask(g.inputs[1]);
            nval[ni + nl + 1 + j] = a & b;
        }
        for (name, x, y) in &pairs {
            let vo = val[&(x >> 1)] ^ mask(*x);
            let vn = nval[y >> 1] ^ mask(*y);
            if vo != vn {
                return format!("FAIL {name}: literal {x} -> {y} computes a different function (assignment bit {})",
                               (vo ^ vn).trailing_zeros());
            }
        }
    }
    format!("PASS {}", if nv <= 6 { "exhaustive" } else { "simulated" })
}
