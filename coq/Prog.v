(* Prog.v — parser programs as data.
   Every tokenizer / parser function of the crates is written once as a
   Gallina function producing a [prog]: a tree of reader operations with
   continuations.  A prog has two semantics:
     - [crun]  : over the concrete DeferredReader model (Reader.v), with its
                 buffer, refills and read schedule — this is what is extracted
                 and run against the implementation;
     - [aruns] : over a pure *view* of the input (the whole stream that the
                 source will deliver, a cursor, a mark), where questions whose
                 answer depends on buffering have a set of admissible answers.
   Simulation.v proves that every concrete run is an abstract run. *)
From Flussab Require Import Base Reader.

Inductive prog (A : Type) : Type :=
| Ret (a : A)
| Peek (k : N) (c : option byte -> prog A)     (* request_byte_at_offset(k) *)
| Advance (n : N) (c : prog A)                  (* advance(n) *)
| TryLoad8 (off : N) (c : option N -> prog A)   (* if buf_len() >= off + 8: the raw unaligned 8-byte little-endian
                                                   load at buf_ptr()+off (the SWAR fast paths); None otherwise *)
| IsAtEnd (c : bool -> prog A)                  (* is_at_end() *)
| ErrParked (c : bool -> prog A)                (* io_error().is_some() *)
| TakeErr (c : option N -> prog A)              (* check_io_error() *)
| SetMark (c : prog A)                          (* set_mark() *)
| GetMark (c : N -> prog A)                     (* mark() *)
| GetPos (c : N -> prog A)                      (* position() *)
| Crash (k : panic_kind)                        (* a panic (overflow check, unwrap, index, ...) *)
| NoFuel.                                       (* the model's loop fuel ran out (never the code's behaviour) *)
Arguments Ret {A} a.
Arguments Peek {A} k c.
Arguments Advance {A} n c.
Arguments TryLoad8 {A} off c.
Arguments IsAtEnd {A} c.
Arguments ErrParked {A} c.
Arguments TakeErr {A} c.
Arguments SetMark {A} c.
Arguments GetMark {A} c.
Arguments GetPos {A} c.
Arguments Crash {A} k.
Arguments NoFuel {A}.

Fixpoint pbind {A B} (p : prog A) (f : A -> prog B) : prog B :=
  match p with
  | Ret a => f a
  | Peek k c => Peek k (fun o => pbind (c o) f)
  | Advance n c => Advance n (pbind c f)
  | TryLoad8 off c => TryLoad8 off (fun w => pbind (c w) f)
  | IsAtEnd c => IsAtEnd (fun b => pbind (c b) f)
  | ErrParked c => ErrParked (fun b => pbind (c b) f)
  | TakeErr c => TakeErr (fun o => pbind (c o) f)
  | SetMark c => SetMark (pbind c f)
  | GetMark c => GetMark (fun m => pbind (c m) f)
  | GetPos c => GetPos (fun m => pbind (c m) f)
  | Crash k => Crash k
  | NoFuel => NoFuel
  end.

(* little-endian value of a byte list *)
Fixpoint le_value (l : bytes) : N :=
  match l with [] => 0 | b :: r => b + 256 * le_value r end.

(* ------------------------------------------------------------------ *)
(* concrete semantics                                                  *)
Inductive cres (A : Type) :=
| CDone (a : A) (s : rstate)
| CPanic (k : panic_kind) (s : rstate)
| CUB
| CFuel.
Arguments CDone {A} a s.
Arguments CPanic {A} k s.
Arguments CUB {A}.
Arguments CFuel {A}.

Fixpoint crun {A} (p : prog A) (s : rstate) : cres A :=
  match p with
  | Ret a => CDone a s
  | Peek k c =>
      match peek s k with
      | (s', VOptByte o) => crun (c o) s'
      | (s', VPanic pk) => CPanic pk s'
      | (_, VFuel) => CFuel
      | (_, _) => CUB
      end
  | Advance n c =>
      match advance s n with
      | (s', None) => crun c s'
      | (s', Some pk) => CPanic pk s'
      end
  | TryLoad8 off c =>
      (* the raw load happens only when 8 bytes are buffered at off: it stays inside the window *)
      if off + 8 <=? valid_len s
      then crun (c (Some (le_value (window (buf s) (pos_in_buf s + off) 8)))) s
      else crun (c None) s
  | IsAtEnd c => crun (c (is_at_end s)) s
  | ErrParked c => crun (c (match io_error s with Some _ => true | None => false end)) s
  | TakeErr c => crun (c (io_error s)) (clear_io_error s)
  | SetMark c => crun c (set_mark_in_buf s (pos_in_buf s) (g_consumed s))
  | GetMark c => crun (c (mark s)) s
  | GetPos c => crun (c (position s)) s
  | Crash k => CPanic k s
  | NoFuel => CFuel
  end.

(* ------------------------------------------------------------------ *)
(* abstract semantics                                                  *)
Record view := {
  vS : bytes;          (* the whole stream the source delivers before its terminal event *)
  vfail : option N;    (* the terminal event is this error (None: clean end of input) *)
  vcur : N;            (* absolute cursor *)
  vmark : N;           (* absolute mark *)
  vtaken : bool;       (* the error has been handed out by check_io_error *)
  vknown : bool;       (* a peek has returned None: the reader is known to be complete *)
  vhwm : N;            (* bytes [0, vhwm) are known to be buffered or consumed *)
  vreq : N             (* highest absolute offset (+1) ever asked for by a peek *)
}.

Definition view_init (S : bytes) (fail : option N) : view :=
  {| vS := S; vfail := fail; vcur := 0; vmark := 0; vtaken := false; vknown := false; vhwm := 0; vreq := 0 |}.

Definition vpeek (v : view) (k : N) : option byte := nnth (vS v) (vcur v + k).

Definition after_peek (v : view) (k : N) : view :=
  let o := vpeek v k in
  {| vS := vS v; vfail := vfail v; vcur := vcur v; vmark := vmark v; vtaken := vtaken v;
     vknown := match o with None => true | Some _ => vknown v end;
     vhwm := match o with None => nlen (vS v) | Some _ => N.max (vhwm v) (vcur v + k + 1) end;
     vreq := N.max (vreq v) (vcur v + k + 1) |}.

Definition v_advance (v : view) (n : N) : view :=
  {| vS := vS v; vfail := vfail v; vcur := vcur v + n; vmark := vmark v; vtaken := vtaken v;
     vknown := vknown v; vhwm := vhwm v; vreq := vreq v |}.

Definition v_setmark (v : view) : view :=
  {| vS := vS v; vfail := vfail v; vcur := vcur v; vmark := vcur v; vtaken := vtaken v;
     vknown := vknown v; vhwm := vhwm v; vreq := vreq v |}.

Definition v_take (v : view) (o : option N) : view :=
  {| vS := vS v; vfail := vfail v; vcur := vcur v; vmark := vmark v;
     vtaken := match o with Some _ => true | None => vtaken v end;
     vknown := vknown v; vhwm := vhwm v; vreq := vreq v |}.

(* is an error parked right now, as far as the view can tell? *)
Definition v_err_now (v : view) : option N := if vtaken v then None else vfail v.

(* The one question whose answer depends on how much happens to be buffered: the fast-path test.
   Some w is admissible only if the 8 bytes exist in the stream (w is then determined by the stream);
   None is admissible unless 8 bytes at off are already known to be buffered. *)
Definition word_at (v : view) (off : N) : N := le_value (window (vS v) (vcur v + off) 8).
Definition tryload_ok (v : view) (off : N) (o : option N) : Prop :=
  match o with
  | Some w => vcur v + off + 8 <= nlen (vS v) /\ w = word_at v off
  | None => vhwm v < vcur v + off + 8
  end.
(* knowing 8 more bytes to be buffered *)
Definition v_loaded (v : view) (off : N) (o : option N) : view :=
  {| vS := vS v; vfail := vfail v; vcur := vcur v; vmark := vmark v; vtaken := vtaken v; vknown := vknown v;
     vhwm := match o with Some _ => N.max (vhwm v) (vcur v + off + 8) | None => vhwm v end; vreq := vreq v |}.

(* is_at_end(), io_error().is_some(), check_io_error(): functions of the view, because the reader
   is complete exactly when a peek has come back empty (vknown) *)
Definition s_atend (v : view) : bool := vknown v && (nlen (vS v) <=? vcur v).
Definition s_parked (v : view) : bool :=
  vknown v && match v_err_now v with Some _ => true | None => false end.
Definition s_take (v : view) : option N := if vknown v then v_err_now v else None.

Inductive ares (A : Type) :=
| ADone (a : A) (v : view)
| APanic (k : panic_kind)
| AStuck        (* the program relied on buffering it had not established: outcome not determined by the view *)
| AFuel.
Arguments ADone {A} a v.
Arguments APanic {A} k.
Arguments AStuck {A}.
Arguments AFuel {A}.

Inductive aruns {A} : prog A -> view -> ares A -> Prop :=
| ar_ret a v : aruns (Ret a) v (ADone a v)
| ar_peek k c v r : aruns (c (vpeek v k)) (after_peek v k) r -> aruns (Peek k c) v r
| ar_adv n c v r : vcur v + n <= vhwm v -> aruns c (v_advance v n) r -> aruns (Advance n c) v r
| ar_adv_stuck n c v : vhwm v < vcur v + n -> aruns (Advance n c) v AStuck
| ar_tryload off c v o r : tryload_ok v off o -> aruns (c o) (v_loaded v off o) r -> aruns (TryLoad8 off c) v r
| ar_atend c v r : aruns (c (s_atend v)) v r -> aruns (IsAtEnd c) v r
| ar_parked c v r : aruns (c (s_parked v)) v r -> aruns (ErrParked c) v r
| ar_take c v r : aruns (c (s_take v)) (v_take v (s_take v)) r -> aruns (TakeErr c) v r
| ar_setmark c v r : aruns c (v_setmark v) r -> aruns (SetMark c) v r
| ar_getmark c v r : aruns (c (vmark v mod W64)) v r -> aruns (GetMark c) v r
| ar_getpos c v r : aruns (c (vcur v mod W64)) v r -> aruns (GetPos c) v r
| ar_crash k v : aruns (Crash k) v (APanic k)
| ar_nofuel v : aruns NoFuel v AFuel.

(* The deterministic "simple" run: the fast path is taken only when it is forced. *)
Definition s_tryload (v : view) (off : N) : option N :=
  if vcur v + off + 8 <=? vhwm v then Some (word_at v off) else None.

Fixpoint srun {A} (p : prog A) (v : view) : ares A :=
  match p with
  | Ret a => ADone a v
  | Peek k c => srun (c (vpeek v k)) (after_peek v k)
  | Advance n c => if vcur v + n <=? vhwm v then srun c (v_advance v n) else AStuck
  | TryLoad8 off c => srun (c (s_tryload v off)) (v_loaded v off (s_tryload v off))
  | IsAtEnd c => srun (c (s_atend v)) v
  | ErrParked c => srun (c (s_parked v)) v
  | TakeErr c => srun (c (s_take v)) (v_take v (s_take v))
  | SetMark c => srun c (v_setmark v)
  | GetMark c => srun (c (vmark v mod W64)) v
  | GetPos c => srun (c (vcur v mod W64)) v
  | Crash k => APanic k
  | NoFuel => AFuel
  end.
