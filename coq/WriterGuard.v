(* WriterGuard.v — the capacity test of DeferredWriter::buf_write_ptr on machine words (defect D17).
   Writer.v states the test over unbounded N: `nlen (wbuf s) + len <=? wcap s`.  The code works on 64-bit words and `len`
   is an arbitrary caller-supplied usize.  Proved here: the repaired test `len <= capacity - old_len` involves no
   wrap-around and equals the ideal one for every len; the former test `old_len + len <= capacity` with a wrapping
   addition (release builds) does not — the witness is the replay of D17. *)
From Coq Require Import NArith Lia.
Local Open Scope N_scope.

Definition W : N := 2 ^ 64.
Definition guard_ideal (old cap len : N) : bool := old + len <=? cap.
(* a174086: `len <= self.buf.capacity() - old_len` *)
Definition guard_fixed (old cap len : N) : bool := len <=? cap - old.
(* before: `old_len + len <= self.buf.capacity()` with wrapping addition (overflow checks off) *)
Definition guard_wrapping (old cap len : N) : bool := (old + len) mod W <=? cap.

Lemma guard_fixed_no_underflow old cap : old <= cap -> cap - old + old = cap.
Proof. lia. Qed.

Theorem guard_fixed_exact : forall old cap len,
  old <= cap -> guard_fixed old cap len = guard_ideal old cap len.
Proof.
  intros old cap len H. unfold guard_fixed, guard_ideal.
  destruct (N.leb_spec len (cap - old)); destruct (N.leb_spec (old + len) cap); try reflexivity; lia.
Qed.

(* the operands of the repaired test are machine words whenever its inputs are: nothing wraps *)
Theorem guard_fixed_in_range : forall old cap len,
  old <= cap -> cap < W -> len < W -> cap - old < W.
Proof. intros. lia. Qed.

Theorem guard_wrapping_refuted :
  exists old cap len, old <= cap /\ cap < W /\ len < W /\
    guard_wrapping old cap len = true /\ guard_ideal old cap len = false.
Proof. exists 10, 16384, (W - 6). vm_compute. repeat split; reflexivity || discriminate. Qed.

(* the wrapping test is right exactly when the sum does not wrap *)
Theorem guard_wrapping_exact_without_wrap : forall old cap len,
  old + len < W -> guard_wrapping old cap len = guard_ideal old cap len.
Proof. intros old cap len H. unfold guard_wrapping, guard_ideal. rewrite N.mod_small by exact H. reflexivity. Qed.
