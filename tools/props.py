"""Per-property configuration of the orchestrator (tools/check.py)."""

TRUSTED_BASE = [
    "Coq 8.16.1 kernel (coqc, full .vo builds); vm_compute used for finite sweeps and witnesses; no native_compute",
    "no axioms declared by the development (grep + Print Assumptions allowlist on every run)",
    "tools/translate.py copies constants/tables from /repo into coq/Gen/*.v (aborts on unexpected source shape)",
    "Coq extraction with ExtrOcamlBasic only (nat/positive/N/Z stay inductive), OCaml 4.13.1 + zarith for printing",
    "ocaml/driver.ml and harness/ (Rust) canonicalise traces identically; tools/check.py diffs them",
    "hand-written Gallina model of the Rust code, validated differentially on every run (not verified against rustc semantics)",
]

PROPS = {
    "C15": {
        "streams": [
            {"name": "c15", "module": "c15", "quick": 0, "thorough": 0, "exhaustive": True,
             "profiles": ["debug", "release"]},
        ],
        "rule": "every combinator x every input case (Ok/Err/Fallthrough, two payloads each) x every closure outcome; "
                "a case is non-trivial when the input case is the one that makes the closure run",
        "theorems_note": "Props/C15.v: one theorem per combinator, for all types, inputs and closures (closures in a call-log monad)",
        "assumes": ["Rust closures are modelled as functions into a call-log writer monad; From<E> conversion is a logged function"],
    },
}
