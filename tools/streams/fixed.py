"""stream pa_fixed: no generated cases — only the corpus of replays of the defects that were found and fixed
(corpus/pa_fixed.cases); every line is an implementation-only oracle case that must PASS on the repaired tree."""

def gen(rng, n, tier, **kw):
    return []

def category(case):
    return "fixed/" + case.split()[0]

def nontrivial(case):
    return True
