(* AigerStreamProofs.v — the early section switches of the AIGER streaming API (AigerStream.v) agree with the
   exhaustive parse (Aiger.v): for every admissible run of parse_aag_take / parse_aig_take (at most n entries taken per
   section, the rest skipped by the section-switch loops) on an input satisfying the hypotheses of
   AigerSafe.parse_aag_safe, the run ends normally, with the header and the final outcome (clean end, the same
   ESyntax l c, the same EIo e) of the exhaustive parse of the same view, and the items handed out are those of the
   exhaustive parse with every section cut to its first n entries (take_sections n).

   Method: a one-directional simulation between programs (`SimV`, `PSimV`): every run of the taking program is matched, from
   the same view, by a run of the exhaustive program that — unless it runs out of fuel, gets stuck or panics, which
   AigerSafe excludes — ends in the same view with a related value.  The skip loop is `sloop` with the values dropped;
   the one place where the two programs make different calls is the symbol table: the exhaustive drive sees
   next_symbol() return None twice (once at the end of its own loop, once in comment()), the taking drive that has
   used up its quota only once; a next_symbol() that returns None only peeks, and peeking again changes nothing
   (`next_symbol_none_replay`).  Answer-insensitivity of the exhaustive parsers (AigerProofs.PDet_parse_aag, PDet_parse_aig) then
   makes the statement one about every pair of runs. *)
From Flussab Require Import Base Reader ListN Writer Parsed Prog Text TextSpec ProgProofs Simulation Consts Cnf CnfProofs.
From Flussab Require Import Aiger AigerProofs AigerSafe AigerStream.
Local Open Scope N_scope.

(* ================================================================== *)
(* 1. composing runs                                                    *)

Lemma aruns_bind_done {A B} (p : prog A) (f : A -> prog B) v a v' r :
  aruns p v (ADone a v') -> aruns (f a) v' r -> aruns (pbind p f) v r.
Proof.
  intros H. remember (ADone a v') as r0 eqn:E. revert a v' E.
  induction H; intros a0 v0 E Hf; try discriminate; cbn [pbind].
  - inversion E; subst. exact Hf.
  - constructor. eapply IHaruns; eassumption.
  - apply ar_adv; [assumption|]. eapply IHaruns; eassumption.
  - eapply ar_tryload; [eassumption|]. eapply IHaruns; eassumption.
  - constructor. eapply IHaruns; eassumption.
  - constructor. eapply IHaruns; eassumption.
  - constructor. eapply IHaruns; eassumption.
  - constructor. eapply IHaruns; eassumption.
  - constructor. eapply IHaruns; eassumption.
  - constructor. eapply IHaruns; eassumption.
Qed.

Lemma aruns_bind_abn {A B} (p : prog A) (f : A -> prog B) v r0 (r : ares B) :
  aruns p v r0 -> abnormal r0 r -> aruns (pbind p f) v r.
Proof.
  intros H. revert r. induction H; intros r' Hab; cbn [pbind].
  - destruct r'; cbn in Hab; contradiction.
  - constructor. apply IHaruns. exact Hab.
  - apply ar_adv; [assumption|]. apply IHaruns. exact Hab.
  - destruct r'; cbn in Hab; try contradiction. apply ar_adv_stuck. assumption.
  - eapply ar_tryload; [eassumption|]. apply IHaruns. exact Hab.
  - constructor. apply IHaruns. exact Hab.
  - constructor. apply IHaruns. exact Hab.
  - constructor. apply IHaruns. exact Hab.
  - constructor. apply IHaruns. exact Hab.
  - constructor. apply IHaruns. exact Hab.
  - constructor. apply IHaruns. exact Hab.
  - destruct r'; cbn in Hab; try contradiction. subst. constructor.
  - destruct r'; cbn in Hab; try contradiction. constructor.
Qed.

Definition notdone {A} (r : ares A) : Prop := match r with ADone _ _ => False | _ => True end.

(* the abnormal outcome, at another type *)
Definition recast {A B} (r : ares A) : ares B :=
  match r with ADone _ _ => AStuck | APanic k => APanic k | AStuck => AStuck | AFuel => AFuel end.

Lemma abnormal_recast {A B} (r : ares A) : notdone r -> abnormal r (@recast A B r).
Proof. destruct r; cbn; intros H; try contradiction; auto. Qed.

Lemma notdone_recast {A B} (r : ares A) : notdone r -> notdone (@recast A B r).
Proof. destruct r; cbn; auto. Qed.

Lemma abnormal_notdone {A B} (r0 : ares A) (r : ares B) : abnormal r0 r -> notdone r0 /\ notdone r.
Proof. destruct r0, r; cbn; intros H; try contradiction; auto. Qed.

Lemma abnormal_trans {A B C} (r0 : ares A) (r1 : ares B) (r2 : ares C) : abnormal r0 r1 -> abnormal r1 r2 -> abnormal r0 r2.
Proof. destruct r0, r1, r2; cbn; intros H1 H2; try contradiction; auto. congruence. Qed.

(* continuations that agree pointwise *)
Lemma aruns_bind_ext {A B} (p : prog A) (f f' : A -> prog B) v r :
  (forall a, f a = f' a) -> aruns (pbind p f) v r -> aruns (pbind p f') v r.
Proof.
  intros He Hr. destruct (aruns_bind_inv p f v r Hr) as [(a & v1 & H1 & H2)|(r0 & H1 & Hab)].
  - eapply aruns_bind_done; [exact H1|]. rewrite <- He. exact H2.
  - eapply aruns_bind_abn; eassumption.
Qed.

Lemma aruns_bind_assoc {A B C} (p : prog A) (f : A -> prog B) (g : B -> prog C) v r :
  aruns (pbind (pbind p f) g) v r -> aruns (pbind p (fun a => pbind (f a) g)) v r.
Proof.
  intros Hr. destruct (aruns_bind_inv _ g v r Hr) as [(b & v1 & H1 & H2)|(r0 & H1 & Hab)].
  - destruct (aruns_bind_inv p f v _ H1) as [(a & v0 & H3 & H4)|(r1 & H3 & Hab1)].
    + eapply aruns_bind_done; [exact H3|]. eapply aruns_bind_done; eassumption.
    + destruct r1; cbn in Hab1; contradiction.
  - destruct (aruns_bind_inv p f v _ H1) as [(a & v0 & H3 & H4)|(r1 & H3 & Hab1)].
    + eapply aruns_bind_done; [exact H3|]. eapply aruns_bind_abn; eassumption.
    + eapply aruns_bind_abn; [exact H3|]. eapply abnormal_trans; eassumption.
Qed.

Lemma aruns_bind_assoc_r {A B C} (p : prog A) (f : A -> prog B) (g : B -> prog C) v r :
  aruns (pbind p (fun a => pbind (f a) g)) v r -> aruns (pbind (pbind p f) g) v r.
Proof.
  intros Hr. destruct (aruns_bind_inv p _ v r Hr) as [(a & v0 & H1 & H2)|(r0 & H1 & Hab)].
  - destruct (aruns_bind_inv (f a) g v0 r H2) as [(b & v1 & H3 & H4)|(r1 & H3 & Hab1)].
    + eapply aruns_bind_done; [|exact H4]. eapply aruns_bind_done; eassumption.
    + eapply aruns_bind_abn; [|exact Hab1]. eapply aruns_bind_done; eassumption.
  - destruct (abnormal_notdone _ _ Hab) as [Hn0 _].
    eapply aruns_bind_abn; [eapply aruns_bind_abn; [exact H1|apply (abnormal_recast r0 Hn0)]|].
    destruct r0, r; cbn in *; try contradiction; auto.
Qed.

(* ================================================================== *)
(* 2. simulation                                                        *)

(* from every view satisfying P: every run of p is matched by a run of q which, if it ends normally, ends in the view
   in which p's run ended normally, with related values *)
Definition SimV {A B} (P : view -> Prop) (R : A -> B -> Prop) (p : prog A) (q : prog B) : Prop :=
  forall v r, P v -> aruns p v r ->
  exists r0, aruns q v r0 /\ match r0 with ADone b v0 => exists a, r = ADone a v0 /\ R a b | _ => True end.

Definition anyv : view -> Prop := fun _ => True.

Lemma SimV_ret {A B} (P : view -> Prop) (R : A -> B -> Prop) a b : R a b -> SimV P R (Ret a) (Ret b).
Proof.
  intros HR v r _ Hr. apply aruns_ret_inv in Hr. subst. exists (ADone b v). split; [constructor|]. exists a. split; [reflexivity|exact HR].
Qed.

Lemma SimV_conseq {A B} (P P' : view -> Prop) (R R' : A -> B -> Prop) p q :
  SimV P R p q -> (forall v, P' v -> P v) -> (forall a b, R a b -> R' a b) -> SimV P' R' p q.
Proof.
  intros H HP HR v r Hv Hr. destruct (H v r (HP v Hv) Hr) as (r0 & Hq & Hm). exists r0. split; [exact Hq|].
  destruct r0; auto. destruct Hm as (a0 & E & Hab). exists a0. split; [exact E|apply HR; exact Hab].
Qed.

(* a run of q that cannot end normally matches anything *)
Lemma SimV_abn_r {A B} (P : view -> Prop) (R : A -> B -> Prop) (p : prog A) (q : prog B) :
  (forall v, P v -> exists r0, aruns q v r0 /\ notdone r0) -> SimV P R p q.
Proof. intros H v r Hv _. destruct (H v Hv) as (r0 & Hq & Hn). exists r0. split; [exact Hq|]. destruct r0; auto; contradiction. Qed.

(* both programs start with the same sub-program p; Q is what is known after it *)
Lemma SimV_bind_self {A B C} (P : view -> Prop) (R : B -> C -> Prop) (p : prog A) (f : A -> prog B) (g : A -> prog C)
      (Q : A -> view -> Prop) :
  (forall v a v', P v -> aruns p v (ADone a v') -> Q a v') ->
  (forall a, SimV (Q a) R (f a) (g a)) ->
  SimV P R (pbind p f) (pbind p g).
Proof.
  intros HQ Hf v r Hv Hr. destruct (aruns_bind_inv p f v r Hr) as [(a & v1 & H1 & H2)|(r1 & H1 & Hab)].
  - destruct (Hf a v1 r (HQ _ _ _ Hv H1) H2) as (r0 & Hg & Hm). exists r0. split; [|exact Hm].
    eapply aruns_bind_done; eassumption.
  - destruct (abnormal_notdone _ _ Hab) as [Hn1 _]. exists (recast r1). split.
    + eapply aruns_bind_abn; [exact H1|apply abnormal_recast; exact Hn1].
    + pose proof (notdone_recast (B := C) r1 Hn1) as Hn. destruct (recast r1); auto; contradiction.
Qed.

Lemma SimV_bind {A A' B C} (P : view -> Prop) (R1 : A -> A' -> Prop) (R : B -> C -> Prop) (p : prog A) (q : prog A')
      (f : A -> prog B) (g : A' -> prog C) :
  SimV P R1 p q ->
  (forall a b, R1 a b -> SimV anyv R (f a) (g b)) ->
  SimV P R (pbind p f) (pbind q g).
Proof.
  intros Hp Hf v r Hv Hr. destruct (aruns_bind_inv p f v r Hr) as [(a & v1 & H1 & H2)|(r1 & H1 & Hab)].
  - destruct (Hp v _ Hv H1) as (r0 & Hq & Hm). destruct r0 as [b v0|k| |].
    + destruct Hm as (a' & E & HR). inversion E; subst a' v0.
      destruct (Hf a b HR v1 r I H2) as (r2 & Hg & Hm2). exists r2. split; [|exact Hm2]. eapply aruns_bind_done; eassumption.
    + exists (APanic k). split; [|exact I]. eapply aruns_bind_abn; [exact Hq|reflexivity].
    + exists AStuck. split; [|exact I]. eapply aruns_bind_abn; [exact Hq|exact I].
    + exists AFuel. split; [|exact I]. eapply aruns_bind_abn; [exact Hq|exact I].
  - destruct (abnormal_notdone _ _ Hab) as [Hn1 _].
    destruct (Hp v _ Hv H1) as (r0 & Hq & Hm). destruct r0 as [b v0|k| |].
    + destruct Hm as (a' & E & _). subst r1. contradiction.
    + exists (APanic k). split; [|exact I]. eapply aruns_bind_abn; [exact Hq|reflexivity].
    + exists AStuck. split; [|exact I]. eapply aruns_bind_abn; [exact Hq|exact I].
    + exists AFuel. split; [|exact I]. eapply aruns_bind_abn; [exact Hq|exact I].
Qed.

(* q makes one more step, which from the views in P returns c and changes nothing (or cannot end normally) *)
Lemma SimV_silent_r {A B C} (P : view -> Prop) (R : A -> B -> Prop) (p : prog A) (q0 : prog C) (g : C -> prog B) c :
  (forall v, P v -> aruns q0 v (ADone c v) \/ exists r0, aruns q0 v r0 /\ notdone r0) ->
  SimV P R p (g c) -> SimV P R p (pbind q0 g).
Proof.
  intros Hq0 H v r Hv Hr. destruct (Hq0 v Hv) as [Hs|(r0 & Hs & Hn)].
  - destruct (H v r Hv Hr) as (r1 & Hg & Hm). exists r1. split; [|exact Hm]. eapply aruns_bind_done; eassumption.
  - exists (recast r0). split.
    + eapply aruns_bind_abn; [exact Hs|apply abnormal_recast; exact Hn].
    + pose proof (notdone_recast (B := B) r0 Hn) as Hn'. destruct (recast r0); auto; contradiction.
Qed.

(* ---------- LineReader programs ---------- *)
Definition PSimV {A B} (P : lrs -> view -> Prop) (R : A -> B -> Prop) (m : PM A) (m' : PM B) : Prop :=
  forall lr, SimV (P lr) (fun x y => R (fst x) (fst y) /\ snd x = snd y) (m lr) (m' lr).
Definition anylv : lrs -> view -> Prop := fun _ _ => True.
Notation PSim := (PSimV anylv).

Lemma PSimV_pret {A B} (P : lrs -> view -> Prop) (R : A -> B -> Prop) a b : R a b -> PSimV P R (pret a) (pret b).
Proof. intros HR lr. apply SimV_ret. split; [exact HR|reflexivity]. Qed.

Lemma PSimV_conseq {A B} (P P' : lrs -> view -> Prop) (R R' : A -> B -> Prop) m m' :
  PSimV P R m m' -> (forall lr v, P' lr v -> P lr v) -> (forall a b, R a b -> R' a b) -> PSimV P' R' m m'.
Proof.
  intros H HP HR lr. eapply SimV_conseq; [apply H|apply HP|]. intros x y [H1 H2]. split; [apply HR; exact H1|exact H2].
Qed.

(* what every normally ending run of m returns, and where *)
Definition yields {A} (m : PM A) (Q : A -> lrs -> view -> Prop) : Prop :=
  forall lr v a lr' v', aruns (m lr) v (ADone (a, lr') v') -> Q a lr' v'.

Lemma PSimV_pbnd_self {A B C} (P : lrs -> view -> Prop) (R : B -> C -> Prop) (m : PM A) (f : A -> PM B) (g : A -> PM C)
      (Q : A -> lrs -> view -> Prop) :
  yields m Q ->
  (forall a, PSimV (Q a) R (f a) (g a)) ->
  PSimV P R (pbnd m f) (pbnd m g).
Proof.
  intros HQ Hf lr. unfold pbnd.
  apply (SimV_bind_self (P lr) _ (m lr) _ _ (fun x v' => Q (fst x) (snd x) v')).
  - intros v [a s] v' _ Hr. cbn [fst snd]. eapply HQ; exact Hr.
  - intros [a s]. cbn [fst snd]. apply Hf.
Qed.

Lemma PSimV_pbnd {A A' B C} (P : lrs -> view -> Prop) (R1 : A -> A' -> Prop) (R : B -> C -> Prop) (m : PM A) (m' : PM A')
      (f : A -> PM B) (g : A' -> PM C) :
  PSimV P R1 m m' ->
  (forall a b, R1 a b -> PSim R (f a) (g b)) ->
  PSimV P R (pbnd m f) (pbnd m' g).
Proof.
  intros Hm Hf lr. unfold pbnd. eapply SimV_bind; [apply Hm|].
  intros [a s] [b s'] [HR Hs]. cbn [fst snd] in HR, Hs. subst s'. apply Hf. exact HR.
Qed.

Lemma PSimV_assoc_l {A B C D} (P : lrs -> view -> Prop) (R : C -> D -> Prop) (m : PM A) (f : A -> PM B) (g : B -> PM C) (q : PM D) :
  PSimV P R (pbnd m (fun a => pbnd (f a) g)) q -> PSimV P R (pbnd (pbnd m f) g) q.
Proof.
  intros H lr v r Hv Hr. apply (H lr v r Hv). unfold pbnd in *. apply aruns_bind_assoc in Hr.
  eapply aruns_bind_ext; [|exact Hr]. intros [a s]. reflexivity.
Qed.

Lemma PSimV_assoc_r {A B C D} (P : lrs -> view -> Prop) (R : D -> C -> Prop) (m : PM A) (f : A -> PM B) (g : B -> PM C) (p : PM D) :
  PSimV P R p (pbnd m (fun a => pbnd (f a) g)) -> PSimV P R p (pbnd (pbnd m f) g).
Proof.
  intros H lr v r Hv Hr. destruct (H lr v r Hv Hr) as (r0 & Hq & Hm). exists r0. split; [|exact Hm].
  unfold pbnd in *. apply aruns_bind_assoc_r. eapply aruns_bind_ext; [|exact Hq]. intros [a s]. reflexivity.
Qed.

Lemma PSimV_nofuel_r {A B C} (P : lrs -> view -> Prop) (R : A -> B -> Prop) (m : PM A) (g : C -> PM B) : PSimV P R m (pbnd pnofuel g).
Proof. intros lr. apply SimV_abn_r. intros v _. exists AFuel. split; [constructor|exact I]. Qed.

Lemma PSimV_change {A B} (P : lrs -> view -> Prop) (R : A -> B -> Prop) (m1 m2 : PM A) (q1 q2 : PM B) :
  (forall lr, m1 lr = m2 lr) -> (forall lr, q1 lr = q2 lr) -> PSimV P R m2 q2 -> PSimV P R m1 q1.
Proof. intros H1 H2 H lr. rewrite H1, H2. apply H. Qed.

Lemma PSimV_pure {A B} (phi : Prop) (R : A -> B -> Prop) (m : PM A) (q : PM B) :
  (phi -> PSim R m q) -> PSimV (fun _ _ => phi) R m q.
Proof. intros H lr v r Hv. exact (H Hv lr v r I). Qed.

Lemma PSimV_weaken {A B} (P : lrs -> view -> Prop) (R : A -> B -> Prop) (m : PM A) (q : PM B) :
  PSim R m q -> PSimV P R m q.
Proof. intros H. eapply PSimV_conseq; [exact H|intros; exact I|auto]. Qed.

(* ---------- what a program can return ---------- *)
Lemma yields_pret {A} (a : A) (Q : A -> lrs -> view -> Prop) : (forall lr v, Q a lr v) -> yields (pret a) Q.
Proof. intros H lr v b lr' v' Hr. apply aruns_ret_inv in Hr. inversion Hr; subst. apply H. Qed.

Lemma yields_pbnd_any {A B} (m : PM A) (f : A -> PM B) (Q : B -> lrs -> view -> Prop) :
  (forall a, yields (f a) Q) -> yields (pbnd m f) Q.
Proof.
  intros Hf lr v b lr' v' Hr. unfold pbnd in Hr.
  destruct (aruns_bind_inv _ _ v _ Hr) as [([a s] & v1 & H1 & H2)|(r0 & H1 & Hab)].
  - eapply Hf; exact H2.
  - destruct r0; cbn in Hab; contradiction.
Qed.

Lemma yields_rbnd_any {A B} (m : PM (result A perr)) (f : A -> PM (result B perr)) (Q : result B perr -> lrs -> view -> Prop) :
  (forall a, yields (f a) Q) -> (forall e lr v, Q (Err e) lr v) -> yields (rbnd m f) Q.
Proof.
  intros Hf He. unfold rbnd. apply yields_pbnd_any. intros [a|e]; [apply Hf|apply yields_pret; intros; apply He].
Qed.

Lemma yields_conseq {A} (m : PM A) (Q Q' : A -> lrs -> view -> Prop) :
  yields m Q -> (forall a lr v, Q a lr v -> Q' a lr v) -> yields m Q'.
Proof. intros H HQ lr v a lr' v' Hr. apply HQ. eapply H; exact Hr. Qed.

(* ================================================================== *)
(* 3. cutting the sections of an item list                              *)

Lemma firstn_nil_item (n : nat) : firstn n (@nil item) = [].
Proof. destruct n; reflexivity. Qed.

Definition cutmap (n : nat) (l : list item) (ts : list nat) : list item :=
  flat_map (fun t => firstn n (section_of t l)) ts.

Lemma take_sections_cutmap n l : take_sections n l = cutmap n l (seq 0 10) ++ section_of 10 l.
Proof. reflexivity. Qed.

Lemma section_of_app t a b : section_of t (a ++ b) = section_of t a ++ section_of t b.
Proof. apply filter_app. Qed.

Lemma section_of_same t l : Forall (fun x => sec_of x = t) l -> section_of t l = l.
Proof.
  induction 1 as [|x l Hx Hl IH]; [reflexivity|]. unfold section_of in *. cbn [filter]. rewrite Hx, Nat.eqb_refl, IH. reflexivity.
Qed.

Lemma section_of_none t l : Forall (fun x => sec_of x <> t) l -> section_of t l = [].
Proof.
  induction 1 as [|x l Hx Hl IH]; [reflexivity|]. unfold section_of in *. cbn [filter].
  apply Nat.eqb_neq in Hx. rewrite Hx. exact IH.
Qed.

Lemma take_sections_nil n : take_sections n [] = [].
Proof. unfold take_sections, section_of. cbn [seq flat_map filter]. rewrite !firstn_nil_item. reflexivity. Qed.

Lemma Forall_imp_item (P Q : item -> Prop) l : (forall x, P x -> Q x) -> Forall P l -> Forall Q l.
Proof. intros H HP. eapply Forall_impl; [exact H|exact HP]. Qed.

(* s: entries of section t; rest: entries of later sections *)
Lemma take_sections_app n t s rest :
  (t < 10)%nat -> Forall (fun x => sec_of x = t) s -> Forall (fun x => (t < sec_of x)%nat) rest ->
  take_sections n (s ++ rest) = firstn n s ++ take_sections n rest.
Proof.
  intros Ht Hs Hr. rewrite !take_sections_cutmap.
  assert (Hlow : forall ts l, (forall u, In u ts -> (u < t)%nat) ->
                   Forall (fun x => (t <= sec_of x)%nat) l -> cutmap n l ts = []).
  { induction ts as [|u ts IH]; intros l Hts Hl; [reflexivity|]. unfold cutmap in *. cbn [flat_map].
    rewrite IH by (try exact Hl; intros; apply Hts; right; assumption).
    rewrite section_of_none; [rewrite firstn_nil_item; reflexivity|].
    pose proof (Hts u (or_introl eq_refl)) as Hu. eapply Forall_imp_item; [|exact Hl]. cbn beta. intros x Hx. lia. }
  assert (Hhigh : forall ts, (forall u, In u ts -> (t < u)%nat) -> cutmap n (s ++ rest) ts = cutmap n rest ts).
  { induction ts as [|u ts IH]; intros Hts; [reflexivity|]. unfold cutmap in *. cbn [flat_map].
    rewrite IH by (intros; apply Hts; right; assumption). rewrite section_of_app.
    rewrite (section_of_none u s); [reflexivity|].
    pose proof (Hts u (or_introl eq_refl)) as Hu. eapply Forall_imp_item; [|exact Hs]. cbn beta. intros x Hx. lia. }
  assert (Hall : Forall (fun x => (t <= sec_of x)%nat) (s ++ rest)).
  { apply Forall_app. split; [eapply Forall_imp_item; [|exact Hs]|eapply Forall_imp_item; [|exact Hr]]; cbn beta; intros; lia. }
  assert (Hrest : Forall (fun x => (t <= sec_of x)%nat) rest) by (eapply Forall_imp_item; [|exact Hr]; cbn beta; intros; lia).
  assert (Happ : forall l a b, cutmap n l (a ++ b) = cutmap n l a ++ cutmap n l b)
    by (intros; unfold cutmap; apply flat_map_app).
  assert (Hone : forall l, cutmap n l [t] = firstn n (section_of t l))
    by (intros; unfold cutmap; cbn [flat_map]; apply app_nil_r).
  assert (E : seq 0 10 = seq 0 t ++ [t] ++ seq (t + 1) (9 - t)).
  { replace 10%nat with (t + (1 + (9 - t)))%nat at 1 by lia. rewrite !seq_app. cbn [seq Nat.add]. reflexivity. }
  rewrite E, !Happ, !Hone.
  rewrite (Hlow (seq 0 t) (s ++ rest)) by (try exact Hall; intros u Hu; apply in_seq in Hu; lia).
  rewrite (Hlow (seq 0 t) rest) by (try exact Hrest; intros u Hu; apply in_seq in Hu; lia).
  rewrite Hhigh by (intros u Hu; apply in_seq in Hu; lia).
  rewrite !section_of_app.
  rewrite (section_of_same t s Hs).
  rewrite (section_of_none t rest) by (eapply Forall_imp_item; [|exact Hr]; cbn beta; intros; lia).
  rewrite (section_of_none 10 s) by (eapply Forall_imp_item; [|exact Hs]; cbn beta; intros; lia).
  rewrite firstn_nil_item, !app_nil_r. cbn [app]. rewrite <- !app_assoc. reflexivity.
Qed.

(* what relates the rest of the file as read by the two drives, from section t on *)
Definition BR (n t : nat) (xt xe : list item * final) : Prop :=
  snd xt = snd xe /\ fst xt = take_sections n (fst xe) /\ Forall (fun x => (t <= sec_of x)%nat) (fst xe).

(* ================================================================== *)
(* 4. a section: take at most n, skip the rest  ~  read all             *)

Definition TagOk {St : Type} (t : nat) : result (item * St) perr -> lrs -> view -> Prop :=
  fun r _ _ => match r with Ok (x, _) => sec_of x = t | Err _ => True end.

Definition Kwrap (base : list item) : list item * final -> PM (list item * final) :=
  fun r2 => let '(items2, fin) := r2 in pret (base ++ items2, fin).

Definition Ksect {St : Type} (k : St -> PM (list item * final)) : list item * St * option perr -> PM (list item * final) :=
  fun r => let '(items, st, e) := r in
           match e with Some err => pret (items, FErr err) | None => pbnd (k st) (Kwrap items) end.

Lemma sect_unfold {St : Type} (m : PM (list item * St * option perr)) (k : St -> PM (list item * final)) :
  sect m k = pbnd m (Ksect k).
Proof. reflexivity. Qed.

Section Loop.
Variable fuel : nat.
Context {St : Type}.
Variable it : St -> PM (result (item * St) perr).
Variables (n t t' : nat).
Variables (k k' : St -> PM (list item * final)).
Hypothesis Htt' : (t < t')%nat.
Hypothesis Hit : forall st, yields (it st) (TagOk t).
Hypothesis Hk : forall st, PSim (BR n t') (k st) (k' st).

Definition KK : St * option perr -> PM (list item * final) :=
  fun r => match snd r with None => k (fst r) | Some e => pret ([], FErr e) end.
Definition Kskip : N * St -> PM (list item * final) :=
  fun ls => pbnd (skip_loop fuel it (fst ls) (snd ls)) KK.

Lemma sect_take_unfold left st : sect_take fuel n it left st k = pbnd (take_loop n it left st []) (Ksect Kskip).
Proof. reflexivity. Qed.

(* nq: what is left of the quota; acc, acc0: what the two loops have collected *)
Definition RT (nq : nat) (acc acc0 : list item) (xt xe : list item * final) : Prop :=
  snd xt = snd xe /\
  exists new rest, fst xe = rev acc0 ++ new ++ rest /\
    Forall (fun x => sec_of x = t) new /\ Forall (fun x => (t < sec_of x)%nat) rest /\
    fst xt = rev acc ++ firstn nq new ++ take_sections n rest.

Lemma skip_loop_0 f left st : (left =? 0) = true -> skip_loop f it left st = pret (st, None).
Proof. intros E. destruct f; cbn [skip_loop]; rewrite E; reflexivity. Qed.

Lemma sloop_0 f left st acc : (left =? 0) = true -> sloop f it left st acc = pret (rev acc, st, None).
Proof. intros E. destruct f; cbn [sloop]; rewrite E; reflexivity. Qed.

(* both loops are at the end of the section *)
Lemma at_end nq base acc acc0 st : base = rev acc ->
  PSim (RT nq acc acc0) (pbnd (k st) (Kwrap base)) (pbnd (k' st) (Kwrap (rev acc0))).
Proof.
  intros ->. eapply PSimV_pbnd; [apply Hk|]. intros [it1 f1] [it2 f2] (Hf & Hi & Ha). cbn [fst snd] in Hf, Hi, Ha. subst f2 it1.
  cbn [Kwrap]. apply PSimV_pret. split; [reflexivity|]. cbn [fst snd].
  exists [], it2. split; [reflexivity|]. split; [constructor|]. split.
  - eapply Forall_imp_item; [|exact Ha]. cbn beta. intros; lia.
  - rewrite firstn_nil_item. reflexivity.
Qed.

(* the skip loop against the rest of sloop *)
Lemma skip_sim : forall f0 f left st acc acc0, (f0 <= f)%nat ->
  PSim (RT 0 acc acc0) (pbnd (skip_loop f it left st) (fun r => pbnd (KK r) (Kwrap (rev acc))))
       (pbnd (sloop f0 it left st acc0) (Ksect k')).
Proof.
  induction f0 as [|f0 IH]; intros f left st acc acc0 Hf; destruct (left =? 0) eqn:E0.
  - rewrite (skip_loop_0 _ _ _ E0), (sloop_0 _ _ _ _ E0).
    eapply PSimV_change; [intros; reflexivity|intros; reflexivity|]. cbn [fst snd]. apply at_end. reflexivity.
  - cbn [sloop]. rewrite E0. apply PSimV_nofuel_r.
  - rewrite (skip_loop_0 _ _ _ E0), (sloop_0 _ _ _ _ E0).
    eapply PSimV_change; [intros; reflexivity|intros; reflexivity|]. cbn [fst snd]. apply at_end. reflexivity.
  - destruct f as [|f]; [lia|]. cbn [sloop skip_loop]. rewrite E0.
    apply PSimV_assoc_l, PSimV_assoc_r. eapply PSimV_pbnd_self; [apply Hit|].
    intros [[x st']|e]; cbn [TagOk].
    + apply PSimV_pure. intros Hx.
      eapply PSimV_conseq; [apply (IH f (left - 1) st' acc (x :: acc0)); lia|auto|].
      intros xt xe (Hfin & new & rest & He & Hn & Hr & Ht). split; [exact Hfin|].
      exists (x :: new), rest. split; [rewrite He; cbn [rev app]; rewrite <- !app_assoc; reflexivity|].
      split; [constructor; assumption|]. split; [exact Hr|]. exact Ht.
    + apply PSimV_weaken.
      eapply PSimV_change; [intros; reflexivity|intros; reflexivity|]. apply PSimV_pret.
      split; [reflexivity|]. cbn [fst snd]. exists [], []. split; [rewrite !app_nil_r; reflexivity|].
      split; [constructor|]. split; [constructor|]. rewrite take_sections_nil. reflexivity.
Qed.

(* the take loop, then the skip loop, against sloop *)
Lemma take_sim : forall f0 nq left st acc acc0, (f0 <= fuel)%nat ->
  PSim (RT nq acc acc0) (pbnd (take_loop nq it left st acc) (Ksect Kskip))
       (pbnd (sloop f0 it left st acc0) (Ksect k')).
Proof.
  assert (Hq0 : forall f0 nq left st acc acc0, (f0 <= fuel)%nat ->
            take_loop nq it left st acc = pret (rev acc, (left, st), None) -> (nq = O \/ (left =? 0) = true) ->
            PSim (RT nq acc acc0) (pbnd (take_loop nq it left st acc) (Ksect Kskip))
                 (pbnd (sloop f0 it left st acc0) (Ksect k'))).
  { intros f0 nq left st acc acc0 Hf Et Hc. rewrite Et.
    change (PSim (RT nq acc acc0) (pbnd (pbnd (skip_loop fuel it left st) KK) (Kwrap (rev acc)))
                 (pbnd (sloop f0 it left st acc0) (Ksect k'))).
    destruct Hc as [->|E0].
    - apply PSimV_assoc_l. apply skip_sim. exact Hf.
    - rewrite (skip_loop_0 _ _ _ E0), (sloop_0 _ _ _ _ E0).
      change (PSim (RT nq acc acc0) (pbnd (k st) (Kwrap (rev acc))) (pbnd (k' st) (Kwrap (rev acc0)))).
      apply at_end. reflexivity. }
  induction f0 as [|f0 IH]; intros nq left st acc acc0 Hf.
  - destruct nq as [|nq]; [apply Hq0; [exact Hf|reflexivity|left; reflexivity]|].
    destruct (left =? 0) eqn:E0.
    + apply Hq0; [exact Hf|cbn [take_loop]; rewrite E0; reflexivity|right; exact E0].
    + cbn [sloop]. rewrite E0. apply PSimV_nofuel_r.
  - destruct nq as [|nq]; [apply Hq0; [exact Hf|reflexivity|left; reflexivity]|].
    destruct (left =? 0) eqn:E0.
    + apply Hq0; [exact Hf|cbn [take_loop]; rewrite E0; reflexivity|right; exact E0].
    + cbn [sloop take_loop]. rewrite E0.
      apply PSimV_assoc_l, PSimV_assoc_r. eapply PSimV_pbnd_self; [apply Hit|].
      intros [[x st']|e]; cbn [TagOk].
      * apply PSimV_pure. intros Hx.
        eapply PSimV_conseq; [apply (IH nq (left - 1) st' (x :: acc) (x :: acc0)); lia|auto|].
        intros xt xe (Hfin & new & rest & He & Hn & Hr & Ht). split; [exact Hfin|].
        exists (x :: new), rest. split; [rewrite He; cbn [rev app]; rewrite <- !app_assoc; reflexivity|].
        split; [constructor; assumption|]. split; [exact Hr|].
        rewrite Ht. cbn [rev firstn app]. rewrite <- !app_assoc. reflexivity.
      * apply PSimV_weaken.
        eapply PSimV_change; [intros; reflexivity|intros; reflexivity|]. apply PSimV_pret.
        split; [reflexivity|]. cbn [fst snd]. exists [], []. split; [rewrite !app_nil_r; reflexivity|].
        split; [constructor|]. split; [constructor|]. rewrite take_sections_nil, firstn_nil_item, !app_nil_r. reflexivity.
Qed.

Lemma sect_take_sim left st : (t < 10)%nat ->
  PSim (BR n t) (sect_take fuel n it left st k) (sect (sloop fuel it left st []) k').
Proof.
  intros Ht. rewrite sect_take_unfold, sect_unfold.
  eapply PSimV_conseq; [apply (take_sim fuel n left st [] []); lia|auto|].
  intros xt xe (Hfin & new & rest & He & Hn & Hr & Hx). cbn [rev app] in He, Hx. split; [exact Hfin|].
  rewrite He, Hx. split; [symmetry; apply (take_sections_app n t); assumption|].
  apply Forall_app. split; [eapply Forall_imp_item; [|exact Hn]|eapply Forall_imp_item; [|exact Hr]]; cbn beta; intros; lia.
Qed.

End Loop.

(* ================================================================== *)
(* 5. the entry readers hand out entries of their own section            *)

Ltac tag_tac :=
  repeat (apply yields_rbnd_any; [intros ?|intros; exact I]);
  unfold code_plus_2; apply yields_pret; intros; cbn [TagOk sec_of]; auto.

Lemma lit_line_tag {St : Type} fuel maxc ml asg (mk : N -> item) t (st : St) :
  (forall c, sec_of (mk c) = t) -> yields (lit_line fuel maxc ml asg mk st) (TagOk t).
Proof. intros Hmk. unfold lit_line. tag_tac. Qed.

Lemma justice_size_tag fuel total : yields (justice_size fuel total) (TagOk 5).
Proof. unfold justice_size. tag_tac. Qed.

Lemma aag_latch_tag fuel maxc ml st : yields (aag_latch fuel maxc ml st) (TagOk 1).
Proof. unfold aag_latch. tag_tac. Qed.

Lemma aag_and_tag fuel maxc ml st : yields (aag_and fuel maxc ml st) (TagOk 8).
Proof. unfold aag_and. tag_tac. Qed.

Lemma aig_latch_tag fuel maxc ml code : yields (aig_latch fuel maxc ml code) (TagOk 1).
Proof. unfold aig_latch. tag_tac. Qed.

Lemma aig_and_tag maxc code : yields (aig_and maxc code) (TagOk 8).
Proof. unfold aig_and. tag_tac. Qed.

(* ================================================================== *)
(* 6. a next_symbol() that returns None has only peeked                 *)

Lemma det_srun_aruns {A} (p : prog A) : det p -> forall v, aruns p v (srun p v).
Proof.
  induction p as [a|k c IH|n c IH|off c IH|c IH|c IH|c IH|c IH|c IH|c IH|k|]; cbn [det srun]; intros Hd v.
  - constructor.
  - constructor. apply IH, Hd.
  - destruct (vcur v + n <=? vhwm v) eqn:E.
    + apply ar_adv; [apply N.leb_le; exact E|apply IH, Hd].
    + apply ar_adv_stuck. apply N.leb_gt. exact E.
  - contradiction.
  - constructor. apply IH, Hd.
  - constructor. apply IH, Hd.
  - constructor. apply IH, Hd.
  - constructor. apply IH, Hd.
  - constructor. apply IH, Hd.
  - constructor. apply IH, Hd.
  - constructor.
  - constructor.
Qed.

(* the byte at offset i has been asked for: asking again changes nothing *)
Definition looked (v : view) (i : N) : Prop :=
  (match vpeek v i with None => true | Some _ => vknown v end) = vknown v /\
  (match vpeek v i with None => nlen (vS v) | Some _ => N.max (vhwm v) (vcur v + i + 1) end) = vhwm v /\
  N.max (vreq v) (vcur v + i + 1) = vreq v.

Lemma looked_eq v i : looked v i -> after_peek v i = v.
Proof.
  intros (H1 & H2 & H3). destruct v as [S fl cur mk tk kn hw rq]. unfold after_peek, vpeek in *.
  cbn [vS vfail vcur vmark vtaken vknown vhwm vreq] in *. rewrite H1, H2, H3. reflexivity.
Qed.

Lemma looked_after v i : looked (after_peek v i) i.
Proof.
  unfold looked. rewrite vpeek_after_peek. unfold after_peek. cbn [vS vfail vcur vmark vtaken vknown vhwm vreq].
  destruct (vpeek v i); repeat split; lia.
Qed.

Lemma looked_keep v i j : looked v i -> looked (after_peek v j) i.
Proof.
  unfold looked. rewrite vpeek_after_peek. unfold after_peek. cbn [vS vfail vcur vmark vtaken vknown vhwm vreq].
  intros (H1 & H2 & H3).
  destruct (vpeek v i) as [bi|] eqn:Ei; destruct (vpeek v j) as [bj|] eqn:Ej;
    try (unfold vpeek in Ei; apply nnth_some_lt in Ei); try (unfold vpeek in Ej; apply nnth_some_lt in Ej);
    repeat split; try reflexivity; try assumption; try lia.
Qed.

(* w has the stream and cursor of v and has asked for whatever v has asked for *)
Definition PK (v w : view) : Prop := vS w = vS v /\ vcur w = vcur v /\ forall i, looked v i -> looked w i.

Lemma PK_refl v : PK v v.
Proof. split; [reflexivity|]. split; [reflexivity|]. auto. Qed.

Lemma PK_trans u v w : PK u v -> PK v w -> PK u w.
Proof. intros (a1 & a2 & a3) (b1 & b2 & b3). split; [congruence|]. split; [congruence|]. auto. Qed.

Lemma PK_peek v i : PK v (after_peek v i).
Proof. split; [reflexivity|]. split; [reflexivity|]. intros j. apply looked_keep. Qed.

Lemma PK_vpeek v w i : PK v w -> vpeek w i = vpeek v i.
Proof. intros (a1 & a2 & _). unfold vpeek. rewrite a1, a2. reflexivity. Qed.

(* a token that falls through after having only peeked, replayably — or does not fall through *)
Definition FTI {A} (t : tok A) : Prop :=
  forall lr v r, aruns (t lr) v r ->
    (exists v1, r = ADone (Fallthrough, lr) v1 /\ PK v v1 /\
                forall w, PK v1 w -> aruns (t lr) w (ADone (Fallthrough, lr) w)) \/
    (forall lr1 v1, r <> ADone (Fallthrough, lr1) v1).

Lemma FTI_of_srun {A} (F : tok A) :
  (forall lr, det (F lr)) ->
  (forall lr v,
     (exists v1, srun (F lr) v = ADone (Fallthrough, lr) v1 /\ PK v v1 /\
                 forall w, PK v1 w -> srun (F lr) w = ADone (Fallthrough, lr) w) \/
     (forall lr1 v1, srun (F lr) v <> ADone (Fallthrough, lr1) v1)) ->
  FTI F.
Proof.
  intros Hd H lr v r Hr. rewrite (det_aruns _ _ _ Hr (Hd lr)).
  destruct (H lr v) as [(v1 & E & Hpk & Hre)|Hn]; [left|right; exact Hn].
  exists v1. split; [exact E|]. split; [exact Hpk|]. intros w Hw. rewrite <- (Hre w Hw). apply det_srun_aruns, Hd.
Qed.

Lemma tfixed1_srun c lr v :
  (is_byte (vpeek v 0) c = false /\ srun (tfixed [c] lr) v = ADone (Fallthrough, lr) (after_peek v 0)) \/
  (is_byte (vpeek v 0) c = true /\ forall lr1 v1, srun (tfixed [c] lr) v <> ADone (Fallthrough, lr1) v1).
Proof.
  unfold tfixed, fixed, fixed_from, pbnd, lift, tok_ft, tok_ok, padvance, pret. cbn [pbind srun].
  change (0 + 0) with 0. destruct (vpeek v 0) as [x|]; cbn [is_byte]; [destruct (x =? c)|].
  - right. split; [reflexivity|]. cbn [pbind srun]. change (0 + (0 + 1) =? 0) with false. cbv iota. unfold lift. cbn [pbind srun].
    intros lr1 v1. destruct (_ <=? _); cbn [pbind srun]; discriminate.
  - left. split; reflexivity.
  - left. split; reflexivity.
Qed.

Lemma fixed_not_eol1_srun c lr v :
  (is_byte (vpeek v 0) c = false /\ srun (fixed_not_eol [c] lr) v = ADone (Fallthrough, lr) (after_peek v 0)) \/
  (is_byte (vpeek v 0) c = true /\ is_byte (vpeek v 1) 10 = true /\
   srun (fixed_not_eol [c] lr) v = ADone (Fallthrough, lr) (after_peek (after_peek v 0) 1)) \/
  (is_byte (vpeek v 0) c = true /\ is_byte (vpeek v 1) 10 = false /\
   forall lr1 v1, srun (fixed_not_eol [c] lr) v <> ADone (Fallthrough, lr1) v1).
Proof.
  unfold fixed_not_eol, fixed, fixed_from, pbnd, lift, tok_ft, tok_ok, padvance, ppeek, pret. cbn [pbind srun].
  change (0 + 0) with 0. destruct (vpeek v 0) as [x|]; cbn [is_byte]; [destruct (x =? c)|].
  - right. cbn [pbind srun]. change (0 + (0 + 1) =? 0) with false. cbv iota. unfold lift. cbn [pbind srun].
    change (0 + (0 + 1)) with 1. rewrite vpeek_after_peek.
    destruct (is_byte (vpeek v 1) 10).
    + left. split; [reflexivity|]. split; reflexivity.
    + right. split; [reflexivity|]. split; [reflexivity|]. cbn [pbind srun].
      intros lr1 v1. destruct (_ <=? _); cbn [pbind srun]; discriminate.
  - left. split; reflexivity.
  - left. split; reflexivity.
Qed.

Lemma det_tfixed1 c lr : det (tfixed [c] lr).
Proof.
  unfold tfixed, fixed, fixed_from, pbnd, lift, tok_ft, tok_ok, padvance, pret. cbn [pbind det].
  intros [x|]; [destruct (x =? c)|]; cbn [pbind det]; exact I.
Qed.

Lemma det_fixed_not_eol1 c lr : det (fixed_not_eol [c] lr).
Proof.
  unfold fixed_not_eol, fixed, fixed_from, pbnd, lift, tok_ft, tok_ok, padvance, ppeek, pret. cbn [pbind det].
  intros [x|]; [destruct (x =? c)|]; cbn [pbind det]; try exact I.
  intros o. unfold lift. cbn [pbind det]. destruct (is_byte o 10); cbn [det]; exact I.
Qed.

Lemma FTI_tfixed1 c : FTI (tfixed [c]).
Proof.
  apply FTI_of_srun; [apply det_tfixed1|]. intros lr v.
  destruct (tfixed1_srun c lr v) as [[Hb Hs]|[Hb Hn]]; [left|right; exact Hn].
  exists (after_peek v 0). split; [exact Hs|]. split; [apply PK_peek|]. intros w Hw.
  destruct (tfixed1_srun c lr w) as [[Hb' Hs']|[Hb' _]].
  - rewrite Hs'. f_equal. apply looked_eq. apply Hw. apply looked_after.
  - rewrite (PK_vpeek _ _ 0 Hw), vpeek_after_peek, Hb in Hb'. discriminate.
Qed.

Lemma FTI_fixed_not_eol1 c : FTI (fixed_not_eol [c]).
Proof.
  apply FTI_of_srun; [apply det_fixed_not_eol1|]. intros lr v.
  destruct (fixed_not_eol1_srun c lr v) as [[Hb Hs]|[(Hb & Hl & Hs)|(Hb & Hl & Hn)]]; [left|left|right; exact Hn].
  - exists (after_peek v 0). split; [exact Hs|]. split; [apply PK_peek|]. intros w Hw.
    destruct (fixed_not_eol1_srun c lr w) as [[Hb' Hs']|[(Hb' & _)|(Hb' & _)]].
    + rewrite Hs'. f_equal. apply looked_eq. apply Hw. apply looked_after.
    + rewrite (PK_vpeek _ _ 0 Hw), vpeek_after_peek, Hb in Hb'. discriminate.
    + rewrite (PK_vpeek _ _ 0 Hw), vpeek_after_peek, Hb in Hb'. discriminate.
  - exists (after_peek (after_peek v 0) 1). split; [exact Hs|].
    split; [eapply PK_trans; apply PK_peek|]. intros w Hw.
    assert (Hp0 : vpeek w 0 = vpeek v 0) by (rewrite (PK_vpeek _ _ 0 Hw), !vpeek_after_peek; reflexivity).
    assert (Hp1 : vpeek w 1 = vpeek v 1) by (rewrite (PK_vpeek _ _ 1 Hw), !vpeek_after_peek; reflexivity).
    destruct (fixed_not_eol1_srun c lr w) as [[Hb' Hs']|[(Hb' & Hl' & Hs')|(Hb' & Hl' & _)]].
    + rewrite Hp0, Hb in Hb'. discriminate.
    + rewrite Hs'. f_equal.
      assert (E0 : after_peek w 0 = w) by (apply looked_eq, Hw, looked_keep, looked_after).
      rewrite E0. apply looked_eq, Hw, looked_after.
    + rewrite Hp1, Hl in Hl'. discriminate.
Qed.

(* after a token that falls through or not: a continuation that passes a fall-through on and turns nothing else
   into one *)
Lemma FTI_then {A B} (F : tok A) (K : parsed A perr -> tok B) :
  FTI F -> (forall lr, K Fallthrough lr = Ret (Fallthrough, lr)) ->
  (forall x, yields (K (Res x)) (fun a _ _ => a <> Fallthrough)) ->
  FTI (pbnd F K).
Proof.
  intros HF Hft Hres lr v r Hr. unfold pbnd in Hr.
  destruct (aruns_bind_inv _ _ v r Hr) as [([f lr1] & v1 & H1 & H2)|(r0 & H1 & Hab)].
  - destruct (HF lr v _ H1) as [(v1' & E & Hpk & Hre)|Hn].
    + inversion E; subst f lr1 v1'. rewrite Hft in H2. apply aruns_ret_inv in H2. subst r. left.
      exists v1. split; [reflexivity|]. split; [exact Hpk|]. intros w Hw. unfold pbnd.
      eapply aruns_bind_done; [apply Hre; exact Hw|]. cbv beta iota. rewrite Hft. constructor.
    + right. intros lr2 v2 ->. destruct f as [x|]; [|eapply Hn; reflexivity].
      exact (Hres x lr1 v1 _ _ _ H2 eq_refl).
  - right. intros lr2 v2 ->. destruct r0; cbn in Hab; contradiction.
Qed.

Lemma FTI_ft {A} : FTI (@tok_ft A).
Proof.
  intros lr v r Hr. unfold tok_ft, pret in Hr. apply aruns_ret_inv in Hr. subst. left.
  exists v. split; [reflexivity|]. split; [apply PK_refl|]. intros w _. constructor.
Qed.

Lemma FTI_or {A} (a b : tok A) : FTI a -> FTI b -> FTI (or_parse_tok a b).
Proof.
  intros Ha Hb lr v r Hr. unfold or_parse_tok, pbnd in Hr.
  destruct (aruns_bind_inv _ _ v r Hr) as [([f lr1] & v1 & H1 & H2)|(r0 & H1 & Hab)].
  - destruct (Ha lr v _ H1) as [(v1' & E & Hpk & Hre)|Hn].
    + inversion E; subst f lr1 v1'. destruct (Hb lr v1 r H2) as [(v2 & E2 & Hpk2 & Hre2)|Hn2]; [left|right; exact Hn2].
      exists v2. split; [exact E2|]. split; [eapply PK_trans; eassumption|]. intros w Hw.
      unfold or_parse_tok, pbnd. eapply aruns_bind_done; [apply Hre; eapply PK_trans; eassumption|]. apply Hre2. exact Hw.
    + right. intros lr2 v2 ->. destruct f as [x|]; [|eapply Hn; reflexivity].
      unfold pret in H2. apply aruns_ret_inv in H2. discriminate.
  - right. intros lr2 v2 ->. destruct r0; cbn in Hab; contradiction.
Qed.

Lemma FTI_sym_try fuel count letter ne k : FTI (sym_try fuel count letter ne k).
Proof.
  unfold sym_try. destruct (0 <? count); [|apply FTI_ft].
  apply FTI_then.
  - destruct ne; [apply FTI_fixed_not_eol1|apply FTI_tfixed1].
  - intros lr. reflexivity.
  - intros [u|e].
    + apply yields_pbnd_any. intros r. apply yields_pret. intros; discriminate.
    + apply yields_pret. intros; discriminate.
Qed.

Lemma FTI_symbol_target fuel h : FTI (symbol_target fuel h).
Proof. unfold symbol_target. repeat apply FTI_or; apply FTI_sym_try. Qed.

(* what next_symbol() returns: a symbol; or None, and then the same call from where it ended returns None again and
   changes nothing; or an error *)
Definition SymQ (fuel : nat) (h : aheader) : result (option item) perr -> lrs -> view -> Prop :=
  fun a lr' v' =>
    match a with
    | Ok (Some s) => sec_of s = 9%nat
    | Ok None => aruns (next_symbol fuel h lr') v' (ADone (Ok None, lr') v')
    | Err _ => True
    end.

Lemma next_symbol_none_replay fuel h : yields (next_symbol fuel h) (SymQ fuel h).
Proof.
  intros lr v a lr' v' Hr. unfold next_symbol, pbnd in Hr.
  destruct (aruns_bind_inv _ _ v _ Hr) as [([t lr1] & v1 & H1 & H2)|(r0 & H1 & Hab)];
    [|destruct r0; cbn in Hab; contradiction].
  destruct t as [[[k i]|e]|].
  - assert (Hy : yields (required_space ;;? let? name := remaining_line_content fuel in pret (Ok (Some (ISymbol k i name))))
                        (fun a _ _ => match a with Ok (Some s) => sec_of s = 9%nat | Ok None => False | Err _ => True end)).
    { apply yields_rbnd_any; [intros _|intros; exact I]. apply yields_rbnd_any; [intros name|intros; exact I].
      apply yields_pret. intros; reflexivity. }
    pose proof (Hy lr1 v1 a lr' v' H2) as Ha. destruct a as [[s|]|e]; cbn [SymQ]; [exact Ha|contradiction|exact I].
  - unfold pret in H2. apply aruns_ret_inv in H2. inversion H2; subst. exact I.
  - unfold pret in H2. apply aruns_ret_inv in H2. inversion H2; subst a lr' v'. cbn [SymQ].
    destruct (FTI_symbol_target fuel h lr v _ H1) as [(v1' & E & Hpk & Hre)|Hn]; [|exfalso; eapply Hn; reflexivity].
    inversion E; subst lr1 v1'. unfold next_symbol, pbnd.
    eapply aruns_bind_done; [apply Hre; apply PK_refl|]. constructor.
Qed.

(* ================================================================== *)
(* 7. the symbol table and the comment                                  *)

Lemma PSimV_silent_r {A B C} (P : lrs -> view -> Prop) (R : A -> B -> Prop) (m : PM A) (q0 : PM C) (g : C -> PM B) c :
  (forall lr v, P lr v -> aruns (q0 lr) v (ADone (c, lr) v) \/ exists r0, aruns (q0 lr) v r0 /\ notdone r0) ->
  PSimV P R m (g c) -> PSimV P R m (pbnd q0 g).
Proof.
  intros H Hm lr. unfold pbnd.
  apply (SimV_silent_r (P lr) _ (m lr) (q0 lr) (fun '(a, s') => g a s') (c, lr)); [apply H|apply Hm].
Qed.

(* ParseSymbols::comment behind its loop *)
Definition KCN (fuel : nat) : PM (list item * final) :=
  let* c := tfixed [99] in
  match c with
  | Res (Ok _) =>
      let* r2 := (required_newline ;;? remaining_file_content fuel) in
      match r2 with
      | Ok content => pret ([IComment content], FOk)
      | Err err => pret ([], FErr err)
      end
  | Res (Err err) => pret ([], FErr err)
  | Fallthrough =>
      let* r2 := or_unexpected teof in
      match r2 with
      | Ok _ => pret ([], FOk)
      | Err err => pret ([], FErr err)
      end
  end.

Definition KC (fuel : nat) : list item * unit * option perr -> PM (list item * final) :=
  fun r => let '(_, _, e) := r in match e with Some err => pret ([], FErr err) | None => KCN fuel end.

Lemma comment_section_unfold fuel h : comment_section fuel h = pbnd (symbols_loop fuel fuel h []) (KC fuel).
Proof. reflexivity. Qed.

Definition TailItems (l : list item) : Prop := l = [] \/ exists c, l = [IComment c].

Lemma TailItems_above l : TailItems l -> Forall (fun x => (9 < sec_of x)%nat) l.
Proof. intros [->|[c ->]]; [constructor|]. constructor; [cbn [sec_of]; lia|constructor]. Qed.

Lemma TailItems_cut n l : TailItems l -> take_sections n l = l.
Proof.
  intros [->|[c ->]]; [apply take_sections_nil|].
  unfold take_sections, section_of. cbn [seq flat_map filter sec_of Nat.eqb]. rewrite !firstn_nil_item. reflexivity.
Qed.

Lemma KCN_yields fuel : yields (KCN fuel) (fun x _ _ => TailItems (fst x)).
Proof.
  unfold KCN. apply yields_pbnd_any. intros [[u|e]|].
  - apply yields_pbnd_any. intros [c|e]; apply yields_pret; intros; cbn [fst]; [right; exists c; reflexivity|left; reflexivity].
  - apply yields_pret. intros; left; reflexivity.
  - apply yields_pbnd_any. intros [u|e]; apply yields_pret; intros; left; reflexivity.
Qed.

Lemma comment_section_yields fuel h : yields (comment_section fuel h) (fun x _ _ => TailItems (fst x)).
Proof.
  rewrite comment_section_unfold. apply yields_pbnd_any. intros [[l u] [e|]]; cbn [KC].
  - apply yields_pret. intros; left; reflexivity.
  - apply KCN_yields.
Qed.

Section Tail.
Variable fuel : nat.
Variable h : aheader.
Variable n : nat.

Local Notation CS := (comment_section fuel h).
Local Notation KS := (Ksect (fun _ : unit => CS)).

(* the same comment section behind both drives *)
Lemma tail_wrap (P : lrs -> view -> Prop) (m : PM (list item * final)) nq acc acc0 :
  yields m (fun x _ _ => TailItems (fst x)) ->
  PSimV P (RT n 9 nq acc acc0) (pbnd m (Kwrap (rev acc))) (pbnd m (Kwrap (rev acc0))).
Proof.
  intros Hy. eapply PSimV_pbnd_self; [exact Hy|]. intros [items2 fin]. cbn [fst Kwrap].
  apply PSimV_pure. intros Ht. apply PSimV_pret. split; [reflexivity|]. cbn [fst snd].
  exists [], items2. split; [reflexivity|]. split; [constructor|]. split; [apply TailItems_above; exact Ht|].
  rewrite firstn_nil_item, (TailItems_cut n items2 Ht). reflexivity.
Qed.

Lemma RT_cons nq x acc acc0 xt xe : sec_of x = 9%nat ->
  RT n 9 nq (x :: acc) (x :: acc0) xt xe -> RT n 9 (S nq) acc acc0 xt xe.
Proof.
  intros Hx (Hfin & new & rest & He & Hn & Hr & Ht). split; [exact Hfin|].
  exists (x :: new), rest. split; [rewrite He; cbn [rev app]; rewrite <- !app_assoc; reflexivity|].
  split; [constructor; assumption|]. split; [exact Hr|].
  rewrite Ht. cbn [rev firstn app]. rewrite <- !app_assoc. reflexivity.
Qed.

Lemma RT_skip x acc acc0 xt xe : sec_of x = 9%nat ->
  RT n 9 0 acc (x :: acc0) xt xe -> RT n 9 0 acc acc0 xt xe.
Proof.
  intros Hx (Hfin & new & rest & He & Hn & Hr & Ht). split; [exact Hfin|].
  exists (x :: new), rest. split; [rewrite He; cbn [rev app]; rewrite <- !app_assoc; reflexivity|].
  split; [constructor; assumption|]. split; [exact Hr|]. exact Ht.
Qed.

Lemma RT_err nq acc acc0 (e : perr) : RT n 9 nq acc acc0 (rev acc ++ [], FErr e) (rev acc0, FErr e).
Proof.
  split; [reflexivity|]. cbn [fst snd]. exists [], []. split; [rewrite !app_nil_r; reflexivity|].
  split; [constructor|]. split; [constructor|]. rewrite take_sections_nil, firstn_nil_item, !app_nil_r. reflexivity.
Qed.

(* comment()'s loop over the symbols that are left, against the rest of the exhaustive drive's loop *)
Lemma sym_skip_sim : forall f0 f accd acc acc0, (f0 <= f)%nat ->
  PSim (RT n 9 0 acc acc0)
       (pbnd (symbols_loop fuel f h accd) (fun r => pbnd (KC fuel r) (Kwrap (rev acc))))
       (pbnd (symbols_loop fuel f0 h acc0) KS).
Proof.
  induction f0 as [|f0 IH]; intros f accd acc acc0 Hf; [cbn [symbols_loop]; apply PSimV_nofuel_r|].
  destruct f as [|f]; [lia|]. cbn [symbols_loop].
  apply PSimV_assoc_l, PSimV_assoc_r. eapply PSimV_pbnd_self; [apply next_symbol_none_replay|].
  intros [[s|]|e]; cbn [SymQ].
  - apply PSimV_pure. intros Hs.
    eapply PSimV_conseq; [apply (IH f (s :: accd) acc (s :: acc0)); lia|auto|].
    intros xt xe. apply RT_skip. exact Hs.
  - (* the exhaustive drive's loop ends here; its comment() calls next_symbol() once more *)
    change (PSimV (fun lr' v' => aruns (next_symbol fuel h lr') v' (ADone (Ok None, lr') v')) (RT n 9 0 acc acc0)
                  (pbnd (KCN fuel) (Kwrap (rev acc)))
                  (pbnd (pbnd (symbols_loop fuel fuel h []) (KC fuel)) (Kwrap (rev acc0)))).
    apply PSimV_assoc_r.
    apply (PSimV_silent_r _ _ _ _ _ ([], tt, None)).
    + intros lr v Hrep. destruct fuel as [|f1]; [right; exists AFuel; split; [constructor|exact I]|].
      left. cbn [symbols_loop]. unfold pbnd. eapply aruns_bind_done; [exact Hrep|]. constructor.
    + change (PSimV (fun lr' v' => aruns (next_symbol fuel h lr') v' (ADone (Ok None, lr') v')) (RT n 9 0 acc acc0)
                    (pbnd (KCN fuel) (Kwrap (rev acc))) (pbnd (KCN fuel) (Kwrap (rev acc0)))).
      apply tail_wrap. apply KCN_yields.
  - apply PSimV_weaken.
    change (PSim (RT n 9 0 acc acc0) (pret (rev acc ++ [], FErr e)) (pret (rev acc0, FErr e))).
    apply PSimV_pret. apply RT_err.
Qed.

Lemma sym_take_sim : forall f0 nq acc acc0, (f0 <= fuel)%nat ->
  PSim (RT n 9 nq acc acc0) (pbnd (sym_take fuel nq h acc) KS) (pbnd (symbols_loop fuel f0 h acc0) KS).
Proof.
  assert (Hq0 : forall f0 acc acc0, (f0 <= fuel)%nat ->
            PSim (RT n 9 0 acc acc0) (pbnd (sym_take fuel 0 h acc) KS) (pbnd (symbols_loop fuel f0 h acc0) KS)).
  { intros f0 acc acc0 Hf. cbn [sym_take].
    change (PSim (RT n 9 0 acc acc0) (pbnd (pbnd (symbols_loop fuel fuel h []) (KC fuel)) (Kwrap (rev acc)))
                 (pbnd (symbols_loop fuel f0 h acc0) KS)).
    apply PSimV_assoc_l. apply sym_skip_sim. exact Hf. }
  induction f0 as [|f0 IH]; intros nq acc acc0 Hf.
  - destruct nq as [|nq]; [apply Hq0; exact Hf|]. cbn [symbols_loop]. apply PSimV_nofuel_r.
  - destruct nq as [|nq]; [apply Hq0; exact Hf|]. cbn [symbols_loop sym_take].
    apply PSimV_assoc_l, PSimV_assoc_r. eapply PSimV_pbnd_self; [apply next_symbol_none_replay|].
    intros [[s|]|e]; cbn [SymQ].
    + apply PSimV_pure. intros Hs.
      eapply PSimV_conseq; [apply (IH nq (s :: acc) (s :: acc0)); lia|auto|].
      intros xt xe. apply RT_cons. exact Hs.
    + change (PSimV (fun lr' v' => aruns (next_symbol fuel h lr') v' (ADone (Ok None, lr') v')) (RT n 9 (S nq) acc acc0)
                    (pbnd CS (Kwrap (rev acc))) (pbnd CS (Kwrap (rev acc0)))).
      apply tail_wrap. apply comment_section_yields.
    + apply PSimV_weaken.
      change (PSim (RT n 9 (S nq) acc acc0) (pret (rev acc, FErr e)) (pret (rev acc0, FErr e))).
      apply PSimV_pret. pose proof (RT_err (S nq) acc acc0 e) as H. rewrite app_nil_r in H. exact H.
Qed.

Lemma tail_sim :
  PSim (BR n 9) (sect (sym_take fuel n h []) (fun _ => CS)) (sect (symbols_loop fuel fuel h []) (fun _ => CS)).
Proof.
  rewrite !sect_unfold.
  eapply PSimV_conseq; [apply (sym_take_sim fuel n [] []); lia|auto|].
  intros xt xe (Hfin & new & rest & He & Hn & Hr & Hx). cbn [rev app] in He, Hx. split; [exact Hfin|].
  rewrite He, Hx. split; [symmetry; apply (take_sections_app n 9); [lia|assumption..]|].
  apply Forall_app. split; [eapply Forall_imp_item; [|exact Hn]|eapply Forall_imp_item; [|exact Hr]]; cbn beta; intros; lia.
Qed.

End Tail.

(* ================================================================== *)
(* 8. the two parsers                                                    *)

Lemma middle_sim {St : Type} fuel maxc ml n h (st : St) (k k' : St -> PM (list item * final)) :
  (forall st, PSim (BR n 8) (k st) (k' st)) ->
  PSim (BR n 2) (middle_sections_take fuel maxc ml n h st k) (middle_sections fuel maxc ml h st k').
Proof.
  intros Hk. unfold middle_sections_take, middle_sections.
  apply (sect_take_sim fuel _ n 2 3); [lia|intros; apply lit_line_tag; reflexivity| |lia]. intros st1.
  apply (sect_take_sim fuel _ n 3 4); [lia|intros; apply lit_line_tag; reflexivity| |lia]. intros st2.
  apply (sect_take_sim fuel _ n 4 5); [lia|intros; apply lit_line_tag; reflexivity| |lia]. intros st3.
  apply (sect_take_sim fuel _ n 5 6); [lia|intros; apply justice_size_tag| |lia]. intros total.
  apply (sect_take_sim fuel _ n 6 7); [lia|intros; apply lit_line_tag; reflexivity| |lia]. intros st5.
  apply (sect_take_sim fuel _ n 7 8); [lia|intros; apply lit_line_tag; reflexivity| |lia]. exact Hk.
Qed.

(* header, final outcome, items *)
Definition OutRel (n : nat) (a b : aout) : Prop :=
  fst (fst a) = fst (fst b) /\ snd a = snd b /\ snd (fst a) = take_sections n (snd (fst b)).

Lemma finish_parse_sim n (hres : result aheader perr) (body body' : aheader -> PM (list item * final)) :
  (forall hd, PSim (BR n 0) (body hd) (body' hd)) ->
  PSim (OutRel n) (finish_parse hres body) (finish_parse hres body').
Proof.
  intros Hb. unfold finish_parse. destruct hres as [hd|e].
  - eapply PSimV_pbnd; [apply Hb|]. intros [i1 f1] [i2 f2] (Hf & Hi & _). cbn [fst snd] in Hf, Hi. subst.
    apply PSimV_pret. repeat split.
  - apply PSimV_pret. split; [reflexivity|]. split; [reflexivity|]. cbn [fst snd]. symmetry. apply take_sections_nil.
Qed.

Lemma yields_any {A} (m : PM A) : yields m (fun _ _ _ => True).
Proof. intros lr v a lr' v' _. exact I. Qed.

Theorem parse_aag_take_sim fuel maxc n : PSim (OutRel n) (parse_aag_take fuel maxc n) (parse_aag fuel maxc).
Proof.
  unfold parse_aag_take, parse_aag. eapply PSimV_pbnd_self; [apply yields_any|]. intros hres. apply PSimV_weaken.
  apply finish_parse_sim. intros hd. cbv zeta.
  apply (sect_take_sim fuel _ n 0 1); [lia|intros; apply lit_line_tag; reflexivity| |lia]. intros st1.
  apply (sect_take_sim fuel _ n 1 2); [lia|intros; apply aag_latch_tag| |lia]. intros st2.
  apply middle_sim. intros st3.
  apply (sect_take_sim fuel _ n 8 9); [lia|intros; apply aag_and_tag| |lia]. intros _.
  apply tail_sim.
Qed.

Theorem parse_aig_take_sim fuel maxc n : PSim (OutRel n) (parse_aig_take fuel maxc n) (parse_aig fuel maxc).
Proof.
  unfold parse_aig_take, parse_aig. eapply PSimV_pbnd_self; [apply yields_any|]. intros hres. apply PSimV_weaken.
  apply finish_parse_sim. intros hd. cbv zeta.
  apply (PSimV_conseq anylv anylv (BR n 1) (BR n 0)); [|auto|].
  - apply (sect_take_sim fuel _ n 1 2); [lia|intros; apply aig_latch_tag| |lia]. intros code.
    apply middle_sim. intros code2.
    apply (sect_take_sim fuel _ n 8 9); [lia|intros; apply aig_and_tag| |lia]. intros _.
    apply tail_sim.
  - intros xt xe (Hf & Hi & Ha). split; [exact Hf|]. split; [exact Hi|].
    eapply Forall_imp_item; [|exact Ha]. cbn beta. intros; lia.
Qed.

(* ---------- the theorems: every admissible run ---------- *)
(* Every admissible run of the taking drive ends normally; the exhaustive parse has a run from the same view to the
   same final view and LineReader state with the same header and the same final outcome, whose items cut to the first
   n of every section are the items handed out; and every admissible run of the exhaustive parse returns that header,
   those items and that final outcome. *)
Theorem parse_aag_take_agrees fuel maxc n S fail r :
  Forall (fun b => b < 256) S -> nlen S < 2 ^ 62 -> (length S < fuel)%nat ->
  aruns (parse_aag_take fuel maxc n lrs_init) (view_init S fail) r ->
  exists ohd items fin lr' v',
    r = ADone (ohd, take_sections n items, fin, lr') v' /\
    aruns (parse_aag fuel maxc lrs_init) (view_init S fail) (ADone (ohd, items, fin, lr') v') /\
    forall r', aruns (parse_aag fuel maxc lrs_init) (view_init S fail) r' ->
               exists v'', r' = ADone (ohd, items, fin, lr') v''.
Proof.
  intros Hb Hl Hf Hr.
  destruct (parse_aag_take_sim fuel maxc n lrs_init (view_init S fail) r I Hr) as (r0 & Hq & Hm).
  destruct (parse_aag_safe fuel maxc S fail r0 Hb Hl Hf Hq) as ([[ohd items] fin] & lr' & v' & ->).
  cbv beta iota in Hm. destruct Hm as ([[[oh2 it2] f2] lr2] & -> & (H1 & H2 & H3) & H4). cbn [fst snd] in H1, H2, H3, H4. subst oh2 it2 f2 lr2.
  exists ohd, items, fin, lr', v'. split; [reflexivity|]. split; [exact Hq|].
  intros r' Hr'. destruct (parse_aag_safe fuel maxc S fail r' Hb Hl Hf Hr') as (out2 & lr2 & v2 & ->).
  set (v0 := view_init S fail) in *. assert (Hw : WFV v0) by (unfold WFV, v0; cbn; lia).
  pose proof (PDet_parse_aag fuel maxc lrs_init v0 v0 _ _ eq_refl Hw Hw Hb Hf Hq Hr') as [E _].
  exists v2. rewrite <- E. reflexivity.
Qed.
Print Assumptions parse_aag_take_agrees.

Theorem parse_aig_take_agrees fuel maxc n S fail r :
  Forall (fun b => b < 256) S -> nlen S < 2 ^ 62 -> (length S < fuel)%nat ->
  aruns (parse_aig_take fuel maxc n lrs_init) (view_init S fail) r ->
  exists ohd items fin lr' v',
    r = ADone (ohd, take_sections n items, fin, lr') v' /\
    aruns (parse_aig fuel maxc lrs_init) (view_init S fail) (ADone (ohd, items, fin, lr') v') /\
    forall r', aruns (parse_aig fuel maxc lrs_init) (view_init S fail) r' ->
               exists v'', r' = ADone (ohd, items, fin, lr') v''.
Proof.
  intros Hb Hl Hf Hr.
  destruct (parse_aig_take_sim fuel maxc n lrs_init (view_init S fail) r I Hr) as (r0 & Hq & Hm).
  destruct (parse_aig_safe fuel maxc S fail r0 Hb Hl Hf Hq) as ([[ohd items] fin] & lr' & v' & ->).
  cbv beta iota in Hm. destruct Hm as ([[[oh2 it2] f2] lr2] & -> & (H1 & H2 & H3) & H4). cbn [fst snd] in H1, H2, H3, H4. subst oh2 it2 f2 lr2.
  exists ohd, items, fin, lr', v'. split; [reflexivity|]. split; [exact Hq|].
  intros r' Hr'. destruct (parse_aig_safe fuel maxc S fail r' Hb Hl Hf Hr') as (out2 & lr2 & v2 & ->).
  set (v0 := view_init S fail) in *. assert (Hw : WFV v0) by (unfold WFV, v0; cbn; lia).
  pose proof (PDet_parse_aig fuel maxc lrs_init v0 v0 _ _ eq_refl Hw Hw Hb Hf Hq Hr') as [E _].
  exists v2. rewrite <- E. reflexivity.
Qed.
Print Assumptions parse_aig_take_agrees.

(* the two drives never get stuck, never panic and never run out of fuel, either *)
Corollary parse_aag_take_safe fuel maxc n S fail r :
  Forall (fun b => b < 256) S -> nlen S < 2 ^ 62 -> (length S < fuel)%nat ->
  aruns (parse_aag_take fuel maxc n lrs_init) (view_init S fail) r -> exists out lr' v', r = ADone (out, lr') v'.
Proof.
  intros Hb Hl Hf Hr. destruct (parse_aag_take_agrees fuel maxc n S fail r Hb Hl Hf Hr) as (ohd & items & fin & lr' & v' & -> & _).
  eauto.
Qed.

Corollary parse_aig_take_safe fuel maxc n S fail r :
  Forall (fun b => b < 256) S -> nlen S < 2 ^ 62 -> (length S < fuel)%nat ->
  aruns (parse_aig_take fuel maxc n lrs_init) (view_init S fail) r -> exists out lr' v', r = ADone (out, lr') v'.
Proof.
  intros Hb Hl Hf Hr. destruct (parse_aig_take_agrees fuel maxc n S fail r Hb Hl Hf Hr) as (ohd & items & fin & lr' & v' & -> & _).
  eauto.
Qed.
