(* RenumberFit.v — the codes produced by renumbering fit the literal type (property C12).

   The model computes with unbounded [N] codes; the Rust code stores every new code through
   [L::from_code(usize)], a truncating cast for the literal types u8/u16/u32.  This file shows that
   nothing is ever truncated: if every literal of the graph is at most [maxc] (= L::MAX_CODE, an odd
   number 2^k - 1) and a circuit is returned, then every literal of the result, every lit_map value
   and the largest code 2*max_var_index+1 are at most [maxc].

   Argument: a returned circuit means that the defined variables (constant, inputs, latch states,
   gate outputs) are pairwise distinct (renumber_new_done), so there are at most V+1 of them when V
   is the largest variable index; and every emitted gate is paid for by an original gate whose
   output gets its lit_map entry at that moment (invariant [kinv], using the invariant of
   RenumberTerm that the output had no entry before), so #result gates <= #original gates. *)
From stdpp Require Import gmap.
From Coq Require Import NArith List Lia Bool.
From Flussab Require Import Aig Renumber RenumberProofs RenumberTerm.
Import ListNotations.
Local Open Scope nat_scope.

(* every literal occurring in the graph *)
Definition aig_lits (a : aig) : list N :=
  a_inputs a ++ flat_map (fun l => [l_state l; l_next l]) (a_latches a)
  ++ a_outputs a ++ a_bad a ++ a_constraints a ++ concat (a_justice a) ++ a_fairness a
  ++ flat_map (fun g => [g_out g; g_in0 g; g_in1 g]) (a_gates a).

(* every literal occurring in the ordered result *)
Definition ordered_all_lits (o : ordered_aig) : list N :=
  ordered_lits o ++ flat_map (fun g => [fst g; snd g]) (o_gates o).

(* ------------------------------------------------------------ #result gates <= #original gates *)

Lemma step_not_input1 s r s' r' :
  rstep s r = Next s' r' -> (forall l d t, s <> SInput1 l d t) ->
  r_gates r' = r_gates r /\ r_map r' = r_map r.
Proof.
  intros H Hs. destruct s as [l|l d t|l d t|t]; simpl in H.
  - destruct (lm_get (r_map r) l); [injection H as <- <-; auto|].
    destruct (cycle_test (r_stack r) l); [discriminate|].
    destruct (find_def (r_defs r) l); [|discriminate]. injection H as <- <-. auto.
  - injection H as <- <-. auto.
  - exfalso. exact (Hs l d t eq_refl).
  - destruct (r_stack r) as [|[l d|l d] rest]; [discriminate| |]; injection H as <- <-; auto.
Qed.

Lemma step_input1_gates l d t r s' r' :
  rstep (SInput1 l d t) r = Next s' r' ->
  exists t', s' = SReturn t' /\ length (r_gates r') <= S (length (r_gates r)).
Proof.
  simpl. destruct (sort2 (g_in0 d) t) as [x y].
  destruct (if c_fold (r_cfg r) then fold_gate x y else None).
  - intros [= <- <-]. eexists. split; [reflexivity|]. simpl. lia.
  - destruct (c_strash (r_cfg r)); [destruct (r_index r !! (x, y))|];
      intros [= <- <-]; (eexists; split; [reflexivity|]; simpl; lia).
Qed.

Section Count.
  Variable a : aig.
  Hypothesis Huniq : forall g g', In g (a_gates a) -> In g' (a_gates a) -> gvar g = gvar g' -> g = g'.

  (* emitted gates plus original gates still without a lit_map entry never exceed the original gates *)
  Definition kinv (r : rstate) : Prop := length (r_gates r) + pend a r <= length (a_gates a).

  Lemma step_kinv l0 s r s' r' : TInv a l0 s r -> rstep s r = Next s' r' -> kinv r -> kinv r'.
  Proof.
    intros HT H HK. unfold kinv in *.
    assert (Hcase : (forall l d t, s <> SInput1 l d t) \/ exists l d t, s = SInput1 l d t).
    { destruct s; [left; intros; discriminate|left; intros; discriminate|right; eauto|left; intros; discriminate]. }
    destruct Hcase as [Hs|(l & d & t & ->)].
    - destruct (step_not_input1 _ _ _ _ H Hs) as [Hg Hm].
      assert (Hp : pend a r' = pend a r) by (unfold pend, mappedb; rewrite Hm; reflexivity).
      rewrite Hg, Hp. exact HK.
    - destruct (step_input1_gates _ _ _ _ _ _ H) as (t' & -> & Hlen).
      pose proof (step_potential a l0 _ _ _ _ HT H) as Hpot.
      destruct (step_input1_map _ _ _ _ _ _ H) as [Hst _]. rewrite Hst in Hpot. simpl in Hpot. lia.
  Qed.

  Lemma run_kinv l0 fuel : forall s r, TInv a l0 s r -> kinv r ->
    match run fuel s r with TDone _ r' => kinv r' | _ => True end.
  Proof.
    induction fuel as [|fuel IH]; intros s r HT HK; simpl; [trivial|].
    destruct (rstep s r) as [s' r'|t r'|e] eqn:E; [| |trivial].
    - apply IH; [eapply step_tinv; eassumption|eapply step_kinv; eassumption].
    - destruct s as [l|l d t'|l d t'|t']; simpl in E.
      + destruct (lm_get (r_map r) l); [discriminate|]. destruct (cycle_test (r_stack r) l); [discriminate|].
        destruct (find_def (r_defs r) l); discriminate.
      + discriminate.
      + destruct (sort2 (g_in0 d) t') as [x y].
        destruct (if c_fold (r_cfg r) then fold_gate x y else None); [discriminate|].
        destruct (c_strash (r_cfg r)); [destruct (r_index r !! (x, y))|]; discriminate.
      + destruct (r_stack r) as [|[l d|l d] rest]; try discriminate. injection E as <- <-. exact HK.
  Qed.

  Lemma tinv_start r l : ginv a (base_of a) r -> r_stack r = [] -> TInv a l (STransfer l) r.
  Proof.
    intros G Hs. split; [apply inv_start; assumption|]. rewrite Hs. split; [constructor|]. split; [exact I|].
    simpl. rewrite Hs. intros i x _ Hx. destruct i; discriminate.
  Qed.

  Lemma transfer_all_kinv fuel : forall ls r, ginv a (base_of a) r -> r_stack r = [] -> kinv r ->
    match transfer_all fuel r ls with IDone r' => kinv r' | _ => True end.
  Proof.
    induction ls as [|l rest IH]; intros r G Hs HK; simpl; [exact HK|]. unfold transfer.
    pose proof (run_inv a (base_of a) l fuel _ _ (inv_start a (base_of a) r l G Hs)) as Hi.
    pose proof (run_kinv l fuel _ _ (tinv_start r l G Hs) HK) as Hk.
    destruct (run fuel (STransfer l) r) as [t r1|e|]; [|trivial|trivial].
    destruct Hi as (G1 & Hs1 & _). apply IH; assumption.
  Qed.
End Count.

Lemma renumber_gate_count cfg a r :
  renumber_new cfg a = IDone r -> length (r_gates r) <= length (a_gates a).
Proof.
  intros H. destruct (renumber_new_unfold cfg a) as [(e & _ & E)|[(defs & e & _ & _ & E)|(defs & Ed & _ & _ & E)]];
    try congruence.
  rewrite E in H.
  destruct (init_state_inv cfg defs a (lit_defs_sound a defs Ed)) as (G0 & Hs0 & _).
  assert (Huniq : forall g g', In g (a_gates a) -> In g' (a_gates a) -> gvar g = gvar g' -> g = g').
  { intros g g'. apply NoDup_map_unique. pose proof (proj1 (lit_defs_ok a defs Ed)) as Hnd.
    unfold checked_vars in Hnd. inversion Hnd as [|? ? _ Hnd']; subst. eapply NoDup_app_r. exact Hnd'. }
  assert (HK0 : kinv a (init_raw cfg defs a)).
  { unfold kinv. replace (length (r_gates (init_raw cfg defs a))) with 0.
    - apply count_le_length.
    - unfold init_raw. destruct (map_fresh _ _ (a_inputs a)) as [m1 c1]. destruct (map_fresh m1 c1 _) as [m2 c2]. reflexivity. }
  pose proof (transfer_all_kinv a Huniq (transfer_fuel a) (roots cfg a) _ G0 Hs0 HK0) as HT.
  rewrite H in HT. unfold kinv in HT. lia.
Qed.

(* ------------------------------------------------------------ distinct variables below a bound *)

Lemma nodup_bounded (l : list N) (V : N) :
  List.NoDup l -> (forall x, In x l -> (x <= V)%N) -> length l <= S (N.to_nat V).
Proof.
  intros Hnd Hb.
  assert (Hincl : incl l (map N.of_nat (seq 0 (S (N.to_nat V))))).
  { intros x Hx. apply in_map_iff. exists (N.to_nat x). split; [apply N2Nat.id|].
    apply in_seq. specialize (Hb x Hx). lia. }
  pose proof (Coq.Lists.List.NoDup_incl_length Hnd Hincl) as H. rewrite map_length, seq_length in H. exact H.
Qed.

Lemma defined_vars_length a :
  length (defined_vars a) = S (length (a_inputs a) + length (a_latches a) + length (a_gates a)).
Proof. unfold defined_vars. simpl. rewrite !app_length, !map_length. lia. Qed.

Lemma defined_vars_in_lits a v : In v (defined_vars a) -> v = 0%N \/ exists l, In l (aig_lits a) /\ v = N.div2 l.
Proof.
  unfold defined_vars, aig_lits. intros [<-|H]; [left; reflexivity|right].
  rewrite !in_app_iff in H. destruct H as [H|[H|H]]; apply in_map_iff in H; destruct H as (x & <- & Hx).
  - exists x. split; [|reflexivity]. rewrite !in_app_iff. left. exact Hx.
  - exists (l_state x). split; [|reflexivity]. rewrite !in_app_iff. right. left.
    apply in_flat_map. exists x. split; [exact Hx|left; reflexivity].
  - exists (g_out x). split; [|reflexivity]. rewrite !in_app_iff. do 7 right.
    apply in_flat_map. exists x. split; [exact Hx|left; reflexivity].
Qed.

(* ------------------------------------------------------------ the theorem *)

(* [maxc] must be odd (every Lit::MAX_CODE is 2^k - 1): with an even bound 2V a graph that uses the
   variable V only positively can still be renumbered so that a root becomes the literal 2V+1,
   e.g. inputs [4], gate 3 = 4 & 4, output 2 with maxc = 4 gives the output 5. *)
Theorem renumber_codes_fit cfg a o r maxc :
  renumber_aig cfg a = RnOk o r ->
  N.odd maxc = true ->
  (forall l, In l (aig_lits a) -> (l <= maxc)%N) ->
  (forall t, In t (ordered_all_lits o) -> (t <= maxc)%N) /\
  (forall l t, lm_get (r_map r) l = Some t -> (t <= maxc)%N) /\
  (forall k f, r_map r !! k = Some f -> (f <= maxc)%N) /\
  (r_last r <= maxc)%N /\
  (2 * o_maxvar o + 1 <= maxc)%N.
Proof.
  intros H Hodd Hlits.
  destruct (renumber_order cfg a o r H) as (Hi & Hl & Hm & Hg & Ho & Hget).
  pose proof (renumber_ok_inv _ _ _ _ H) as [Hn Hb].
  destruct (renumber_new_done cfg a r Hn) as (defs & _ & G & _ & _ & _ & Hwf).
  destruct (build_ordered_fields a r o Hb) as (Hmv & _ & Hgs & _).
  pose proof (renumber_gate_count cfg a r Hn) as Hcount.
  set (V := N.div2 maxc).
  assert (HmaxcV : maxc = (2 * V + 1)%N).
  { rewrite (N.div2_odd maxc) at 1. rewrite Hodd. reflexivity. }
  assert (Hdef : length (defined_vars a) <= S (N.to_nat V)).
  { apply nodup_bounded; [exact Hwf|]. intros v Hv.
    destruct (defined_vars_in_lits a v Hv) as [->|(l & Hl' & ->)]; [lia|].
    apply div2_le_mono. apply Hlits. exact Hl'. }
  rewrite defined_vars_length in Hdef.
  assert (Hmax : (o_maxvar o <= V)%N).
  { rewrite Hm, Hgs, rev_length. lia. }
  assert (Htop : (2 * o_maxvar o + 1 <= maxc)%N) by lia.
  split; [|split; [|split; [|split]]].
  - intros t Ht. unfold ordered_all_lits in Ht. apply in_app_or in Ht. destruct Ht as [Ht|Ht].
    + specialize (Ho t Ht). lia.
    + apply in_flat_map in Ht. destruct Ht as ([x y] & Hxy & Ht).
      destruct (In_nth_error _ _ Hxy) as [j Hj]. destruct (Hg j x y Hj) as [Hx Hy].
      assert (j < length (o_gates o)) by (apply nth_error_Some; congruence).
      assert (Hx' : (x <= 2 * o_maxvar o)%N) by (rewrite Hm; lia).
      simpl in Ht. destruct Ht as [<-|[<-|[]]]; lia.
  - intros l t Hlt. specialize (Hget l t Hlt). lia.
  - intros k f Hf. pose proof (gi_map _ _ _ G k f Hf) as Hd.
    assert (Hmv' : maxv (base_of a) r = o_maxvar o).
    { rewrite Hmv, <- N.div2_spec, (gi_last _ _ _ G). symmetry. apply div2_double. }
    rewrite Hmv' in Hd. apply lit_le_div2 in Hd. lia.
  - rewrite (gi_last _ _ _ G).
    assert (Hmv' : maxv (base_of a) r = o_maxvar o).
    { rewrite Hmv, <- N.div2_spec, (gi_last _ _ _ G). symmetry. apply div2_double. }
    rewrite Hmv'. lia.
  - exact Htop.
Qed.
Print Assumptions renumber_codes_fit.

Local Open Scope N_scope.

(* u8 literals (MAX_CODE = 255): 100 inputs and 27 gates use every variable 1..127; the result fits *)
Example renumber_codes_fit_u8 :
  let ins := map (fun i => 2 * N.of_nat i) (seq 1 100) in
  let gs := map (fun i => AndGate (2 * N.of_nat i - 2) (2 * N.of_nat i - 199) (2 * N.of_nat i + 1)) (seq 101 27) in
  let a := Aig 127 ins [] [254; 255] [] [] [] [] gs in
  forallb (fun l => l <=? 255) (aig_lits a) = true /\
  match renumber_aig (Config false true true) a with
  | RnOk o r => forallb (fun l => l <=? 255) (ordered_all_lits o) = true /\ o_maxvar o = 127 /\ o_outputs o = [255; 254]
  | _ => False
  end.
Proof. vm_compute. repeat split. Qed.

(* the side condition: with the even bound 4 the output becomes 5 *)
Example renumber_codes_even_bound :
  let a := Aig 2 [4] [] [2] [] [] [] [] [AndGate 4 4 3] in
  forallb (fun l => l <=? 4) (aig_lits a) = true /\
  match renumber_aig (Config false false false) a with
  | RnOk o r => o_outputs o = [5]
  | _ => False
  end.
Proof. vm_compute. repeat split. Qed.
