(* Cnf.v — flussab-cnf as parser programs: token.rs, and the cnf / wcnf / gcnf
   parsers (one generic definition, as the three Rust files are copies of one
   another up to the clause prefix) and the SAT solver log parser.
   Error messages are not modelled; an error value is its kind and location. *)
From Flussab Require Import Base Writer Parsed Prog Text.
From Flussab Require Import Consts.

Inductive perr :=
| ESyntax (line col : N)
| EIo (e : N).

(* LineReader's own fields *)
Record lrs := { l_line : N; l_start : N }.
Definition lrs_init : lrs := {| l_line := 1; l_start := 0 |}.

(* programs that thread the LineReader fields *)
Definition PM (A : Type) : Type := lrs -> prog (A * lrs).
Definition pret {A} (a : A) : PM A := fun s => Ret (a, s).
Definition pbnd {A B} (m : PM A) (f : A -> PM B) : PM B :=
  fun s => pbind (m s) (fun '(a, s') => f a s').
Definition lift {A} (p : prog A) : PM A := fun s => pbind p (fun a => Ret (a, s)).
Definition pcrash {A} (k : panic_kind) : PM A := fun _ => Crash k.
Definition pnofuel {A} : PM A := fun _ => NoFuel.
Definition get_lrs : PM lrs := fun s => Ret (s, s).
Definition set_lrs (s' : lrs) : PM unit := fun _ => Ret (tt, s').

Notation "'let*' x ':=' m 'in' k" := (pbnd m (fun x => k))
  (at level 200, x name, m at level 100, k at level 200, right associativity).
Notation "m ;;;; k" := (pbnd m (fun _ => k)) (at level 199, right associativity).

Definition ppeek (k : N) : PM (option byte) := lift (Peek k Ret).
Definition padvance (n : N) : PM unit := lift (Advance n (Ret tt)).
Definition pset_mark : PM unit := lift (SetMark (Ret tt)).

(* LineReader::line_at_offset *)
Definition line_at_offset (offset : N) : PM unit :=
  let* pos := lift (GetPos Ret) in
  let* s := get_lrs in
  set_lrs {| l_line := l_line s + 1; l_start := pos + offset |}.

(* LineReader::give_up_at_cold: the parked I/O error wins; the column is position - line_start + 1 *)
Definition give_up_at (position : N) : PM perr :=
  let* e := lift (TakeErr Ret) in
  match e with
  | Some io => pret (EIo io)
  | None =>
      let* s := get_lrs in
      if position <? l_start s then pcrash POverflow
      else pret (ESyntax (l_line s) (position - l_start s + 1))
  end.
Definition give_up : PM perr := let* pos := lift (GetPos Ret) in give_up_at pos.
Definition give_up_at_mark : PM perr := let* m := lift (GetMark Ret) in give_up_at m.

Definition tok (A : Type) := PM (parsed A perr).
Definition tok_ok {A} (a : A) : tok A := pret (Res (Ok a)).
Definition tok_err {A} (e : perr) : tok A := pret (Res (Err e)).
Definition tok_ft {A} : tok A := pret Fallthrough.

Definition is_eow_byte (o : option byte) : bool :=
  match o with
  | Some b => (b =? 32) || (b =? 9) || (b =? 13) || (b =? 10)
  | None => true
  end.

Section WithFuel.
Variable fuel : nat.

(* token::word *)
Definition word (pat : bytes) : tok unit :=
  let* offset := lift (fixed 0 pat) in
  if offset =? 0 then tok_ft else
  let* o := ppeek offset in
  if is_eow_byte o then
    let* offset2 := lift (tabs_or_spaces fuel offset) in
    padvance offset2 ;;;; tok_ok tt
  else tok_ft.

(* token::fixed *)
Definition tfixed (pat : bytes) : tok unit :=
  let* offset := lift (fixed 0 pat) in
  if offset =? 0 then tok_ft else padvance offset ;;;; tok_ok tt.

(* token::uint / token::int: Ok value, Err (the numeral does not fit the type), or Fallthrough.
   The Err payload (the digit string) is not modelled. *)
Definition number (signed : bool) (t : ity) : PM (parsed Z unit) :=
  let* r := lift (if signed then signed_ascii_digits_multi fuel t 0 else ascii_digits_multi fuel t 0) in
  let '(value, offset) := r in
  if offset =? 0 then pret Fallthrough else
  let* o := ppeek offset in
  if is_eow_byte o then
    match value with
    | Some v =>
        let* offset2 := lift (tabs_or_spaces fuel offset) in
        padvance offset2 ;;;; pret (Res (Ok v))
    | None => pret (Res (Err tt))
    end
  else pret Fallthrough.

(* token::braced_uint *)
Definition braced_uint (t : ity) : PM (parsed Z unit) :=
  let* o := ppeek 0 in
  if match o with Some b => b =? 123 | None => false end then
    let* r := lift (ascii_digits_multi fuel t 1) in
    let '(value, offset) := r in
    if offset =? 1 then pret Fallthrough else
    let* o2 := ppeek offset in
    if match o2 with Some b => b =? 125 | None => false end then
      match value with
      | Some v =>
          let* offset2 := lift (tabs_or_spaces fuel (offset + 1)) in
          padvance offset2 ;;;; pret (Res (Ok v))
      | None => pret (Res (Err tt))
      end
    else pret Fallthrough
  else pret Fallthrough.

(* token::comment *)
Definition comment : tok unit :=
  let* o := ppeek 0 in
  if match o with Some b => b =? 99 | None => false end then
    let* offset := lift (next_newline fuel 1) in
    line_at_offset offset ;;;;
    let* offset2 := lift (tabs_or_spaces fuel offset) in
    padvance offset2 ;;;; tok_ok tt
  else tok_ft.

(* token::interactive_strict_comment *)
Definition interactive_strict_comment : tok unit :=
  let* off := lift (fixed 0 log_comment) in
  if off =? 0 then tok_ft else
  let* offset := lift (next_newline fuel 2) in
  line_at_offset offset ;;;; padvance offset ;;;; tok_ok tt.

(* token::interactive_skip_line *)
Definition interactive_skip_line : tok unit :=
  let* offset := lift (next_newline fuel 0) in
  if offset =? 0 then tok_ft else
  line_at_offset offset ;;;; padvance offset ;;;; tok_ok tt.

(* token::newline / token::interactive_newline *)
Definition tnewline (interactive : bool) : tok unit :=
  let* offset := lift (newline 0) in
  if offset =? 0 then tok_ft else
  line_at_offset offset ;;;;
  (if interactive then padvance offset
   else let* offset2 := lift (tabs_or_spaces fuel offset) in padvance offset2) ;;;;
  tok_ok tt.

(* token::eof *)
Definition teof : tok unit :=
  let* o := ppeek 0 in
  match o with
  | Some _ => tok_ft
  | None =>
      let* parked := lift (ErrParked Ret) in
      if parked then tok_ft else tok_ok tt
  end.

(* token::interactive_end_of_line = interactive_newline().or_parse(eof) *)
Definition interactive_end_of_line : tok unit :=
  let* r := tnewline true in
  match r with Fallthrough => teof | other => pret other end.

Definition skip_whitespace : PM unit :=
  let* skip := lift (tabs_or_spaces fuel 0) in padvance skip.

(* token::unexpected: only its effects on the reader and the error location matter *)
Fixpoint unexpected_scan (n : nat) (len : N) : PM unit :=
  match n with
  | O => pret tt
  | S n' =>
      let* o := ppeek len in
      match o with
      | None => pret tt
      | Some b =>
          if ((b =? 10) || (b =? 13) || (b =? 9) || (b =? 32)) && negb (len =? 0) then pret tt
          else unexpected_scan n' (len + 1)
      end
  end.

Definition unexpected : PM perr :=
  let* off := lift (newline 0) in
  if negb (off =? 0) then give_up else
  let* at_end := lift (IsAtEnd Ret) in
  if at_end then give_up else
  unexpected_scan 60 0 ;;;; give_up.

(* or_give_up(|| unexpected(..)) *)
Definition or_unexpected {A} (t : tok A) : PM (result A perr) :=
  let* r := t in
  match r with
  | Res x => pret x
  | Fallthrough => let* e := unexpected in pret (Err e)
  end.

(* map_err of a number token to a located error *)
Definition located {A} (n : PM (parsed A unit)) (err : PM perr) : tok A :=
  let* r := n in
  match r with
  | Res (Ok v) => tok_ok v
  | Res (Err _) => let* e := err in tok_err e
  | Fallthrough => tok_ft
  end.

(* token::var_count::<L> *)
Definition var_count (maxd : Z) : tok Z :=
  pset_mark ;;;;
  let* r := located (number false Usize) give_up_at_mark in
  match r with
  | Res (Ok count) =>
      if (maxd <? count)%Z then let* e := give_up_at_mark in tok_err e else tok_ok count
  | other => pret other
  end.

(* token::uint_count::<T> *)
Definition uint_count (t : ity) : tok Z :=
  pset_mark ;;;; located (number false t) give_up.

(* token::clause_group *)
Definition clause_group (limit : Z) : tok Z :=
  pset_mark ;;;;
  let* r := located (braced_uint Usize) give_up in
  match r with
  | Res (Ok group) =>
      if (limit <? group)%Z then let* e := give_up_at_mark in tok_err e else tok_ok group
  | other => pret other
  end.

(* `.matches()?` on a token *)
Definition matches_tok {A} (t : tok A) : PM (result bool perr) :=
  let* r := t in
  match r with
  | Res (Ok _) => pret (Ok true)
  | Res (Err e) => pret (Err e)
  | Fallthrough => pret (Ok false)
  end.

(* while comment(input).or_parse(|| newline(input)).matches()? {} *)
Fixpoint skip_comments_and_newlines (n : nat) : PM (result unit perr) :=
  match n with
  | O => pnofuel
  | S n' =>
      let* r := comment in
      let* r' := (match r with Fallthrough => tnewline false | other => pret other end) in
      match r' with
      | Res (Ok _) => skip_comments_and_newlines n'
      | Res (Err e) => pret (Err e)
      | Fallthrough => pret (Ok tt)
      end
  end.

(* token::non_terminating_linebreaks *)
Definition non_terminating_linebreaks : PM (result bool perr) :=
  let* r := matches_tok (tnewline false) in
  match r with
  | Err e => pret (Err e)
  | Ok false => pret (Ok false)
  | Ok true =>
      let* r2 := skip_comments_and_newlines fuel in
      match r2 with Err e => pret (Err e) | Ok _ => pret (Ok true) end
  end.

(* a literal token with its error *)
Definition lit_tok : tok Z := located (number true Isize) give_up_at_mark.

(* token::clause_lits: the loop after the first literal *)
Fixpoint clause_lits_loop (n : nat) (limit : Z) (lit : Z) (acc : list Z) : PM (result (list Z) perr) :=
  match n with
  | O => pnofuel
  | S n' =>
      if (lit =? 0)%Z then pret (Ok (rev acc)) else
      if ((- limit <=? lit) && (lit <=? limit))%Z then
        pset_mark ;;;;
        let* r := lit_tok in
        match r with
        | Res (Ok next_lit) => clause_lits_loop n' limit next_lit (lit :: acc)
        | Res (Err e) => pret (Err e)
        | Fallthrough =>
            let* lb := non_terminating_linebreaks in
            match lb with
            | Err e => pret (Err e)
            | Ok true =>
                pset_mark ;;;;
                let* r2 := or_unexpected lit_tok in
                match r2 with
                | Ok next_lit => clause_lits_loop n' limit next_lit (lit :: acc)
                | Err e => pret (Err e)
                end
            | Ok false => let* e := unexpected in pret (Err e)
            end
        end
      else let* e := give_up_at_mark in pret (Err e)
  end.

Definition clause_lits (limit : Z) : tok (list Z) :=
  pset_mark ;;;;
  let* r := lit_tok in
  match r with
  | Res (Ok lit) =>
      let* r2 := clause_lits_loop fuel limit lit [] in
      pret (Res r2)
  | Res (Err e) => tok_err e
  | Fallthrough => tok_ft
  end.

(* ---------- the cnf / wcnf / gcnf parsers ---------- *)
Inductive dkind := KCnf | KWcnf | KGcnf.

Record header := { h_vars : Z; h_clauses : Z; h_extra : Z (* top weight / group count; 0 for cnf *) }.

Record pstate := {
  clause_count : Z;
  clause_limit : Z;
  clause_limit_active : bool;
  lit_limit : Z;
  group_limit : Z;
  phdr : option header
}.

Definition kind_word (k : dkind) : bytes :=
  match k with
  | KCnf => kw_cnf
  | KWcnf => kw_wcnf
  | KGcnf => kw_gcnf
  end.

(* while comment.matches()? || newline.matches()? {} *)
Fixpoint header_skip (n : nat) : PM (result unit perr) :=
  match n with
  | O => pnofuel
  | S n' =>
      let* c := matches_tok comment in
      match c with
      | Err e => pret (Err e)
      | Ok true => header_skip n'
      | Ok false =>
          let* nl := matches_tok (tnewline false) in
          match nl with
          | Err e => pret (Err e)
          | Ok true => header_skip n'
          | Ok false => pret (Ok tt)
          end
      end
  end.

Definition parse_header (k : dkind) (maxd : Z) : PM (result (option header) perr) :=
  skip_whitespace ;;;;
  let* r0 := header_skip fuel in
  match r0 with
  | Err e => pret (Err e)
  | Ok _ =>
      let* p := word kw_p in
      match p with
      | Fallthrough => pret (Ok None)
      | Res (Err e) => pret (Err e)
      | Res (Ok _) =>
          let* w := or_unexpected (word (kind_word k)) in
          match w with
          | Err e => pret (Err e)
          | Ok _ =>
              let* vc := or_unexpected (var_count maxd) in
              match vc with
              | Err e => pret (Err e)
              | Ok vars =>
                  let* cc := or_unexpected (uint_count Usize) in
                  match cc with
                  | Err e => pret (Err e)
                  | Ok clauses =>
                      let* ex := (match k with
                              | KCnf => pret (Ok 0%Z)
                              | KWcnf => or_unexpected (uint_count U64)
                              | KGcnf => or_unexpected (uint_count Usize)
                              end) in
                      match ex with
                      | Err e => pret (Err e)
                      | Ok extra =>
                          let* eol := or_unexpected interactive_end_of_line in
                          match eol with
                          | Err e => pret (Err e)
                          | Ok _ => pret (Ok (Some {| h_vars := vars; h_clauses := clauses; h_extra := extra |}))
                          end
                      end
                  end
              end
          end
      end
  end.

Definition USIZE_MAX : Z := 18446744073709551615.

(* Parser::new *)
Definition parser_new (k : dkind) (maxd : Z) (ignore_header : bool) : PM (result pstate perr) :=
  let* h := parse_header k maxd in
  match h with
  | Err e => pret (Err e)
  | Ok None =>
      (* no header is only a fact about the input if the source did not fail while we looked *)
      let* e := lift (TakeErr Ret) in
      match e with
      | Some io => pret (Err (EIo io))
      | None =>
          pret (Ok {| clause_count := 0; clause_limit := 0; clause_limit_active := false; lit_limit := maxd;
                      group_limit := USIZE_MAX; phdr := None |})
      end
  | Ok (Some hd) =>
      let use := negb ignore_header in
      pret (Ok {| clause_count := 0;
                  clause_limit := if use && negb (h_clauses hd =? 0)%Z then h_clauses hd else 0%Z;
                  clause_limit_active := use && negb (h_clauses hd =? 0)%Z;
                  lit_limit := if use && negb (h_vars hd =? 0)%Z then h_vars hd else maxd;
                  group_limit := if use && negb (h_extra hd =? 0)%Z then h_extra hd else USIZE_MAX;
                  phdr := Some hd |})
  end.

(* the clause token of each format: optional prefix, literals, end of line *)
Definition clause_tok (k : dkind) (st : pstate) : tok (Z * list Z) :=
  match k with
  | KCnf =>
      let* r := clause_lits (lit_limit st) in
      match r with
      | Res (Ok ls) =>
          let* e := or_unexpected interactive_end_of_line in
          match e with Ok _ => tok_ok (0%Z, ls) | Err er => tok_err er end
      | Res (Err e) => tok_err e
      | Fallthrough => tok_ft
      end
  | _ =>
      let* p := (match k with KWcnf => uint_count U64 | _ => clause_group (group_limit st) end) in
      match p with
      | Res (Ok pre) =>
          let* lb := non_terminating_linebreaks in
          match lb with
          | Err e => tok_err e
          | Ok _ =>
              let* ls := or_unexpected (clause_lits (lit_limit st)) in
              match ls with
              | Err e => tok_err e
              | Ok ls =>
                  let* e := or_unexpected interactive_end_of_line in
                  match e with Ok _ => tok_ok (pre, ls) | Err er => tok_err er end
              end
          end
      | Res (Err e) => tok_err e
      | Fallthrough => tok_ft
      end
  end.

(* Parser::next_clause: Ok (Some item) / Ok None (clean end) / Err *)
Fixpoint next_clause_loop (n : nat) (k : dkind) (st : pstate) : PM (result (option (Z * list Z)) perr * pstate) :=
  match n with
  | O => pnofuel
  | S n' =>
      let* c := (if negb (clause_count st =? clause_limit st)%Z || negb (clause_limit_active st)
             then clause_tok k st else tok_ft) in
      match c with
      | Res (Ok item) =>
          pret (Ok (Some item),
                {| clause_count := clause_count st + 1; clause_limit := clause_limit st;
                   clause_limit_active := clause_limit_active st; lit_limit := lit_limit st;
                   group_limit := group_limit st; phdr := phdr st |})
      | Res (Err e) => pret (Err e, st)
      | Fallthrough =>
          let* cm := matches_tok comment in
          match cm with
          | Err e => pret (Err e, st)
          | Ok true => next_clause_loop n' k st
          | Ok false =>
              let* nl := matches_tok (tnewline false) in
              match nl with
              | Err e => pret (Err e, st)
              | Ok true => next_clause_loop n' k st
              | Ok false =>
                  if negb (clause_limit_active st) || (clause_limit st <=? clause_count st)%Z then
                    let* ef := matches_tok teof in
                    match ef with
                    | Err e => pret (Err e, st)
                    | Ok true => pret (Ok None, st)
                    | Ok false => let* e := unexpected in pret (Err e, st)
                    end
                  else let* e := unexpected in pret (Err e, st)
              end
          end
      end
  end.

Definition next_clause (k : dkind) (st : pstate) : PM (result (option (Z * list Z)) perr * pstate) :=
  skip_whitespace ;;;; next_clause_loop fuel k st.

(* driving the parser to its final result *)
Inductive final := FOk | FErr (e : perr).

Fixpoint drive (n : nat) (k : dkind) (st : pstate) (acc : list (Z * list Z)) : PM (list (Z * list Z) * final) :=
  match n with
  | O => pnofuel
  | S n' =>
      let* r := next_clause k st in
      match r with
      | (Ok (Some item), st') => drive n' k st' (item :: acc)
      | (Ok None, _) => pret (rev acc, FOk)
      | (Err e, _) => pret (rev acc, FErr e)
      end
  end.

Definition parse_dimacs (k : dkind) (maxd : Z) (ignore_header : bool)
  : PM (option (option header) * list (Z * list Z) * final) :=
  let* p := parser_new k maxd ignore_header in
  match p with
  | Err e => pret (None, [], FErr e)
  | Ok st =>
      let* r := drive fuel k st [] in
      let '(items, fin) := r in pret (Some (phdr st), items, fin)
  end.

(* ---------- the SAT solver log parser ---------- *)
Fixpoint strict_comments (n : nat) : PM (result unit perr) :=
  match n with
  | O => pnofuel
  | S n' =>
      let* r := matches_tok interactive_strict_comment in
      match r with
      | Err e => pret (Err e)
      | Ok true => strict_comments n'
      | Ok false => pret (Ok tt)
      end
  end.

(* the `while let Some(lit) = int(..)` loop of a value line: returns the literals read and whether
   the terminating 0 was seen *)
Fixpoint value_lits (n : nat) (maxd : Z) (acc : list Z) : PM (result (list Z * bool) perr) :=
  match n with
  | O => pnofuel
  | S n' =>
      pset_mark ;;;;
      let* r := lit_tok in
      match r with
      | Res (Ok lit) =>
          if (lit =? 0)%Z then pret (Ok (acc, true))
          else if ((- maxd <=? lit) && (lit <=? maxd))%Z then value_lits n' maxd (acc ++ [lit])
          else let* e := give_up_at_mark in pret (Err e)
      | Res (Err e) => pret (Err e)
      | Fallthrough => pret (Ok (acc, false))
      end
  end.

Definition status_tok : tok (option bool) :=
  let* s := tfixed log_sat in
  let* r := (match s with
         | Res (Ok _) => tok_ok (Some true)
         | Res (Err e) => tok_err e
         | Fallthrough =>
             let* u := tfixed log_unsat in
             match u with
             | Res (Ok _) => tok_ok (Some false)
             | Res (Err e) => tok_err e
             | Fallthrough =>
                 let* k := tfixed log_unknown in
                 match k with
                 | Res (Ok _) => tok_ok None
                 | Res (Err e) => tok_err e
                 | Fallthrough => tok_ft
                 end
             end
         end) in
  match r with
  | Res (Ok v) =>
      let* e := or_unexpected interactive_end_of_line in
      match e with Ok _ => tok_ok v | Err er => tok_err er end
  | other => pret other
  end.

Record logstate := { sat : option (option bool); assignment : list Z; started : bool; finished : bool }.

Fixpoint log_loop (n : nat) (maxd : Z) (ignore_unknown : bool) (st : logstate)
  : PM (result (option bool * list Z) perr) :=
  match n with
  | O => pnofuel
  | S n' =>
      let* c := strict_comments fuel in
      match c with
      | Err e => pret (Err e)
      | Ok _ =>
          let* v := (if finished st then pret (Ok false) else matches_tok (tfixed log_v)) in
          match v with
          | Err e => pret (Err e)
          | Ok true =>
              skip_whitespace ;;;;
              let* ls := value_lits fuel maxd (assignment st) in
              match ls with
              | Err e => pret (Err e)
              | Ok (a, fin) =>
                  let* e := or_unexpected interactive_end_of_line in
                  match e with
                  | Err er => pret (Err er)
                  | Ok _ => log_loop n' maxd ignore_unknown
                              {| sat := sat st; assignment := a; started := true; finished := fin |}
                  end
              end
          | Ok false =>
              let* s := (match sat st with Some _ => pret (Ok false) | None => matches_tok (tfixed log_s) end) in
              match s with
              | Err e => pret (Err e)
              | Ok true =>
                  let* r := or_unexpected status_tok in
                  match r with
                  | Err e => pret (Err e)
                  | Ok v => log_loop n' maxd ignore_unknown
                              {| sat := Some v; assignment := assignment st; started := started st; finished := finished st |}
                  end
              | Ok false =>
                  let* ef := matches_tok teof in
                  match ef with
                  | Err e => pret (Err e)
                  | Ok true =>
                      if started st && negb (finished st) then let* e := unexpected in pret (Err e)
                      else pret (Ok (match sat st with Some (Some b) => Some b | _ => None end, assignment st))
                  | Ok false =>
                      let* sk := (if ignore_unknown then matches_tok interactive_skip_line else pret (Ok false)) in
                      match sk with
                      | Err e => pret (Err e)
                      | Ok true => log_loop n' maxd ignore_unknown st
                      | Ok false => let* e := unexpected in pret (Err e)
                      end
                  end
              end
          end
      end
  end.

Definition parse_log (maxd : Z) (ignore_unknown : bool) : PM (result (option bool * list Z) perr) :=
  log_loop fuel maxd ignore_unknown {| sat := None; assignment := []; started := false; finished := false |}.

End WithFuel.
