(* Simulation.v — every concrete run of a parser program on the DeferredReader model, under
   every read schedule and chunk size, is an admissible abstract run on the view of its source.
   This is what carries the theorems proved on views (C13, C16, the parser theorems) over to
   the concrete reader, and what makes "the result does not depend on how the bytes arrive" (C01)
   a consequence of answer-insensitivity of a program. *)
From Flussab Require Import Base Reader ListN ReaderProofs Prog ProgProofs.
Ltac Zify.zify_post_hook ::= Z.to_euclidean_division_equations.

(* ---------- the stream a source will deliver, independently of slice sizes ---------- *)
Fixpoint sgo (evs : list revent) (d : bytes) : bytes * option N :=
  match evs with
  | [] => (d, None)
  | Interrupt :: ev => sgo ev d
  | Eof :: _ => ([], None)
  | FailE e :: _ => ([], Some e)
  | Lie _ :: _ => ([], None)
  | Deliver n :: ev =>
      if (n =? 0) || (nlen d =? 0) then ([], None)
      else if n <=? nlen d then let '(r, e) := sgo ev (nskipn n d) in (nfirstn n d ++ r, e)
      else (d, None)
  end.

Definition stream_of (sr : source) : bytes * option N :=
  let '(r, e) := sgo (events sr) (data sr) in (prebuf sr ++ r, e).

Lemma nfirstn_all {A} (l : list A) n : nlen l <= n -> nfirstn n l = l.
Proof. intros H. unfold nfirstn, nlen in *. apply firstn_all2. lia. Qed.

Lemma nskipn_all {A} (l : list A) n : nlen l <= n -> nskipn n l = [].
Proof. intros H. unfold nskipn, nlen in *. apply skipn_all2. lia. Qed.

Lemma firstn_plus {A} : forall a b (l : list A), firstn (a + b) l = firstn a l ++ firstn b (skipn a l).
Proof.
  induction a as [|a IH]; intros b l; [reflexivity|].
  destruct l as [|x l]; [cbn; rewrite firstn_nil; reflexivity|]. cbn [Nat.add firstn skipn app]. f_equal. apply IH.
Qed.

Lemma nfirstn_split {A} (l : list A) k n : k <= n -> nfirstn k l ++ nfirstn (n - k) (nskipn k l) = nfirstn n l.
Proof.
  intros H. unfold nfirstn, nskipn.
  replace (N.to_nat n) with (N.to_nat k + N.to_nat (n - k))%nat by lia.
  rewrite firstn_plus. reflexivity.
Qed.

(* one non-interrupted read of the inner reader, with a slice of at least one byte *)
Lemma src_read_inner_stream d evs room res sr :
  1 <= room -> NoLie evs -> (forall ev, evs <> Interrupt :: ev) ->
  src_read_inner d evs room = (res, sr) ->
  prebuf sr = [] /\
  match res with
  | ROk bs cl =>
      cl = nlen bs /\
      (cl = 0 -> sgo evs d = ([], None)) /\
      (cl <> 0 -> sgo evs d = (bs ++ fst (sgo (events sr) (data sr)), snd (sgo (events sr) (data sr))))
  | RErr e => sgo evs d = ([], Some e)
  end.
Proof.
  intros Hroom HN Hni. destruct evs as [|[n| |e| |n] ev]; cbn [src_read_inner NoLie] in *; intros H.
  - (* schedule exhausted: a well-behaved source *)
    inversion H; subst; clear H. cbn [prebuf events data sgo fst snd]. split; [reflexivity|].
    rewrite nlen_nfirstn. split; [lia|]. split.
    + intros Hk. assert (nlen d = 0) by lia. rewrite (nlen_zero_nil d) by assumption. reflexivity.
    + intros _. f_equal. symmetry. apply nfirstn_nskipn.
  - (* Deliver n *)
    set (k := N.min (N.min n room) (nlen d)) in *.
    destruct ((0 <? k) && (k <? n)) eqn:Hc; inversion H; subst; clear H; cbn [prebuf events data];
      (split; [reflexivity|]); rewrite nlen_nfirstn; (split; [lia|]); split.
    + intros Hk. apply andb_prop in Hc. destruct Hc as [Hc _]. apply N.ltb_lt in Hc. lia.
    + (* carry: k < n bytes fitted the slice *)
      intros _. apply andb_prop in Hc. destruct Hc as [Hk0 Hkn]. apply N.ltb_lt in Hk0, Hkn.
      cbn [sgo].
      assert ((n =? 0) || (nlen d =? 0) = false) as -> by (apply orb_false_iff; split; apply N.eqb_neq; lia).
      assert ((n - k =? 0) = false) as -> by (apply N.eqb_neq; lia). cbn [orb].
      rewrite nlen_nskipn.
      destruct (nlen d - k =? 0) eqn:Hd.
      * apply N.eqb_eq in Hd. assert ((n <=? nlen d) = false) as -> by (apply N.leb_gt; lia).
        cbn [fst snd]. rewrite app_nil_r. f_equal. symmetry. apply nfirstn_all. lia.
      * apply N.eqb_neq in Hd. destruct (n <=? nlen d) eqn:Hle.
        -- apply N.leb_le in Hle. assert ((n - k <=? nlen d - k) = true) as -> by (apply N.leb_le; lia).
           rewrite nskipn_nskipn. replace (n - k + k) with n by lia.
           destruct (sgo ev (nskipn n d)) as [r e]. cbn [fst snd]. f_equal.
           rewrite app_assoc. f_equal. symmetry. apply nfirstn_split. lia.
        -- apply N.leb_gt in Hle. assert ((n - k <=? nlen d - k) = false) as -> by (apply N.leb_gt; lia).
           cbn [fst snd]. f_equal. symmetry. apply nfirstn_nskipn.
    + intros Hk. cbn [sgo].
      assert ((n =? 0) || (nlen d =? 0) = true) as ->; [|reflexivity].
      apply orb_true_iff. destruct (N.eq_dec n 0); [left|right]; apply N.eqb_eq; lia.
    + (* everything that was ready fitted: k = n *)
      intros Hk. apply andb_false_iff in Hc.
      assert (Hkn : k = n). { destruct Hc as [Hc|Hc]; [apply N.ltb_ge in Hc|apply N.ltb_ge in Hc]; lia. }
      cbn [sgo].
      assert ((n =? 0) || (nlen d =? 0) = false) as -> by (apply orb_false_iff; split; apply N.eqb_neq; lia).
      assert ((n <=? nlen d) = true) as -> by (apply N.leb_le; lia).
      rewrite Hkn. destruct (sgo ev (nskipn n d)) as [r e]. reflexivity.
  - exfalso. eapply Hni. reflexivity.
  - inversion H; subst; clear H. cbn [prebuf sgo]. split; reflexivity.
  - inversion H; subst; clear H. cbn [prebuf sgo]. split; [reflexivity|]. change (nlen (@nil byte)) with 0.
    split; [reflexivity|]. split; [reflexivity|]. intros Hc; exfalso; apply Hc; reflexivity.
  - contradiction.
Qed.

Lemma read_retry_inner_stream evs : forall d room calls res sr calls',
  1 <= room -> NoLie evs ->
  read_retry_inner evs d room calls = (res, sr, calls') ->
  prebuf sr = [] /\
  match res with
  | ROk bs cl =>
      cl = nlen bs /\
      (cl = 0 -> sgo evs d = ([], None)) /\
      (cl <> 0 -> sgo evs d = (bs ++ fst (sgo (events sr) (data sr)), snd (sgo (events sr) (data sr))))
  | RErr e => sgo evs d = ([], Some e)
  end.
Proof.
  induction evs as [|e ev IH]; intros d room calls res sr calls' Hroom HN H.
  - cbn [read_retry_inner] in H. apply (f_equal fst) in H; cbn [fst] in H.
    eapply src_read_inner_stream; eauto. intros ev; discriminate.
  - destruct e; cbn [read_retry_inner NoLie] in *;
      try (apply (f_equal fst) in H; cbn [fst] in H;
           eapply src_read_inner_stream; eauto; intros ev'; discriminate).
    cbn [sgo]. eapply IH; eauto.
Qed.

Lemma read_retry_stream sr room calls res sr' calls' :
  1 <= room -> NoLie (events sr) ->
  read_retry sr room calls = (res, sr', calls') ->
  NoLie (events sr') /\
  match res with
  | ROk bs cl =>
      cl = nlen bs /\
      (cl = 0 -> stream_of sr = ([], None)) /\
      (cl <> 0 -> stream_of sr = (bs ++ fst (stream_of sr'), snd (stream_of sr')))
  | RErr e => stream_of sr = ([], Some e)
  end.
Proof.
  intros Hroom HN H. destruct (read_retry_conserve _ _ _ _ _ _ HN H) as [HN' _]. split; [exact HN'|].
  unfold read_retry, src_read in H. unfold stream_of.
  destruct (0 <? nlen (prebuf sr)) eqn:Hp.
  - apply N.ltb_lt in Hp. inversion H; subst; clear H. cbn [prebuf data events].
    rewrite nlen_nfirstn. split; [lia|]. split; [intros Hk; lia|]. intros _.
    destruct (sgo (events sr) (data sr)) as [r e]. cbn [fst snd]. f_equal.
    rewrite app_assoc. f_equal. symmetry. apply nfirstn_nskipn.
  - apply N.ltb_ge in Hp. assert (Epre : prebuf sr = []) by (apply nlen_zero_nil; lia).
    destruct (read_retry_inner_stream _ _ _ _ _ _ _ Hroom HN H) as [Hpre' Hres].
    rewrite Epre. cbn [app]. destruct res as [bs cl|e].
    + destruct Hres as (H1 & H2 & H3). split; [exact H1|]. split.
      * intros Hc. rewrite (H2 Hc). reflexivity.
      * intros Hc. rewrite (H3 Hc). rewrite Hpre'. cbn [app].
        destruct (sgo (events sr') (data sr')); reflexivity.
    + rewrite Hres. reflexivity.
Qed.

(* ---------- the simulation relation ---------- *)
(* everything except the completeness flag: this part is untouched by refills *)
Record Rel0 (s : rstate) (v : view) : Prop := {
  r_inv : Inv s;
  r_pob : PobOk s;
  r_nolie : NoLie (events (src s));
  r_chunk : 1 <= chunk_size s;
  r_S : vS v = g_delivered s ++ (if g_terminal s then [] else fst (stream_of (src s)));
  r_fail : if g_terminal s then io_error s = (if vtaken v then None else vfail v)
           else vfail v = snd (stream_of (src s)) /\ io_error s = None /\ vtaken v = false;
  r_cur : vcur v = g_consumed s;
  r_mark : vmark v = g_mark s;
  r_hwm : vhwm v <= g_consumed s + valid_len s
}.

(* between the operations of a program the reader is complete exactly when a peek has come back empty *)
Definition Rel (s : rstate) (v : view) : Prop := Rel0 s v /\ vknown v = g_terminal s.

(* the initial states are related: any honest source, any chunk size >= 1 *)
Lemma Rel_init sr c :
  NoLie (events sr) -> 1 <= c ->
  Rel (set_chunk (reader_init sr) c) (view_init (fst (stream_of sr)) (snd (stream_of sr))).
Proof.
  intros HN Hc. split; [|reflexivity].
  constructor; cbn [set_chunk reader_init view_init src chunk_size g_delivered g_terminal io_error
    g_consumed g_mark valid_len vS vfail vtaken vcur vmark vknown vhwm app]; auto; try lia; try discriminate.
  - destruct (Inv_init sr). constructor; assumption.
  - unfold PobOk, W64; cbn; lia.
Qed.

Lemma Rel_prep s v : Rel0 s v -> Rel0 (prep s) v.
Proof.
  intros [HI HP HN HC HS HF Hcur Hm Hh]. constructor; auto.
  - apply Inv_prep; exact HI.
  - apply PobOk_prep; exact HP.
Qed.

(* a refill never changes the view; it turns the reader terminal only without adding data *)
Lemma Rel_request_more s v :
  Rel0 s v -> exists b s', request_more s = RMDone b s' /\ Rel0 s' v /\ valid_len s <= valid_len s' /\
                           (g_terminal s' = g_terminal s \/ (valid_len s' = valid_len s /\ complete s' = true)).
Proof.
  intros HR. pose proof HR as [HI HP HN HC HS HF Hcur Hm Hh].
  unfold request_more. destruct (complete s) eqn:Hc;
    [exists false, s; split; [reflexivity|split; [exact HR|split; [lia|left; reflexivity]]]|].
  pose proof (inv_range s HI) as Hr. pose proof Hr as Hr'. apply N.leb_le in Hr'. rewrite Hr', andb_false_r.
  assert (Hterm : g_terminal s = false) by (rewrite <- (inv_compl s HI); exact Hc).
  rewrite Hterm in HS, HF. destruct HF as (HF1 & HF2 & HF3).
  pose proof (Rel_prep s v HR) as HRp. pose proof (r_inv _ _ HRp) as HIp.
  destruct (prep_room s Hr) as [Hroom _].
  unfold finish_read.
  change (src (prep s)) with (src s). change (chunk_size (prep s)) with (chunk_size s).
  change (g_calls (prep s)) with (g_calls s). change (valid_len (prep s)) with (valid_len s) in *.
  change (g_delivered (prep s)) with (g_delivered s). change (io_error (prep s)) with (io_error s).
  change (complete (prep s)) with (complete s). change (g_terminal (prep s)) with (g_terminal s).
  pose proof (Inv_finish_read (prep s) HIp Hc Hroom) as HIf. unfold finish_read in HIf.
  change (src (prep s)) with (src s) in HIf. change (chunk_size (prep s)) with (chunk_size s) in HIf.
  change (g_calls (prep s)) with (g_calls s) in HIf. change (valid_len (prep s)) with (valid_len s) in HIf.
  change (g_delivered (prep s)) with (g_delivered s) in HIf. change (io_error (prep s)) with (io_error s) in HIf.
  change (complete (prep s)) with (complete s) in HIf. change (g_terminal (prep s)) with (g_terminal s) in HIf.
  destruct (read_retry (src s) (chunk_size s) (g_calls s)) as [[res sr'] calls'] eqn:Hrr.
  destruct (read_retry_stream _ _ _ _ _ _ HC HN Hrr) as [HN' Hres].
  destruct res as [bs cl|e].
  - destruct Hres as (Hcl & Hz & Hnz). destruct (read_retry_ok _ _ _ _ _ _ _ Hrr) as [Hlen _].
    destruct (cl =? 0) eqn:Hcz.
    + (* end of input *)
      apply N.eqb_eq in Hcz. specialize (Hz Hcz). cbn [rm_state] in HIf.
      eexists true, _. split; [reflexivity|].
      split; [|split; [cbn [after_read valid_len]; lia|right; cbn [after_read valid_len complete]; split; reflexivity]].
      assert (bs = []) as -> by (apply nlen_zero_nil; lia).
      constructor; cbn [after_read src chunk_size g_delivered g_terminal io_error g_consumed g_mark valid_len
        pos_of_buf]; auto.
      all: try exact (PobOk_prep s HP).
      all: try (rewrite !app_nil_r; rewrite HS, Hz; cbn [fst]; apply app_nil_r).
      all: try (rewrite HF2, HF3, HF1, Hz; reflexivity).
      all: try (change (g_consumed (prep s)) with (g_consumed s); lia).
    + apply N.eqb_neq in Hcz. specialize (Hnz Hcz).
      assert ((chunk_size s <? cl) = false) as Hnb by (apply N.ltb_ge; lia). rewrite Hnb in *.
      cbn [rm_state] in HIf. eexists true, _. split; [reflexivity|].
      split; [|split; [cbn [after_read valid_len]; lia|left; reflexivity]].
      constructor; cbn [after_read src chunk_size g_delivered g_terminal io_error g_consumed g_mark valid_len
        pos_of_buf]; auto; rewrite ?Hterm.
      all: try exact (PobOk_prep s HP).
      all: try (rewrite HS, Hnz; cbn [fst]; apply app_assoc).
      all: try (rewrite HF1, Hnz; cbn [snd]; auto; fail).
      all: try (change (g_consumed (prep s)) with (g_consumed s); lia).
  - (* the source failed *)
    cbn [rm_state] in HIf. eexists true, _. split; [reflexivity|].
    split; [|split; [cbn [after_read valid_len]; lia|right; cbn [after_read valid_len complete]; split; reflexivity]].
    constructor; cbn [after_read src chunk_size g_delivered g_terminal io_error g_consumed g_mark valid_len
      pos_of_buf]; auto.
    all: try exact (PobOk_prep s HP).
    all: try (rewrite app_nil_r; rewrite HS, Hres; cbn [fst]; apply app_nil_r).
    all: try (rewrite HF3, HF1, Hres; reflexivity).
    all: try (change (g_consumed (prep s)) with (g_consumed s); lia).
Qed.

Lemma Rel_fill_until fuel : forall need s v,
  Rel0 s v ->
  match fill_until fuel need s with
  | LDone s' | LFuel s' =>
      Rel0 s' v /\ valid_len s <= valid_len s' /\ (need <= valid_len s' -> g_terminal s' = g_terminal s)
  | LPanic _ _ => False
  end.
Proof.
  induction fuel as [|f IH]; intros need s v HR; cbn [fill_until].
  - destruct (need <=? valid_len s); (split; [exact HR|split; [lia|intros; reflexivity]]).
  - destruct (need <=? valid_len s) eqn:Hn; [split; [exact HR|split; [lia|intros; reflexivity]]|]. apply N.leb_gt in Hn.
    destruct (Rel_request_more s v HR) as (b & s' & Hrm & HR' & Hv & Ht). rewrite Hrm.
    destruct b; [|split; [exact HR'|split; [exact Hv|intros Hge; destruct Ht as [Ht|[Hvl _]]; [exact Ht|lia]]]].
    specialize (IH need s' v HR').
    destruct (fill_until f need s') as [s2|p s2|s2] eqn:Hf2; try exact IH.
    + destruct IH as (H1 & H2 & H3). split; [exact H1|]. split; [lia|]. intros Hge.
      destruct Ht as [Ht|[Hvl Hcm]]; [rewrite (H3 Hge); exact Ht|].
      (* the reader turned terminal without new data: the loop stops short of `need` *)
      exfalso. destruct f as [|f']; cbn [fill_until] in Hf2.
      * assert ((need <=? valid_len s') = false) as E by (apply N.leb_gt; lia). rewrite E in Hf2. discriminate.
      * assert ((need <=? valid_len s') = false) as E by (apply N.leb_gt; lia). rewrite E in Hf2.
        unfold request_more in Hf2. rewrite Hcm in Hf2. inversion Hf2; subst. lia.
    + destruct IH as (H1 & H2 & H3). split; [exact H1|]. split; [lia|]. intros Hge.
      destruct Ht as [Ht|[Hvl Hcm]]; [rewrite (H3 Hge); exact Ht|].
      exfalso. destruct f as [|f']; cbn [fill_until] in Hf2.
      * assert ((need <=? valid_len s') = false) as E by (apply N.leb_gt; lia). rewrite E in Hf2.
        inversion Hf2; subst. lia.
      * assert ((need <=? valid_len s') = false) as E by (apply N.leb_gt; lia). rewrite E in Hf2.
        unfold request_more in Hf2. rewrite Hcm in Hf2. discriminate.
Qed.

Lemma nnth_app_l {A} (a b : list A) i : i < nlen a -> nnth (a ++ b) i = nnth a i.
Proof. intros H. unfold nnth, nlen in *. apply nth_error_app1. lia. Qed.

(* what a buffered byte is, in terms of the view *)
Lemma Rel_buffered_byte s v k :
  Rel0 s v -> k < valid_len s -> nnth (buf s) (pos_in_buf s + k) = vpeek v k.
Proof.
  intros HR Hk. pose proof (r_inv _ _ HR) as HI.
  rewrite (peek_buffered s k HI Hk). unfold unread, vpeek. rewrite (r_S _ _ HR), (r_cur _ _ HR).
  rewrite nnth_nskipn. symmetry. apply nnth_app_l. pose proof (inv_count s HI). lia.
Qed.

Lemma Rel_peek s v k :
  Rel s v -> exists s', peek s k = (s', VOptByte (vpeek v k)) /\ Rel s' (after_peek v k).
Proof.
  intros [HR Hkn].
  assert (Hafter : forall s', Rel0 s' v -> g_terminal s' = g_terminal s -> k < valid_len s' -> Rel s' (after_peek v k)).
  { intros s' HR' Hterm Hlt. pose proof HR' as [HI HP HN HC HS HF Hcur Hm Hh].
    assert (Hsome : exists b, vpeek v k = Some b).
    { unfold vpeek. apply nnth_in_range. rewrite HS, nlen_app, Hcur. pose proof (inv_count s' HI). lia. }
    destruct Hsome as [b Hb]. split.
    - constructor; cbn [after_peek vS vfail vcur vmark vtaken vknown vhwm]; auto; rewrite ?Hb; auto. lia.
    - cbn [after_peek vknown]. rewrite Hb. congruence. }
  unfold peek. destruct (k <? valid_len s) eqn:Hk.
  - apply N.ltb_lt in Hk. rewrite (Rel_buffered_byte s v k HR Hk).
    assert (Hsome : exists b, vpeek v k = Some b).
    { unfold vpeek. apply nnth_in_range. rewrite (r_S _ _ HR), nlen_app, (r_cur _ _ HR).
      pose proof (inv_count s (r_inv _ _ HR)). lia. }
    destruct Hsome as [b Hb]. rewrite Hb. exists s. split; [reflexivity|]. apply Hafter; auto.
  - pose proof (Rel_fill_until (loop_fuel s) (k + 1) s v HR) as Hf.
    pose proof (fill_until_no_fuel (loop_fuel s) (k + 1) s (loop_fuel_enough s)) as Hnf.
    destruct (fill_until (loop_fuel s) (k + 1) s) as [s'|p s'|s'] eqn:Hfu; [|contradiction|exfalso; eapply Hnf; reflexivity].
    destruct Hf as (HR' & _ & Hterm).
    destruct (k <? valid_len s') eqn:Hk'.
    + apply N.ltb_lt in Hk'. rewrite (Rel_buffered_byte s' v k HR' Hk').
      assert (Hsome : exists b, vpeek v k = Some b).
      { unfold vpeek. apply nnth_in_range. rewrite (r_S _ _ HR'), nlen_app, (r_cur _ _ HR').
        pose proof (inv_count s' (r_inv _ _ HR')). lia. }
      destruct Hsome as [b Hb]. rewrite Hb. exists s'. split; [reflexivity|]. apply Hafter; auto. apply Hterm. lia.
    + (* the loop gave up: the source has ended, nothing is there *)
      apply N.ltb_ge in Hk'.
      destruct (fill_until_done _ _ _ _ Hfu) as [Hge|Hcomp]; [lia|].
      pose proof HR' as [HI HP HN HC HS HF Hcur Hm Hh].
      assert (Hterm' : g_terminal s' = true) by (rewrite <- (inv_compl s' HI); exact Hcomp).
      rewrite Hterm' in HS, HF. rewrite app_nil_r in HS.
      assert (Hnone : vpeek v k = None).
      { unfold vpeek. apply nnth_beyond. rewrite HS, Hcur. pose proof (inv_count s' HI). lia. }
      rewrite Hnone. exists s'. split; [reflexivity|]. split.
      * constructor; cbn [after_peek vS vfail vcur vmark vtaken vknown vhwm]; auto; rewrite ?Hnone; auto.
        -- rewrite Hterm', app_nil_r. exact HS.
        -- rewrite Hterm'. exact HF.
        -- rewrite HS. pose proof (inv_count s' HI). lia.
      * cbn [after_peek vknown]. rewrite Hnone. symmetry. exact Hterm'.
Qed.

(* ---------- the simulation theorem ---------- *)
Definition refines {A} (c : cres A) (r : ares A) : Prop :=
  match r with
  | AStuck => True
  | ADone a v' => exists s', c = CDone a s' /\ Rel s' v'
  | APanic k => exists s', c = CPanic k s'
  | AFuel => c = CFuel
  end.

Lemma window_sub b pos len off n :
  off + n <= len -> window b (pos + off) n = nfirstn n (nskipn off (window b pos len)).
Proof.
  intros H. unfold window, nfirstn, nskipn.
  rewrite skipn_firstn_comm, skipn_skipn, firstn_firstn. f_equal; [lia|]. f_equal. lia.
Qed.

Lemma Rel_load8 s v off :
  Rel0 s v -> off + 8 <= valid_len s ->
  window (buf s) (pos_in_buf s + off) 8 = window (vS v) (vcur v + off) 8.
Proof.
  intros HR H. pose proof (r_inv _ _ HR) as HI.
  rewrite (window_sub (buf s) (pos_in_buf s) (valid_len s) off 8 H).
  rewrite (inv_window s HI). rewrite (r_S _ _ HR), (r_cur _ _ HR).
  unfold window. rewrite nskipn_nskipn.
  set (fut := if g_terminal s then [] else fst (stream_of (src s))).
  pose proof (inv_count s HI) as Hc.
  rewrite nskipn_app_l by lia.
  unfold nfirstn. rewrite firstn_app.
  replace (N.to_nat 8 - length (nskipn (g_consumed s + off) (g_delivered s)))%nat with 0%nat.
  - cbn [firstn]. rewrite app_nil_r. f_equal. f_equal. lia.
  - rewrite length_nskipn. unfold nlen in Hc. lia.
Qed.

Theorem simulation {A} (p : prog A) : forall s v, Rel s v -> exists r, aruns p v r /\ refines (crun p s) r.
Proof.
  induction p as [a|k c IH|n c IH|off c IH|c IH|c IH|c IH|c IH|c IH|c IH|k|]; intros s v HR; cbn [crun].
  - (* Ret *) exists (ADone a v). split; [constructor|]. exists s. split; [reflexivity|exact HR].
  - (* Peek *)
    destruct (Rel_peek s v k HR) as (s' & Hp & HR'). rewrite Hp.
    destruct (IH (vpeek v k) s' (after_peek v k) HR') as (r & Hr & Href).
    exists r. split; [constructor; exact Hr|exact Href].
  - (* Advance *)
    destruct (N.le_gt_cases (vcur v + n) (vhwm v)) as [Hle|Hgt].
    + pose proof HR as [[HI HP HN HC HS HF Hcur Hm Hh] Hk].
      assert (Hn : n <= valid_len s) by lia.
      unfold advance. assert ((valid_len s <? n) = false) as -> by (apply N.ltb_ge; exact Hn).
      set (s' := upd_adv s (valid_len s - n) (pos_in_buf s + n) (g_consumed s + n)).
      assert (HR' : Rel s' (v_advance v n)).
      { pose proof (Inv_advance s n HI) as HI'. unfold advance in HI'.
        assert ((valid_len s <? n) = false) as E by (apply N.ltb_ge; exact Hn). rewrite E in HI'. cbn [fst] in HI'.
        split; [|exact Hk].
        constructor; cbn [s' upd_adv v_advance src chunk_size g_delivered g_terminal io_error g_consumed g_mark valid_len
          vS vfail vcur vmark vtaken vknown vhwm]; auto; lia. }
      destruct (IH s' (v_advance v n) HR') as (r & Hr & Href).
      exists r. split; [apply ar_adv; assumption|exact Href].
    + exists AStuck. split; [apply ar_adv_stuck; exact Hgt|exact I].
  - (* TryLoad8 *)
    pose proof HR as [[HI HP HN HC HS HF Hcur Hm Hh] Hk].
    destruct (off + 8 <=? valid_len s) eqn:Hn.
    + apply N.leb_le in Hn.
      rewrite (Rel_load8 s v off (proj1 HR) Hn).
      set (o := Some (le_value (window (vS v) (vcur v + off) 8))).
      assert (Hok : tryload_ok v off o).
      { unfold tryload_ok, o, word_at. split; [|reflexivity].
        rewrite HS, nlen_app, Hcur. pose proof (inv_count s HI). lia. }
      assert (HR' : Rel s (v_loaded v off o)).
      { split; [|exact Hk]. constructor; cbn [v_loaded o vS vfail vcur vmark vtaken vknown vhwm]; auto. lia. }
      destruct (IH o s (v_loaded v off o) HR') as (r & Hr & Href).
      exists r. split; [eapply ar_tryload; eassumption|exact Href].
    + apply N.leb_gt in Hn.
      assert (Hok : tryload_ok v off None) by (unfold tryload_ok; lia).
      assert (HR' : Rel s (v_loaded v off None)).
      { split; [|exact Hk]. constructor; cbn [v_loaded vS vfail vcur vmark vtaken vknown vhwm]; auto. }
      destruct (IH None s (v_loaded v off None) HR') as (r & Hr & Href).
      exists r. split; [eapply ar_tryload; eassumption|exact Href].
  - (* IsAtEnd *)
    pose proof HR as [[HI HP HN HC HS HF Hcur Hm Hh] Hk].
    assert (Heq : is_at_end s = s_atend v).
    { unfold is_at_end, s_atend. rewrite (inv_compl s HI), Hk. pose proof (inv_count s HI) as Hc.
      destruct (g_terminal s) eqn:Ht; [|reflexivity]. cbn [andb]. rewrite HS, app_nil_r, Hcur.
      destruct (valid_len s =? 0) eqn:E1; destruct (nlen (g_delivered s) <=? g_consumed s) eqn:E2; try reflexivity.
      - apply N.eqb_eq in E1. apply N.leb_gt in E2. lia.
      - apply N.eqb_neq in E1. apply N.leb_le in E2. lia. }
    rewrite Heq. destruct (IH (s_atend v) s v HR) as (r & Hr & Href).
    exists r. split; [constructor; exact Hr|exact Href].
  - (* ErrParked *)
    pose proof HR as [[HI HP HN HC HS HF Hcur Hm Hh] Hk].
    assert (Heq : match io_error s with Some _ => true | None => false end = s_parked v).
    { unfold s_parked, v_err_now. rewrite Hk. destruct (g_terminal s) eqn:Ht.
      - rewrite HF. reflexivity.
      - destruct HF as (_ & HF2 & _). rewrite HF2. reflexivity. }
    rewrite Heq. destruct (IH (s_parked v) s v HR) as (r & Hr & Href).
    exists r. split; [constructor; exact Hr|exact Href].
  - (* TakeErr *)
    pose proof HR as [[HI HP HN HC HS HF Hcur Hm Hh] Hk].
    assert (Heq : io_error s = s_take v).
    { unfold s_take, v_err_now. rewrite Hk. destruct (g_terminal s) eqn:Ht.
      - exact HF.
      - destruct HF as (_ & HF2 & _). exact HF2. }
    assert (HR' : Rel (clear_io_error s) (v_take v (s_take v))).
    { split; [|exact Hk].
      constructor; cbn [clear_io_error v_take src chunk_size g_delivered g_terminal io_error g_consumed g_mark valid_len
        vS vfail vcur vmark vtaken vknown vhwm]; auto.
      - destruct HI as [a1 a2 a3 a4 a5 a6 a7 a8]. constructor; auto; try (cbn [clear_io_error io_error]; congruence).
      - rewrite <- Heq. destruct (g_terminal s) eqn:Ht.
        + destruct (io_error s) as [e|] eqn:He; [reflexivity|]. exact HF.
        + destruct HF as (HF1 & HF2 & HF3). rewrite HF2. auto. }
    rewrite Heq. destruct (IH (s_take v) (clear_io_error s) (v_take v (s_take v)) HR') as (r & Hr & Href).
    exists r. split; [constructor; exact Hr|exact Href].
  - (* SetMark *)
    pose proof HR as [[HI HP HN HC HS HF Hcur Hm Hh] Hk].
    assert (HR' : Rel (set_mark_in_buf s (pos_in_buf s) (g_consumed s)) (v_setmark v)).
    { split; [|exact Hk].
      constructor; cbn [set_mark_in_buf v_setmark src chunk_size g_delivered g_terminal io_error g_consumed g_mark valid_len
        vS vfail vcur vmark vtaken vknown vhwm]; auto; try (apply Inv_set_mark; exact HI). }
    destruct (IH _ _ HR') as (r & Hr & Href).
    exists r. split; [constructor; exact Hr|exact Href].
  - (* GetMark *)
    pose proof HR as [[HI HP HN HC HS HF Hcur Hm Hh] Hk].
    rewrite (inv_mark s HI), <- Hm.
    destruct (IH (vmark v mod W64) s v HR) as (r & Hr & Href).
    exists r. split; [constructor; exact Hr|exact Href].
  - (* GetPos *)
    pose proof HR as [[HI HP HN HC HS HF Hcur Hm Hh] Hk].
    rewrite (inv_pos s HI), <- Hcur.
    destruct (IH (vcur v mod W64) s v HR) as (r & Hr & Href).
    exists r. split; [constructor; exact Hr|exact Href].
  - (* Crash *) exists (APanic k). split; [constructor|]. exists s. reflexivity.
  - (* NoFuel *) exists AFuel. split; [constructor|reflexivity].
Qed.

(* ---------- consequences ---------- *)
(* if every admissible abstract run returns the value a, so does every concrete run *)
Corollary concrete_value {A} (p : prog A) s v (a : A) :
  Rel s v ->
  (forall r, aruns p v r -> exists v', r = ADone a v') ->
  exists s', crun p s = CDone a s' /\ exists v', Rel s' v'.
Proof.
  intros HR Hall. destruct (simulation p s v HR) as (r & Hr & Href).
  destruct (Hall r Hr) as [v' ->]. destruct Href as (s' & Hc & HR'). exists s'. split; [exact Hc|]. exists v'. exact HR'.
Qed.

(* C01 at the level of programs: two honest sources that deliver the same stream (and fail, or not, the same
   way at its end), read with any two chunk sizes >= 1 under any two schedules, give the same result for every
   program whose abstract runs agree on their result *)
Corollary chunking_independence {A} (p : prog A) (sr1 sr2 : source) (c1 c2 : N) (a : A) :
  NoLie (events sr1) -> NoLie (events sr2) -> 1 <= c1 -> 1 <= c2 ->
  stream_of sr1 = stream_of sr2 ->
  (forall r, aruns p (view_init (fst (stream_of sr1)) (snd (stream_of sr1))) r -> exists v', r = ADone a v') ->
  (exists s1, crun p (set_chunk (reader_init sr1) c1) = CDone a s1) /\
  (exists s2, crun p (set_chunk (reader_init sr2) c2) = CDone a s2).
Proof.
  intros H1 H2 Hc1 Hc2 Heq Hall. split.
  - destruct (concrete_value p _ _ a (Rel_init sr1 c1 H1 Hc1) Hall) as (s' & Hc & _). eauto.
  - rewrite Heq in Hall. destruct (concrete_value p _ _ a (Rel_init sr2 c2 H2 Hc2) Hall) as (s' & Hc & _). eauto.
Qed.
