(* Reader.v — executable model of flussab/src/deferred_reader.rs.
   One record field per Rust field, one function per method, the same order of
   field updates (so that the state left behind by a panicking call is the one
   the code leaves behind).  usize fields are unbounded N; the two wrapping
   fields (pos_of_buf, mark_in_buf) wrap explicitly at 2^64.  Ghost fields
   (prefixed g_) record history and are never read by the modelled code. *)
From Flussab Require Import Base.

(* ---- the source: a byte string plus a schedule of read() results ---- *)
Inductive revent :=
| Deliver (n : N)   (* n bytes are ready: Ok(k), k = min(n, slice length, bytes left); k = 0 is end of input *)
| Interrupt         (* Err(ErrorKind::Interrupted) *)
| FailE (e : N)     (* Err(other), e identifies the error *)
| Eof               (* Ok(0) although bytes may be left: they are never delivered *)
| Lie (n : N).      (* fills the slice but returns Ok(slice length + 1 + n): breaks the Read contract *)

(* [prebuf]: bytes that were sitting in a BufReader (from_buf_reader builds
   Cursor(prebuf).chain(inner)): handed out first, as fast as the reads ask for
   them, without touching the inner reader's schedule. *)
Record source := { prebuf : bytes; data : bytes; events : list revent }.

Inductive read_result :=
| ROk (bs : bytes) (claimed : N)   (* bs: bytes really written to the slice *)
| RErr (e : N).

(* One read() call that is not Interrupted.  When the schedule is exhausted the
   source behaves well: it fills the slice until the data runs out. *)
Definition src_read_inner (d : bytes) (evs : list revent) (room : N) : read_result * source :=
  match evs with
  | [] =>
      let k := N.min room (nlen d) in
      (ROk (nfirstn k d) k, {| prebuf := []; data := nskipn k d; events := [] |})
  | Deliver n :: ev =>
      (* n bytes are ready; what does not fit the slice stays ready for the next call *)
      let k := N.min (N.min n room) (nlen d) in
      let ev' := if (0 <? k) && (k <? n) then Deliver (n - k) :: ev else ev in
      (ROk (nfirstn k d) k, {| prebuf := []; data := nskipn k d; events := ev' |})
  | Eof :: ev => (ROk [] 0, {| prebuf := []; data := d; events := ev |})
  | FailE e :: ev => (RErr e, {| prebuf := []; data := d; events := ev |})
  | Lie n :: ev =>
      let k := N.min room (nlen d) in
      (ROk (nfirstn k d) (room + 1 + n), {| prebuf := []; data := nskipn k d; events := ev |})
  | Interrupt :: ev => (ROk [] 0, {| prebuf := []; data := d; events := ev |})  (* unreachable via read_retry *)
  end.

Definition src_read (pre d : bytes) (evs : list revent) (room : N) : read_result * source :=
  if 0 <? nlen pre then
    let k := N.min room (nlen pre) in
    (ROk (nfirstn k pre) k, {| prebuf := nskipn k pre; data := d; events := evs |})
  else src_read_inner d evs room.

(* The `loop { match read(..) { Err(Interrupted) => continue, .. } break }`:
   returns the first non-Interrupted result and the number of calls made. *)
Fixpoint read_retry_inner (evs : list revent) (d : bytes) (room : N) (calls : N)
  : read_result * source * N :=
  match evs with
  | Interrupt :: ev => read_retry_inner ev d room (calls + 1)
  | _ => (src_read_inner d evs room, calls + 1)
  end.
Definition read_retry (sr : source) (room : N) (calls : N) : read_result * source * N :=
  if 0 <? nlen (prebuf sr) then (src_read (prebuf sr) (data sr) (events sr) room, calls)   (* Cursor, not the inner reader *)
  else read_retry_inner (events sr) (data sr) room calls.

(* ---- the reader ---- *)
Record rstate := {
  src : source;
  buf : bytes;            (* Vec<u8>, length = Vec::len *)
  pos_in_buf : N;
  valid_len : N;
  complete : bool;
  io_error : option N;
  pos_of_buf : N;         (* wraps at 2^64 *)
  mark_in_buf : N;        (* wraps at 2^64 *)
  chunk_size : N;
  (* ghost *)
  g_calls : N;            (* read() calls on the inner reader so far, Interrupted ones included *)
  g_delivered : bytes;    (* every byte the source handed over, in order *)
  g_consumed : N;         (* bytes advanced over *)
  g_mark : N;             (* absolute offset designated by the last set_mark* (mod 2^64 for set_mark_to_position) *)
  g_terminal : bool;      (* the source returned Ok(0) or a non-Interrupted error *)
  g_calls_after_terminal : N
}.

Definition DEFAULT_CHUNK_SIZE : N := 16384.

Definition reader_init (s : source) : rstate :=
  {| src := s; buf := []; pos_in_buf := 0; valid_len := 0; complete := false; io_error := None;
     pos_of_buf := 0; mark_in_buf := 0; chunk_size := DEFAULT_CHUNK_SIZE;
     g_calls := 0; g_delivered := []; g_consumed := 0; g_mark := 0; g_terminal := false;
     g_calls_after_terminal := 0 |}.

(* from_buf_reader: Cursor(buffered).chain(inner) — the buffered bytes are
   simply the first bytes of the stream, delivered as the reads ask for them.
   (Chain moves to the second reader when the first returns Ok(0) on a
   non-empty slice, within the same read call.) *)
Definition source_of_buf_reader (buffered : bytes) (inner : source) : source :=
  {| prebuf := buffered ++ prebuf inner; data := data inner; events := events inner |}.

(* record update helpers *)
Definition set_buf (s : rstate) b := {| src := src s; buf := b; pos_in_buf := pos_in_buf s; valid_len := valid_len s;
  complete := complete s; io_error := io_error s; pos_of_buf := pos_of_buf s; mark_in_buf := mark_in_buf s;
  chunk_size := chunk_size s; g_calls := g_calls s; g_delivered := g_delivered s; g_consumed := g_consumed s;
  g_mark := g_mark s; g_terminal := g_terminal s; g_calls_after_terminal := g_calls_after_terminal s |}.

(* buffer primitives *)
Definition window (b : bytes) (pos len : N) : bytes := nfirstn len (nskipn pos b).
(* Vec::copy_within(pos..pos+len, 0) *)
Definition copy_to_front (b : bytes) (pos len : N) : bytes := window b pos len ++ nskipn len b.
(* writing bs at index at (bs fits) *)
Definition splice (b : bytes) (at_ : N) (bs : bytes) : bytes :=
  nfirstn at_ b ++ bs ++ nskipn (at_ + nlen bs) b.
(* Vec::resize(n, 0) when n >= len *)
Definition grow (b : bytes) (n : N) : bytes := b ++ nrepeat 0 (n - nlen b).

Inductive rm_result :=
| RMDone (progress : bool) (s : rstate)
| RMPanic (k : panic_kind) (s : rstate).

(* Phase 1 of request_more: make room for one more chunk (realign, maybe
   shrink, grow).  No read happens here. *)
Definition realign_needed (s : rstate) : bool := 2 * chunk_size s <? pos_in_buf s.

Definition with_layout (s : rstate) (b : bytes) (pib pob mib : N) : rstate :=
  {| src := src s; buf := b; pos_in_buf := pib; valid_len := valid_len s; complete := complete s;
     io_error := io_error s; pos_of_buf := pob; mark_in_buf := mib; chunk_size := chunk_size s;
     g_calls := g_calls s; g_delivered := g_delivered s; g_consumed := g_consumed s; g_mark := g_mark s;
     g_terminal := g_terminal s; g_calls_after_terminal := g_calls_after_terminal s |}.

Definition prep (s : rstate) : rstate :=
  let realign := realign_needed s in
  let b1 := if realign then copy_to_front (buf s) (pos_in_buf s) (valid_len s) else buf s in
  let pob := if realign then wadd64 (pos_of_buf s) (pos_in_buf s) else pos_of_buf s in
  (* the mark is rebased with the old pos_in_buf, before that is zeroed *)
  let mib := if realign then wsub64 (mark_in_buf s) (pos_in_buf s) else mark_in_buf s in
  let pib := if realign then 0 else pos_in_buf s in
  let b2 := if realign && (4 * (pib + valid_len s + chunk_size s) <? nlen b1)
            then nfirstn (nlen b1 / 2) b1 else b1 in
  let target_end := pib + valid_len s + chunk_size s in
  let b3 := if nlen b2 <? target_end then grow b2 target_end else b2 in
  with_layout s b3 pib pob mib.

(* Phase 2: the read loop and the bookkeeping of its result. *)
Definition after_read (s : rstate) (sr : source) (calls : N) (b : bytes) (vl : N) (compl : bool)
           (err : option N) (deliv : bytes) (term : bool) : rstate :=
  {| src := sr; buf := b; pos_in_buf := pos_in_buf s; valid_len := vl; complete := compl;
     io_error := err; pos_of_buf := pos_of_buf s; mark_in_buf := mark_in_buf s; chunk_size := chunk_size s;
     g_calls := calls; g_delivered := deliv; g_consumed := g_consumed s; g_mark := g_mark s;
     g_terminal := term;
     g_calls_after_terminal := if g_terminal s then g_calls_after_terminal s + (calls - g_calls s)
                               else g_calls_after_terminal s |}.

Definition finish_read (s : rstate) : rm_result :=
  let '(r, sr, calls) := read_retry (src s) (chunk_size s) (g_calls s) in
  match r with
  | ROk bs claimed =>
      let b4 := splice (buf s) (pos_in_buf s + valid_len s) bs in
      if claimed =? 0 then
        RMDone true (after_read s sr calls b4 (valid_len s) true (io_error s) (g_delivered s ++ bs) true)
      else if chunk_size s <? claimed then
        (* the load-bearing assert: bytes were written past the window but are not part of it *)
        RMPanic PReadContract
                (after_read s sr calls b4 (valid_len s) (complete s) (io_error s) (g_delivered s) (g_terminal s))
      else
        RMDone true (after_read s sr calls b4 (valid_len s + claimed) (complete s) (io_error s)
                                (g_delivered s ++ bs) (g_terminal s))
  | RErr e =>
      RMDone true (after_read s sr calls (buf s) (valid_len s) true (Some e) (g_delivered s) true)
  end.

Definition request_more (s : rstate) : rm_result :=
  if complete s then RMDone false s else
  if realign_needed s && negb (pos_in_buf s + valid_len s <=? nlen (buf s)) then
    RMPanic PIndex s                               (* copy_within range check *)
  else finish_read (prep s).

(* `while valid_len < len && request_more() {}` / `while valid_len <= offset { if !request_more() .. }` *)
Inductive loop_result :=
| LDone (s : rstate)
| LPanic (k : panic_kind) (s : rstate)
| LFuel (s : rstate).

Fixpoint fill_until (fuel : nat) (need : N) (s : rstate) : loop_result :=
  if need <=? valid_len s then LDone s else
  match fuel with
  | O => LFuel s
  | S f =>
      match request_more s with
      | RMDone true s' => fill_until f need s'
      | RMDone false s' => LDone s'
      | RMPanic k s' => LPanic k s'
      end
  end.

(* enough fuel for every loop: each iteration consumes an event, delivers a
   byte, or sets `complete` *)
Definition loop_fuel (s : rstate) : nat :=
  (length (events (src s)) + length (data (src s)) + length (prebuf (src s)) + 2)%nat.

(* ---- the public API as an operation language ---- *)
Inductive rop :=
| ORequest (n : N)
| OPeek (k : N)            (* request_byte_at_offset; request_byte = OPeek 0 *)
| ORequestMore
| OAdvance (n : N)
| OAdvanceWithBuf (n : N)
| OSetMark
| OSetMarkTo (p : N)
| OSetChunk (c : N)
| OBuf
| OBufLen
| OPosition
| OMark
| OIsComplete
| OIsAtEnd
| OIoError
| OCheckIoError.

Inductive robs :=
| VBytes (bs : bytes)
| VOptByte (o : option byte)
| VBool (b : bool)
| VNum (n : N)
| VUnit
| VOptErr (e : option N)
| VPanic (k : panic_kind)
| VUB
| VFuel.

(* buf(): get_unchecked(pos..pos+valid) *)
Definition get_buf (s : rstate) : robs :=
  if pos_in_buf s + valid_len s <=? nlen (buf s)
  then VBytes (window (buf s) (pos_in_buf s) (valid_len s))
  else VUB.

Definition upd_adv (s : rstate) (vl pib cons : N) : rstate :=
  {| src := src s; buf := buf s; pos_in_buf := pib; valid_len := vl; complete := complete s;
     io_error := io_error s; pos_of_buf := pos_of_buf s; mark_in_buf := mark_in_buf s;
     chunk_size := chunk_size s; g_calls := g_calls s; g_delivered := g_delivered s; g_consumed := cons;
     g_mark := g_mark s; g_terminal := g_terminal s; g_calls_after_terminal := g_calls_after_terminal s |}.

(* advance(n): check, then update (a failed check leaves the reader untouched) *)
Definition advance (s : rstate) (n : N) : rstate * option panic_kind :=
  if valid_len s <? n then (s, Some PAdvance)
  else (upd_adv s (valid_len s - n) (pos_in_buf s + n) (g_consumed s + n), None).

Definition set_mark_in_buf (s : rstate) (m gm : N) : rstate :=
  {| src := src s; buf := buf s; pos_in_buf := pos_in_buf s; valid_len := valid_len s; complete := complete s;
     io_error := io_error s; pos_of_buf := pos_of_buf s; mark_in_buf := m;
     chunk_size := chunk_size s; g_calls := g_calls s; g_delivered := g_delivered s; g_consumed := g_consumed s;
     g_mark := gm; g_terminal := g_terminal s; g_calls_after_terminal := g_calls_after_terminal s |}.

Definition set_chunk (s : rstate) (c : N) : rstate :=
  {| src := src s; buf := buf s; pos_in_buf := pos_in_buf s; valid_len := valid_len s; complete := complete s;
     io_error := io_error s; pos_of_buf := pos_of_buf s; mark_in_buf := mark_in_buf s;
     chunk_size := c; g_calls := g_calls s; g_delivered := g_delivered s; g_consumed := g_consumed s;
     g_mark := g_mark s; g_terminal := g_terminal s; g_calls_after_terminal := g_calls_after_terminal s |}.

Definition clear_io_error (s : rstate) : rstate :=
  {| src := src s; buf := buf s; pos_in_buf := pos_in_buf s; valid_len := valid_len s; complete := complete s;
     io_error := None; pos_of_buf := pos_of_buf s; mark_in_buf := mark_in_buf s;
     chunk_size := chunk_size s; g_calls := g_calls s; g_delivered := g_delivered s; g_consumed := g_consumed s;
     g_mark := g_mark s; g_terminal := g_terminal s; g_calls_after_terminal := g_calls_after_terminal s |}.

Definition position (s : rstate) : N := wadd64 (pos_of_buf s) (pos_in_buf s).
Definition mark (s : rstate) : N := wadd64 (pos_of_buf s) (mark_in_buf s).
Definition is_at_end (s : rstate) : bool := complete s && (valid_len s =? 0).

Definition peek (s : rstate) (k : N) : rstate * robs :=
  if k <? valid_len s then
    (* fast path: get_unchecked(pos_in_buf + offset) *)
    match nnth (buf s) (pos_in_buf s + k) with
    | Some b => (s, VOptByte (Some b))
    | None => (s, VUB)
    end
  else
    match fill_until (loop_fuel s) (k + 1) s with
    | LDone s' =>
        if k <? valid_len s' then
          match nnth (buf s') (pos_in_buf s' + k) with   (* checked index *)
          | Some b => (s', VOptByte (Some b))
          | None => (s', VPanic PIndex)
          end
        else (s', VOptByte None)
    | LPanic p s' => (s', VPanic p)
    | LFuel s' => (s', VFuel)
    end.

Definition step (s : rstate) (o : rop) : rstate * robs :=
  match o with
  | ORequest n =>
      if n <=? valid_len s then (s, get_buf s) else
      match fill_until (loop_fuel s) n s with
      | LDone s' => (s', get_buf s')
      | LPanic p s' => (s', VPanic p)
      | LFuel s' => (s', VFuel)
      end
  | OPeek k => peek s k
  | ORequestMore =>
      match request_more s with
      | RMDone b s' => (s', VBool b)
      | RMPanic p s' => (s', VPanic p)
      end
  | OAdvance n =>
      match advance s n with
      | (s', None) => (s', VUnit)
      | (s', Some p) => (s', VPanic p)
      end
  | OAdvanceWithBuf n =>
      match advance s n with
      | (s', None) =>
          (* get_unchecked(pos_in_buf - n .. pos_in_buf) *)
          if pos_in_buf s' <=? nlen (buf s')
          then (s', VBytes (window (buf s') (pos_in_buf s' - n) n))
          else (s', VUB)
      | (s', Some p) => (s', VPanic p)
      end
  | OSetMark => (set_mark_in_buf s (pos_in_buf s) (g_consumed s), VUnit)
  | OSetMarkTo p => (set_mark_in_buf s (wsub64 (p mod W64) (pos_of_buf s)) (p mod W64), VUnit)
  | OSetChunk c => (set_chunk s c, VUnit)
  | OBuf => (s, get_buf s)
  | OBufLen => (s, VNum (valid_len s))
  | OPosition => (s, VNum (position s))
  | OMark => (s, VNum (mark s))
  | OIsComplete => (s, VBool (complete s))
  | OIsAtEnd => (s, VBool (is_at_end s))
  | OIoError => (s, VOptErr (io_error s))
  | OCheckIoError => (clear_io_error s, VOptErr (io_error s))
  end.

(* a whole history: the observations in order *)
Fixpoint run (s : rstate) (ops : list rop) : rstate * list robs :=
  match ops with
  | [] => (s, [])
  | o :: os =>
      let '(s1, v) := step s o in
      let '(s2, vs) := run s1 os in
      (s2, v :: vs)
  end.
