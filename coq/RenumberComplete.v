(* RenumberComplete.v — completeness of the error reports of the renumbering machine (property C12):
   a graph in which some root reaches an undefined variable, or a variable on a combinational cycle,
   is never turned into a circuit; with termination and absence of panics it is rejected with an error.

   Route: soundness (RenumberProofs.renumber_sound) says that every literal with a lit_map entry has a
   *defined* value in the original graph (same_function: eval with some finite fuel returns Some), and
   Renumber::new puts every root into the map (renumber_new_done).  In a graph without double definitions
   (renumber_ok_wf) a finite-fuel evaluation of a literal evaluates every variable reachable from it
   through dep with strictly less fuel: hence all of them are defined and none is on a cycle.  The fuel
   is the decreasing measure; no statement about the new codes is needed, so constant folding and
   structural hashing (c_fold, c_strash) are covered, as is c_trim. *)
From Coq Require Import NArith List Lia Bool Arith.Wf_nat
  Relations.Relation_Operators Relations.Operators_Properties.
From Flussab Require Import Aig Renumber RenumberProofs RenumberTerm.
Import ListNotations.
Local Open Scope N_scope.

Lemma find_key_some {A} (key : A -> lit) v l : forall i j x,
  find_key key v l i = Some (j, x) -> In x l /\ N.div2 (key x) = v.
Proof.
  induction l as [|y l IH]; simpl; intros i j x H; [discriminate|].
  destruct (N.eqb_spec (N.div2 (key y)) v) as [E|E].
  - injection H as _ <-. auto.
  - destruct (IH _ _ _ H). auto.
Qed.

(* a literal that has a value is defined *)
Lemma eval_defined a ρ n l b : eval a ρ n l = Some b -> In (N.div2 l) (defined_vars a).
Proof.
  destruct n as [|n]; simpl; [discriminate|]. intros H. unfold defined_vars.
  destruct (N.eqb_spec (N.div2 l) 0) as [E|E]; [left; symmetry; exact E|]. right.
  destruct (find_key (fun x => x) (N.div2 l) (a_inputs a) 0) as [[i x]|] eqn:E1.
  { apply find_key_some in E1 as [Hin Hv]. apply in_or_app. left. apply in_map_iff. exists x. auto. }
  destruct (find_key l_state (N.div2 l) (a_latches a) 0) as [[j x]|] eqn:E2.
  { apply find_key_some in E2 as [Hin Hv]. apply in_or_app. right. apply in_or_app. left.
    apply in_map_iff. exists x. auto. }
  destruct (find_key g_out (N.div2 l) (a_gates a) 0) as [[j g]|] eqn:E3; [|discriminate].
  apply find_key_some in E3 as [Hin Hv]. apply in_or_app. right. apply in_or_app. right.
  apply in_map_iff. exists g. auto.
Qed.

(* without double definitions, evaluating a gate output evaluates both inputs with one unit of fuel less *)
Lemma eval_dep a ρ : wf_defs a -> forall f l b v,
  eval a ρ (S f) l = Some b -> dep a (N.div2 l) v ->
  exists l', N.div2 l' = v /\ exists b', eval a ρ f l' = Some b'.
Proof.
  intros Hwf f l b v H (g & Hg & Hout & Hin).
  unfold wf_defs, defined_vars in Hwf.
  inversion Hwf as [|? ? H0 Hnd]; subst.
  assert (Hgv : In (N.div2 l) (map (fun g => N.div2 (g_out g)) (a_gates a))).
  { rewrite <- Hout. apply in_map_iff. exists g. auto. }
  simpl in H.
  destruct (N.eqb_spec (N.div2 l) 0) as [E|E].
  { exfalso. apply H0. rewrite <- E. apply in_or_app. right. apply in_or_app. right. exact Hgv. }
  rewrite (find_key_none (fun x => x) (N.div2 l) (a_inputs a) 0) in H.
  2: { intros Hi. apply (NoDup_app_disj _ _ _ Hnd Hi). apply in_or_app. right. exact Hgv. }
  apply NoDup_app_r in Hnd.
  rewrite (find_key_none l_state (N.div2 l) (a_latches a) 0) in H.
  2: { intros Hi. exact (NoDup_app_disj _ _ _ Hnd Hi Hgv). }
  apply NoDup_app_r in Hnd.
  destruct (In_nth_error _ _ Hg) as [j Hj].
  pose proof (find_key_nodup g_out (a_gates a) 0 j g Hnd Hj) as Hf.
  rewrite Hout in Hf. rewrite Hf in H.
  destruct (eval a ρ f (g_in0 g)) as [x|] eqn:E0; [|discriminate].
  destruct (eval a ρ f (g_in1 g)) as [y|] eqn:E1; [|discriminate].
  destruct Hin as [<-|<-]; eauto.
Qed.

Lemma eval_reach a ρ : wf_defs a -> forall u v, clos_refl_trans_1n N (dep a) u v ->
  forall n l b, N.div2 l = u -> eval a ρ n l = Some b ->
  exists n' l' b', (n' <= n)%nat /\ N.div2 l' = v /\ eval a ρ n' l' = Some b'.
Proof.
  intros Hwf u v R. induction R as [x|x y z Hd R IH]; intros n l b Hl He.
  - exists n, l, b. auto.
  - destruct n as [|f]; [discriminate|]. rewrite <- Hl in Hd.
    destruct (eval_dep a ρ Hwf f l b y He Hd) as (l' & Hl' & b' & He').
    destruct (IH f l' b' Hl' He') as (n' & l'' & b'' & Hn & Hv & Hev).
    exists n', l'', b''. split; [lia|]. auto.
Qed.

Lemma eval_trans_less a ρ : wf_defs a -> forall u v, clos_trans_1n N (dep a) u v ->
  forall n l b, N.div2 l = u -> eval a ρ n l = Some b ->
  exists n' l' b', (n' < n)%nat /\ N.div2 l' = v /\ eval a ρ n' l' = Some b'.
Proof.
  intros Hwf u v R. induction R as [x y Hd|x y z Hd R IH]; intros n l b Hl He.
  - destruct n as [|f]; [discriminate|]. rewrite <- Hl in Hd.
    destruct (eval_dep a ρ Hwf f l b y He Hd) as (l' & Hl' & b' & He').
    exists f, l', b'. split; [lia|]. auto.
  - destruct n as [|f]; [discriminate|]. rewrite <- Hl in Hd.
    destruct (eval_dep a ρ Hwf f l b y He Hd) as (l' & Hl' & b' & He').
    destruct (IH f l' b' Hl' He') as (n' & l'' & b'' & Hn & Hv & Hev).
    exists n', l'', b''. split; [lia|]. auto.
Qed.

(* a variable with a value is not on a cycle: the fuel decreases along dep *)
Lemma eval_no_cycle a ρ : wf_defs a -> forall n l b,
  eval a ρ n l = Some b -> ~ clos_trans N (dep a) (N.div2 l) (N.div2 l).
Proof.
  intros Hwf n. induction n as [n IH] using lt_wf_ind. intros l b He Hc.
  pose proof Hc as Hc1. apply clos_trans_t1n in Hc1.
  destruct (eval_trans_less a ρ Hwf _ _ Hc1 n l b eq_refl He) as (n' & l' & b' & Hn & Hv & Hev).
  apply (IH n' Hn l' b' Hev). rewrite Hv. exact Hc.
Qed.

(* graph-level statements: a literal with a value under some assignment, in a graph without double
   definitions, reaches only defined variables, none of which is on a cycle *)
Theorem evals_reachable_defined a ρ l b v :
  wf_defs a -> evals a ρ l b -> clos_refl_trans N (dep a) (N.div2 l) v -> In v (defined_vars a).
Proof.
  intros Hwf [n He] R. apply clos_rt_rt1n in R.
  destruct (eval_reach a ρ Hwf _ _ R n l b eq_refl He) as (n' & l' & b' & _ & Hv & Hev).
  rewrite <- Hv. eapply eval_defined. exact Hev.
Qed.

Theorem evals_reachable_acyclic a ρ l b v :
  wf_defs a -> evals a ρ l b -> clos_refl_trans N (dep a) (N.div2 l) v -> ~ clos_trans N (dep a) v v.
Proof.
  intros Hwf [n He] R. apply clos_rt_rt1n in R.
  destruct (eval_reach a ρ Hwf _ _ R n l b eq_refl He) as (n' & l' & b' & _ & Hv & Hev).
  rewrite <- Hv. eapply eval_no_cycle; eauto.
Qed.

(* every root of a successful run has a lit_map entry and therefore a value in the original graph *)
Lemma renumber_ok_root_mapped cfg a o r root :
  renumber_aig cfg a = RnOk o r -> In root (roots cfg a) -> exists t, lm_get (r_map r) root = Some t.
Proof.
  intros H Hr. destruct (renumber_ok_inv cfg a o r H) as [Hn _].
  destruct (renumber_new_done cfg a r Hn) as (defs & _ & _ & _ & _ & Hroots & _).
  specialize (Hroots root Hr). apply lm_get_is_Some in Hroots. destruct Hroots as [t Ht]. eauto.
Qed.

Lemma renumber_ok_root_evals cfg a o r root ρ :
  renumber_aig cfg a = RnOk o r -> In root (roots cfg a) -> exists b, evals a ρ root b.
Proof.
  intros H Hr. destruct (renumber_ok_root_mapped cfg a o r root H Hr) as [t Ht].
  destruct (renumber_sound cfg a o r H) as [Hs _].
  destruct (Hs root t Ht ρ) as (b & Hb & _). eauto.
Qed.

(* COMPLETENESS, the two halves as stated in the task; all 8 option combinations, no hypothesis on the graph.
   roots cfg a = the literals handed to transfer by initialize: all gate outputs unless c_trim, then the
   latch next-state, output, bad, constraint, fairness and justice literals. *)
Theorem renumber_ok_reachable_defined : forall cfg a o r,
  renumber_aig cfg a = RnOk o r ->
  forall root v, In root (roots cfg a) -> clos_refl_trans N (dep a) (N.div2 root) v ->
    In v (defined_vars a).
Proof.
  intros cfg a o r H root v Hr R.
  destruct (renumber_ok_root_evals cfg a o r root (Assignment (fun _ => false) (fun _ => false)) H Hr) as [b Hb].
  exact (evals_reachable_defined a _ root b v (renumber_ok_wf cfg a o r H) Hb R).
Qed.

Theorem renumber_ok_reachable_acyclic : forall cfg a o r,
  renumber_aig cfg a = RnOk o r ->
  forall root v, In root (roots cfg a) -> clos_refl_trans N (dep a) (N.div2 root) v ->
    ~ clos_trans N (dep a) v v.
Proof.
  intros cfg a o r H root v Hr R.
  destruct (renumber_ok_root_evals cfg a o r root (Assignment (fun _ => false) (fun _ => false)) H Hr) as [b Hb].
  exact (evals_reachable_acyclic a _ root b v (renumber_ok_wf cfg a o r H) Hb R).
Qed.

(* the same for every literal with a lit_map entry of the final state (not only the roots) *)
Theorem renumber_ok_mapped_closed : forall cfg a o r l t,
  renumber_aig cfg a = RnOk o r -> lm_get (r_map r) l = Some t ->
  forall v, clos_refl_trans N (dep a) (N.div2 l) v ->
    In v (defined_vars a) /\ ~ clos_trans N (dep a) v v.
Proof.
  intros cfg a o r l t H Ht v R.
  destruct (renumber_sound cfg a o r H) as [Hs _].
  destruct (Hs l t Ht (Assignment (fun _ => false) (fun _ => false))) as (b & Hb & _).
  pose proof (renumber_ok_wf cfg a o r H) as Hwf. split.
  - exact (evals_reachable_defined a _ l b v Hwf Hb R).
  - exact (evals_reachable_acyclic a _ l b v Hwf Hb R).
Qed.

(* Rejection: a graph in which some root reaches a variable that is undefined or on a cycle yields an
   error (not a circuit, not a panic, not an exhausted loop); without double definitions the error is
   LitNotDefined or FoundCycle. *)
Definition bad_reachable (cfg : config) (a : aig) : Prop :=
  exists root v, In root (roots cfg a) /\ clos_refl_trans N (dep a) (N.div2 root) v /\
    (~ In v (defined_vars a) \/ clos_trans N (dep a) v v).

Theorem renumber_rejects_bad_reachable : forall cfg a,
  bad_reachable cfg a -> exists e, renumber_aig cfg a = RnErr e.
Proof.
  intros cfg a (root & v & Hr & R & Hbad).
  destruct (renumber_aig cfg a) as [o r|e| |] eqn:E.
  - exfalso. destruct Hbad as [Hu|Hc].
    + apply Hu. exact (renumber_ok_reachable_defined cfg a o r E root v Hr R).
    + exact (renumber_ok_reachable_acyclic cfg a o r E root v Hr R Hc).
  - eauto.
  - exfalso. exact (renumber_never_panics cfg a E).
  - exfalso. exact (renumber_terminates cfg a E).
Qed.

Theorem renumber_rejects_bad_reachable_wf : forall cfg a,
  wf_defs a -> bad_reachable cfg a ->
  exists l, renumber_aig cfg a = RnErr (LitNotDefined l) \/ renumber_aig cfg a = RnErr (FoundCycle l).
Proof.
  intros cfg a Hwf Hb. destruct (renumber_rejects_bad_reachable cfg a Hb) as [e He].
  destruct e as [l|l|l]; eauto.
  exfalso. apply (proj1 (renumber_wf_iff cfg a) Hwf l). exact He.
Qed.

(* non-vacuity.  Reachable cycles and reachable undefined literals are rejected, under all options off and all on:
   - the self loop 4 = 4 & 2 with output 4;
   - the 2-cycle 4 = 6 & 2, 6 = 5 & 2 with output 7;
   - a cycle behind a gate that constant folding would remove, 4 = 6 & 0, 6 = 4 & 2 with output 4: still rejected,
     since both inputs are transferred before const_fold looks at them;
   - 4 = 2 & 8 with output 4, variable 4 (code 8) undefined. *)
Example complete_examples :
  let off := Config false false false in
  let on := Config true true true in
  renumber_aig off (Aig 2 [2] [] [4] [] [] [] [] [AndGate 4 2 4]) = RnErr (FoundCycle 4) /\
  renumber_aig on (Aig 2 [2] [] [4] [] [] [] [] [AndGate 4 2 4]) = RnErr (FoundCycle 4) /\
  renumber_aig off (Aig 3 [2] [] [7] [] [] [] [] [AndGate 6 2 4; AndGate 5 2 6]) = RnErr (FoundCycle 6) /\
  renumber_aig on (Aig 3 [2] [] [7] [] [] [] [] [AndGate 6 2 4; AndGate 5 2 6]) = RnErr (FoundCycle 5) /\
  renumber_aig off (Aig 3 [2] [] [4] [] [] [] [] [AndGate 6 0 4; AndGate 4 2 6]) = RnErr (FoundCycle 6) /\
  renumber_aig on (Aig 3 [2] [] [4] [] [] [] [] [AndGate 6 0 4; AndGate 4 2 6]) = RnErr (FoundCycle 6) /\
  renumber_aig off (Aig 4 [2] [] [4] [] [] [] [] [AndGate 2 8 4]) = RnErr (LitNotDefined 8) /\
  renumber_aig on (Aig 4 [2] [] [4] [] [] [] [] [AndGate 2 8 4]) = RnErr (LitNotDefined 8).
Proof. vm_compute. repeat split. Qed.

(* the hypothesis of renumber_rejects_bad_reachable holds for the first graph (so the theorem applies to it) *)
Example complete_example_hyp : forall cfg, bad_reachable cfg (Aig 2 [2] [] [4] [] [] [] [] [AndGate 4 2 4]).
Proof.
  intros cfg. exists 4, 2. split; [|split].
  - unfold roots. apply in_or_app. right. simpl. auto.
  - apply rt_refl.
  - right. apply t_step. exists (AndGate 4 2 4). simpl. auto.
Qed.

(* reachability is necessary: with trim, a cycle or an undefined literal that no root reaches is dropped and a circuit
   is returned; without trim every gate output is a root and the same graphs are rejected. *)
Example complete_unreachable_examples :
  (exists o r, renumber_aig (Config true false false) (Aig 2 [2] [] [2] [] [] [] [] [AndGate 4 2 4]) = RnOk o r) /\
  renumber_aig (Config false false false) (Aig 2 [2] [] [2] [] [] [] [] [AndGate 4 2 4]) = RnErr (FoundCycle 4) /\
  (exists o r, renumber_aig (Config true false false) (Aig 4 [2] [] [2] [] [] [] [] [AndGate 2 8 4]) = RnOk o r) /\
  renumber_aig (Config false false false) (Aig 4 [2] [] [2] [] [] [] [] [AndGate 2 8 4]) = RnErr (LitNotDefined 8).
Proof. vm_compute. repeat split; eexists; eexists; reflexivity. Qed.

Print Assumptions renumber_ok_reachable_defined.
Print Assumptions renumber_ok_reachable_acyclic.
Print Assumptions renumber_ok_mapped_closed.
Print Assumptions renumber_rejects_bad_reachable.
Print Assumptions renumber_rejects_bad_reachable_wf.
