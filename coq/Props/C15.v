(* C15 — Parser combinators implement exact three-way choice semantics.
   This file holds only pinned statements, each closed by [exact] of a lemma
   from ParsedProofs.v, with its assumptions printed. *)
From Flussab Require Import Base Parsed ParsedProofs.

(* An alternative runs iff the previous result was a fallthrough; other inputs
   are returned unchanged. *)
Theorem C15_or_parse : forall (T E : Type) (p : parsed T E) (f : unit -> M (parsed T E)),
  Logs f ->
  (ran (or_parse p f) <-> is_ft p = true) /\
  (is_ft p = false -> or_parse p f = ret p) /\
  (is_ft p = true -> or_parse p f = f tt).
Proof. exact @or_parse_spec. Qed.
Print Assumptions C15_or_parse.

Theorem C15_or_always_parse : forall (T E : Type) (p : parsed T E) (f : unit -> M (result T E)),
  Logs f ->
  (ran (or_always_parse p f) <-> is_ft p = true) /\
  (forall r, p = Res r -> or_always_parse p f = ret r) /\
  (is_ft p = true -> or_always_parse p f = f tt).
Proof. exact @or_always_parse_spec. Qed.
Print Assumptions C15_or_always_parse.

Theorem C15_or_give_up : forall (T E : Type) (p : parsed T E) (f : unit -> M E),
  Logs f ->
  (ran (or_give_up p f) <-> is_ft p = true) /\
  (forall r, p = Res r -> or_give_up p f = ret r) /\
  (is_ft p = true -> fst (or_give_up p f) = Err (fst (f tt))).
Proof. exact @or_give_up_spec. Qed.
Print Assumptions C15_or_give_up.

Theorem C15_optional : forall (T E : Type) (p : parsed T E),
  match p with
  | Res (Ok v) => optional p = Ok (Some v)
  | Res (Err e) => optional p = Err e
  | Fallthrough => optional p = Ok None
  end.
Proof. exact @optional_spec. Qed.
Print Assumptions C15_optional.

Theorem C15_matches : forall (T E : Type) (p : parsed T E),
  match p with
  | Res (Ok v) => matches p = Ok true
  | Res (Err e) => matches p = Err e
  | Fallthrough => matches p = Ok false
  end.
Proof. exact @matches_spec. Qed.
Print Assumptions C15_matches.

Theorem C15_from_result : forall (T E : Type) (r : result T E),
  from_result r = Res r /\ is_ft (from_result r) = false.
Proof. exact @from_result_spec. Qed.
Print Assumptions C15_from_result.

(* A continuation runs iff the previous result was a success; its failure is
   committed, never turned back into a fallthrough. *)
Theorem C15_and_then : forall (T U E : Type) (p : parsed T E) (f : T -> M (result U E)),
  Logs f ->
  (ran (and_then p f) <-> is_ok p = true) /\
  (forall v, p = Res (Ok v) -> fst (and_then p f) = Res (fst (f v))) /\
  (forall e, p = Res (Err e) -> and_then p f = ret (Res (Err e))) /\
  (p = Fallthrough -> and_then p f = ret Fallthrough) /\
  (is_ok p = true -> is_ft (fst (and_then p f)) = false).
Proof. exact @and_then_spec. Qed.
Print Assumptions C15_and_then.

Theorem C15_and_also : forall (T E : Type) (p : parsed T E) (f : T -> M (T * result unit E)),
  Logs f ->
  (ran (and_also p f) <-> is_ok p = true) /\
  (forall v, p = Res (Ok v) ->
     fst (and_also p f) =
     match snd (fst (f v)) with
     | Ok _ => Res (Ok (fst (fst (f v))))
     | Err e => Res (Err e)
     end) /\
  (is_ok p = false -> and_also p f = ret p).
Proof. exact @and_also_spec. Qed.
Print Assumptions C15_and_also.

Theorem C15_and_do : forall (T E : Type) (p : parsed T E) (f : T -> M T),
  Logs f ->
  (ran (and_do p f) <-> is_ok p = true) /\
  (forall v, p = Res (Ok v) -> fst (and_do p f) = Res (Ok (fst (f v)))) /\
  (is_ok p = false -> and_do p f = ret p).
Proof. exact @and_do_spec. Qed.
Print Assumptions C15_and_do.

(* Mapping functions touch only the case they name. *)
Theorem C15_map : forall (T U E : Type) (p : parsed T E) (f : T -> M U),
  Logs f ->
  (ran (map p f) <-> is_ok p = true) /\
  (forall v, p = Res (Ok v) -> fst (map p f) = Res (Ok (fst (f v)))) /\
  (forall e, p = Res (Err e) -> map p f = ret (Res (Err e))) /\
  (p = Fallthrough -> map p f = ret Fallthrough).
Proof. exact @map_spec. Qed.
Print Assumptions C15_map.

Theorem C15_map_err : forall (T E E2 : Type) (p : parsed T E) (f : E -> M E2),
  Logs f ->
  (ran (map_err p f) <-> is_err p = true) /\
  (forall v, p = Res (Ok v) -> map_err p f = ret (Res (Ok v))) /\
  (forall e, p = Res (Err e) -> fst (map_err p f) = Res (Err (fst (f e)))) /\
  (p = Fallthrough -> map_err p f = ret Fallthrough).
Proof. exact @map_err_spec. Qed.
Print Assumptions C15_map_err.

Theorem C15_err_into : forall (T E E2 : Type) (p : parsed T E) (conv : E -> M E2),
  err_into conv p = map_err p conv.
Proof. exact @err_into_is_map_err. Qed.
Print Assumptions C15_err_into.

(* ResultExt *)
Theorem C15_result_err_into : forall (T E E2 : Type) (r : result T E) (conv : E -> M E2),
  Logs conv ->
  (ran (r_err_into conv r) <-> exists e, r = Err e) /\
  (forall v, r = Ok v -> r_err_into conv r = ret (Ok v)) /\
  (forall e, r = Err e -> fst (r_err_into conv r) = Err (fst (conv e))).
Proof. exact @r_err_into_spec. Qed.
Print Assumptions C15_result_err_into.

Theorem C15_result_and_also : forall (T E : Type) (r : result T E) (f : T -> M (T * result unit E)),
  Logs f ->
  (ran (r_and_also r f) <-> exists v, r = Ok v) /\
  (forall v, r = Ok v ->
     fst (r_and_also r f) =
     match snd (fst (f v)) with
     | Ok _ => Ok (fst (fst (f v)))
     | Err e => Err e
     end) /\
  (forall e, r = Err e -> r_and_also r f = ret (Err e)).
Proof. exact @r_and_also_spec. Qed.
Print Assumptions C15_result_and_also.

Theorem C15_result_and_do : forall (T E : Type) (r : result T E) (f : T -> M T),
  Logs f ->
  (ran (r_and_do r f) <-> exists v, r = Ok v) /\
  (forall v, r = Ok v -> fst (r_and_do r f) = Ok (fst (f v))) /\
  (forall e, r = Err e -> r_and_do r f = ret (Err e)).
Proof. exact @r_and_do_spec. Qed.
Print Assumptions C15_result_and_do.
