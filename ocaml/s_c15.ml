(* s_c15.ml — stream "c15": one combinator application per case.
   case:  c15 <comb> <input> <closure>
   trace: <result> calls=<k>            (k = number of closure invocations) *)
open Model
open Util

let tag = n_of_int 1

let parse_res (s : string) : (n, n) result =
  match String.split_on_char ':' s with
  | ["ok"; v] -> Ok (n_of_str v)
  | ["err"; e] -> Err (n_of_str e)
  | _ -> failwith ("bad result " ^ s)

let parse_parsed (s : string) : (n, n) parsed =
  if s = "ft" then Fallthrough else Res (parse_res s)

let show_res show_t (r : ('a, n) result) : string =
  match r with Ok v -> "ok:" ^ show_t v | Err e -> "err:" ^ str_of_n e

let show_parsed show_t (p : ('a, n) parsed) : string =
  match p with Fallthrough -> "ft" | Res r -> show_res show_t r

let show_opt (o : n option) = match o with None -> "none" | Some v -> "some(" ^ str_of_n v ^ ")"
let show_bool b = if b then "true" else "false"

let out (s : string) (log : n list) = Printf.sprintf "%s calls=%d" s (List.length log)

let run (toks : string list) : string =
  match toks with
  | [comb; input; clo] -> begin
      let p = parse_parsed input in
      let addn = function
        | s when String.length s > 0 && s.[0] = '+' ->
            n_of_str (String.sub s 1 (String.length s - 1))
        | s -> failwith ("bad add " ^ s) in
      match comb with
      | "or_parse" ->
          let (r, l) = or_parse p (fun () -> (parse_parsed clo, [tag])) in
          out (show_parsed str_of_n r) l
      | "or_always_parse" ->
          let (r, l) = or_always_parse p (fun () -> (parse_res clo, [tag])) in
          out (show_res str_of_n r) l
      | "or_give_up" ->
          let (r, l) = or_give_up p (fun () -> (n_of_str clo, [tag])) in
          out (show_res str_of_n r) l
      | "optional" -> out (show_res show_opt (optional p)) []
      | "matches" -> out (show_res show_bool (matches p)) []
      | "and_then" ->
          (* closure: ok:+k  -> Ok(v+k);  err:e -> Err(e) *)
          let f v = match String.split_on_char ':' clo with
            | ["ok"; k] -> (Ok (N.add v (addn k)), [tag])
            | ["err"; e] -> (Err (n_of_str e), [tag])
            | _ -> failwith "bad and_then closure" in
          let (r, l) = and_then p f in
          out (show_parsed str_of_n r) l
      | "and_also" | "r_and_also" ->
          (* closure: +k:ok  -> *v += k; Ok(())   |  +k:err:e -> *v += k; Err(e) *)
          let f v = match String.split_on_char ':' clo with
            | [k; "ok"] -> ((N.add v (addn k), Ok ()), [tag])
            | [k; "err"; e] -> ((N.add v (addn k), Err (n_of_str e)), [tag])
            | _ -> failwith "bad and_also closure" in
          if comb = "and_also" then
            let (r, l) = and_also p f in out (show_parsed str_of_n r) l
          else begin
            match p with
            | Res r0 -> let (r, l) = r_and_also r0 f in out (show_res str_of_n r) l
            | Fallthrough -> failwith "result input expected"
          end
      | "and_do" | "r_and_do" ->
          let f v = (N.add v (addn clo), [tag]) in
          if comb = "and_do" then
            let (r, l) = and_do p f in out (show_parsed str_of_n r) l
          else begin
            match p with
            | Res r0 -> let (r, l) = r_and_do r0 f in out (show_res str_of_n r) l
            | Fallthrough -> failwith "result input expected"
          end
      | "map" ->
          let (r, l) = map p (fun v -> (N.add v (addn clo), [tag])) in
          out (show_parsed str_of_n r) l
      | "map_err" ->
          let (r, l) = map_err p (fun e -> (N.add e (addn clo), [tag])) in
          out (show_parsed str_of_n r) l
      | "err_into" ->
          let (r, l) = err_into (fun e -> (N.add e (addn clo), [tag])) p in
          out (show_parsed str_of_n r) l
      | "r_err_into" -> begin
          match p with
          | Res r0 ->
              let (r, l) = r_err_into (fun e -> (N.add e (addn clo), [tag])) r0 in
              out (show_res str_of_n r) l
          | Fallthrough -> failwith "result input expected"
        end
      | "from_result" -> begin
          match p with
          | Res r0 -> out (show_parsed str_of_n (from_result r0)) []
          | Fallthrough -> failwith "result input expected"
        end
      | _ -> failwith ("unknown combinator " ^ comb)
    end
  | _ -> failwith "c15: expected <comb> <input> <closure>"
