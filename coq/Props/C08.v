(* C08 — Syntax errors point at the offending token.
   Pinned statements at the level the model reaches today: the LineReader primitives.  A give-up without a parked I/O
   error reports the current line number and column = position - line start + 1; line_at_offset moves the line start to
   position + offset and counts one line.  The invariant that ties line start / line number to the LF bytes of the
   input for the whole DIMACS parsers is pinned in the CnfSafe section below, the one for AIGER (ascii and binary) and
   BTOR2 in the last section; all of them are cross-checked by the location oracles of the harness. *)
From Flussab Require Import Base Parsed Reader Prog Text ProgProofs ScanProofs Cnf CnfProofs ErrProofs.

Theorem C08_give_up_column : forall pos lr v,
  s_take v = None ->
  srun (give_up_at pos lr) v =
  if pos <? l_start lr then APanic POverflow
  else ADone (ESyntax (l_line lr) (pos - l_start lr + 1), lr) (v_take v None).
Proof. exact srun_give_up_at_clean. Qed.
Print Assumptions C08_give_up_column.

(* all three give-ups are free of buffering questions: every admissible run is the run above *)
Theorem C08_give_ups_deterministic : forall pos lr,
  det (give_up_at pos lr) /\ det (give_up lr) /\ det (give_up_at_mark lr).
Proof. intros pos lr. split; [apply det_give_up_at|split; [apply det_give_up|apply det_give_up_at_mark]]. Qed.
Print Assumptions C08_give_ups_deterministic.

(* line_at_offset: one more line, starting offset bytes after the cursor *)
Theorem C08_line_at_offset : forall offset lr v,
  srun (line_at_offset offset lr) v =
  ADone (tt, {| l_line := l_line lr + 1; l_start := vcur v mod W64 + offset |}) v.
Proof. intros offset lr v. reflexivity. Qed.
Print Assumptions C08_line_at_offset.

(* non-vacuity: "p cnf 1 1\n1 x 0\n": the error is at line 2, column 3 *)
Example C08_example :
  exists v' lr', srun (parse_dimacs 40 KCnf 2147483647%Z false lrs_init)
                      (view_init [112;32;99;110;102;32;49;32;49;10;49;32;120;32;48;10] None)
    = ADone (Some (Some {| h_vars := 1; h_clauses := 1; h_extra := 0 |}), [], FErr (ESyntax 2 3), lr') v'.
Proof. do 2 eexists. vm_compute. reflexivity. Qed.

(* ------------------------------------------------------------------ *)
(* The DIMACS family and solver logs, end to end (Hoare.v, CnfSafe.v): the location of every syntax error of every
   admissible run.  loc_ok S l c: there are a line start ls and a position pos with ls <= pos <= |S|, no LF in
   S[ls, pos), c = pos - ls + 1, and ls / l are a genuine line start and its number: ls = 0 or S[ls-1] = LF, and
   l = 1 + number of LF bytes before ls.  One documented exception (second disjunct of line_ok): when the last line
   of the input is a comment (or a skipped log line) that ends with the input instead of an LF, the parser counts it
   as a terminated line, so an error at the end of the input is reported as (lines + 1, column 1).  Both cases are
   within the bounds the property states. *)
From Flussab Require Import Hoare CnfSafe.

Theorem C08_dimacs_error_location : forall fuel k maxd ignore_header S fail hdr items l c lr' v',
  Forall (fun b => b < 256) S -> nlen S < 2 ^ 62 -> (length S < fuel)%nat ->
  aruns (parse_dimacs fuel k maxd ignore_header lrs_init) (view_init S fail) (ADone (hdr, items, FErr (ESyntax l c), lr') v') ->
  loc_ok S l c.
Proof. exact parse_dimacs_error_location. Qed.
Print Assumptions C08_dimacs_error_location.

Theorem C08_log_error_location : forall fuel maxd ignore_unknown S fail l c lr' v',
  Forall (fun b => b < 256) S -> nlen S < 2 ^ 62 -> (length S < fuel)%nat ->
  aruns (parse_log fuel maxd ignore_unknown lrs_init) (view_init S fail) (ADone (Err (ESyntax l c), lr') v') ->
  loc_ok S l c.
Proof. exact parse_log_error_location. Qed.
Print Assumptions C08_log_error_location.

(* what loc_ok means, spelled out *)
Theorem C08_loc_ok_unfolded : forall S l c,
  loc_ok S l c <->
  exists ls pos, ls <= pos /\ pos <= nlen S /\ (forall i, ls <= i -> i < pos -> nnth S i <> Some 10) /\
    (((ls = 0 \/ nnth S (ls - 1) = Some 10) /\ l = 1 + count_lf (nfirstn ls S)) \/
     (ls = nlen S /\ 0 < ls /\ nnth S (ls - 1) <> Some 10 /\ l = 2 + count_lf S)) /\
    c = pos - ls + 1.
Proof. intros S l c. reflexivity. Qed.
Print Assumptions C08_loc_ok_unfolded.

(* ... as a function of the position (line_col_of walks the input counting LF bytes), and the bounds of the property *)
Theorem C08_dimacs_error_location_spec : forall fuel k maxd ignore_header S fail hdr items l c lr' v',
  Forall (fun b => b < 256) S -> nlen S < 2 ^ 62 -> (length S < fuel)%nat ->
  aruns (parse_dimacs fuel k maxd ignore_header lrs_init) (view_init S fail) (ADone (hdr, items, FErr (ESyntax l c), lr') v') ->
  loc_spec S l c /\ 1 <= l <= count_lf S + 2 /\ 1 <= c <= nlen S + 1.
Proof. exact parse_dimacs_error_location_spec. Qed.
Print Assumptions C08_dimacs_error_location_spec.

Theorem C08_log_error_location_spec : forall fuel maxd ignore_unknown S fail l c lr' v',
  Forall (fun b => b < 256) S -> nlen S < 2 ^ 62 -> (length S < fuel)%nat ->
  aruns (parse_log fuel maxd ignore_unknown lrs_init) (view_init S fail) (ADone (Err (ESyntax l c), lr') v') ->
  loc_spec S l c /\ 1 <= l <= count_lf S + 2 /\ 1 <= c <= nlen S + 1.
Proof. exact parse_log_error_location_spec. Qed.
Print Assumptions C08_log_error_location_spec.

(* the exception is real: "p cnf 1 2\n1 0\nc x" reports the missing clause at line 4, column 1 *)
Example C08_unterminated_comment_line :
  let S := [112; 32; 99; 110; 102; 32; 49; 32; 50; 10; 49; 32; 48; 10; 99; 32; 120] in
  exists v', srun (parse_dimacs 100 KCnf 2147483647%Z false lrs_init) (view_init S None)
             = ADone (Some (Some {| h_vars := 1; h_clauses := 2; h_extra := 0 |}), [(0%Z, [1%Z])],
                      FErr (ESyntax 4 1), {| l_line := 4; l_start := 17 |}) v'.
Proof. eexists. vm_compute. reflexivity. Qed.

(* ------------------------------------------------------------------ *)
(* AIGER and BTOR2, end to end, every admissible run (AigerSafe.v, Btor2Safe.v).  ASCII AIGER, binary AIGER and BTOR2:
   the reported (line, column) is exactly line_col_of S pos for a position pos of the input (no exception at all).
   For binary AIGER this holds since flussab 530b52f: a byte 10 that ends a delta code of the and-gate section is
   counted as a line break (before: defect D15, the former known finding K1; its witness is pinned below as a positive
   example). *)
From Flussab Require Import Consts Aiger AigerProofs AigerSafe AigerLimits Btor2 Btor2Proofs Btor2Safe.

Theorem C08_aag_error_location : forall fuel maxc S fail ohd items l c lr' v',
  Forall (fun b => b < 256) S -> nlen S < 2 ^ 62 -> (length S < fuel)%nat ->
  aruns (parse_aag fuel maxc lrs_init) (view_init S fail) (ADone (ohd, items, FErr (ESyntax l c), lr') v') ->
  loc_ok S l c.
Proof. exact parse_aag_error_location. Qed.
Print Assumptions C08_aag_error_location.

Theorem C08_aag_error_position : forall fuel maxc S fail ohd items l c lr' v',
  Forall (fun b => b < 256) S -> nlen S < 2 ^ 62 -> (length S < fuel)%nat ->
  aruns (parse_aag fuel maxc lrs_init) (view_init S fail) (ADone (ohd, items, FErr (ESyntax l c), lr') v') ->
  exists pos, pos <= nlen S /\ (l, c) = line_col_of S pos.
Proof. exact parse_aag_error_position. Qed.
Print Assumptions C08_aag_error_position.

Theorem C08_aig_error_location : forall fuel maxc S fail ohd items l c lr' v',
  Forall (fun b => b < 256) S -> nlen S < 2 ^ 62 -> (length S < fuel)%nat ->
  aruns (parse_aig fuel maxc lrs_init) (view_init S fail) (ADone (ohd, items, FErr (ESyntax l c), lr') v') ->
  loc_ok S l c.
Proof. exact parse_aig_error_location. Qed.
Print Assumptions C08_aig_error_location.

Theorem C08_aig_error_position : forall fuel maxc S fail ohd items l c lr' v',
  Forall (fun b => b < 256) S -> nlen S < 2 ^ 62 -> (length S < fuel)%nat ->
  aruns (parse_aig fuel maxc lrs_init) (view_init S fail) (ADone (ohd, items, FErr (ESyntax l c), lr') v') ->
  exists pos, pos <= nlen S /\ (l, c) = line_col_of S pos.
Proof. exact parse_aig_error_position. Qed.
Print Assumptions C08_aig_error_position.

Theorem C08_btor2_error_location : forall fuel S fail items l c lr' v',
  Forall (fun b => b < 256) S -> nlen S < 2 ^ 62 -> (length S < fuel)%nat ->
  aruns (parse_btor2 fuel lrs_init) (view_init S fail) (ADone (items, FErr (ESyntax l c), lr') v') ->
  loc_ok S l c /\ exists pos, pos <= nlen S /\ (l, c) = line_col_of S pos.
Proof. exact parse_btor2_error_location. Qed.
Print Assumptions C08_btor2_error_location.

(* the witness of the former K1: "aig 5 0 0 0 5\n" + 02 00 04 00 06 00 08 00 0A 00 + "x": the x is at 3:2 and is reported
   there (before the fix: 2:11, which is no position of the input) *)
Example C08_aig_lf_in_gates_example :
  (exists v', srun (parse_aig 100 max_code_u8 lrs_init) (view_init k1_bytes None)
              = ADone (Some (mk_header 5 0 0 0 5 0 0 0 0), [IOAnd 0 0; IOAnd 0 0; IOAnd 0 0; IOAnd 0 0; IOAnd 0 0],
                       FErr (ESyntax 3 2), {| l_line := 3; l_start := 23 |}) v') /\
  line_col_of k1_bytes 24 = (3, 2) /\ ~ loc_ok k1_bytes 2 11.
Proof. exact (conj k1_reported (conj k1_true_position k1_old_location_wrong)). Qed.
