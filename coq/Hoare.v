(* Hoare.v — a small weakest-precondition / Hoare logic over the abstract semantics of parser
   programs, the invariant of LineReader programs (cursor within the buffered data, error not taken,
   line bookkeeping in step with the stream), and continuation-style specifications of the reader
   operations and of the text.rs scanners.  CnfSafe.v uses it to prove that the DIMACS-family and
   solver-log parsers never get stuck, never panic and never run out of fuel, and that the errors
   they report are the right ones at the right place. *)
From Flussab Require Import Base Reader ListN Writer Parsed Prog Text TextSpec ProgProofs ScanProofs DigitsProofs.
From Flussab Require Import Simulation Consts Cnf CnfProofs ErrProofs.
Ltac Zify.zify_post_hook ::= Z.to_euclidean_division_equations.

(* ================================================================== *)
(* 1. weakest preconditions on programs                                 *)

(* every admissible run of p from v finishes normally, in a state satisfying Q *)
Definition runs_to {A} (p : prog A) (v : view) (Q : A -> view -> Prop) : Prop :=
  forall r, aruns p v r -> exists a v', r = ADone a v' /\ Q a v'.

Lemma rt_ret {A} (a : A) v (Q : A -> view -> Prop) : Q a v -> runs_to (Ret a) v Q.
Proof. intros H r Hr. apply aruns_ret_inv in Hr. subst. eauto. Qed.

Lemma rt_conseq {A} (p : prog A) v (Q Q' : A -> view -> Prop) :
  runs_to p v Q -> (forall a v', Q a v' -> Q' a v') -> runs_to p v Q'.
Proof. intros H HQ r Hr. destruct (H r Hr) as (a & v' & -> & Hq). eauto. Qed.

Lemma rt_bind {A B} (p : prog A) (f : A -> prog B) v (Q : B -> view -> Prop) :
  runs_to p v (fun a v' => runs_to (f a) v' Q) -> runs_to (pbind p f) v Q.
Proof.
  intros H r Hr. destruct (aruns_bind_inv p f v r Hr) as [(a & v' & Hp & Hf)|(r0 & Hp & Hab)].
  - destruct (H _ Hp) as (a' & v'' & E & Hq). inversion E; subst. exact (Hq r Hf).
  - destruct (H _ Hp) as (a' & v'' & -> & _). destruct r; cbn in Hab; contradiction.
Qed.

(* programs without a fast-path test: the one run is the simple run *)
Lemma rt_det {A} (p : prog A) v a v' (Q : A -> view -> Prop) :
  det p -> srun p v = ADone a v' -> Q a v' -> runs_to p v Q.
Proof. intros Hd Hs Hq r Hr. rewrite (det_aruns _ _ _ Hr Hd), Hs. eauto. Qed.

(* what every run preserves or only increases *)
Lemma aruns_mono {A} (p : prog A) v r : aruns p v r -> WFV v -> forall a v', r = ADone a v' ->
  vhwm v <= vhwm v' /\ vfail v' = vfail v /\ vcur v <= vcur v'.
Proof.
  induction 1; intros Hwf a0 v0 E; try discriminate.
  - inversion E; subst. split; [lia|]. split; [reflexivity|lia].
  - destruct (IHaruns (WFV_after_peek v k Hwf) a0 v0 E) as (h1 & h2 & h3).
    cbn [after_peek vhwm vfail vcur] in *. unfold WFV in Hwf.
    split; [destruct (vpeek v k); lia|]. split; assumption.
  - destruct (IHaruns Hwf a0 v0 E) as (h1 & h2 & h3). cbn [v_advance vhwm vfail vcur] in *.
    split; [lia|]. split; [assumption|lia].
  - destruct (IHaruns (WFV_loaded v off o Hwf H) a0 v0 E) as (h1 & h2 & h3). cbn [v_loaded vhwm vfail vcur] in *.
    split; [destruct o; lia|]. split; assumption.
  - exact (IHaruns Hwf a0 v0 E).
  - exact (IHaruns Hwf a0 v0 E).
  - exact (IHaruns Hwf a0 v0 E).
  - exact (IHaruns Hwf a0 v0 E).
  - exact (IHaruns Hwf a0 v0 E).
  - exact (IHaruns Hwf a0 v0 E).
Qed.

(* ================================================================== *)
(* 2. weakest preconditions on LineReader programs, and Hoare triples   *)

Definition prt {A} (m : PM A) (lr : lrs) (v : view) (Q : A -> lrs -> view -> Prop) : Prop :=
  runs_to (m lr) v (fun x v' => Q (fst x) (snd x) v').

Definition ptriple {A} (P : lrs -> view -> Prop) (m : PM A) (Q : A -> lrs -> view -> Prop) : Prop :=
  forall lr v r, P lr v -> aruns (m lr) v r -> exists a lr' v', r = ADone (a, lr') v' /\ Q a lr' v'.

Lemma ptriple_prt {A} (P : lrs -> view -> Prop) (m : PM A) (Q : A -> lrs -> view -> Prop) :
  ptriple P m Q <-> (forall lr v, P lr v -> prt m lr v Q).
Proof.
  split.
  - intros H lr v HP r Hr. destruct (H lr v r HP Hr) as (a & lr' & v' & -> & Hq). exists (a, lr'), v'. split; [reflexivity|exact Hq].
  - intros H lr v r HP Hr. destruct (H lr v HP r Hr) as ([a lr'] & v' & -> & Hq). exists a, lr', v'. split; [reflexivity|exact Hq].
Qed.

Lemma prt_elim {A} (m : PM A) lr v (Q : A -> lrs -> view -> Prop) r :
  prt m lr v Q -> aruns (m lr) v r -> exists a lr' v', r = ADone (a, lr') v' /\ Q a lr' v'.
Proof. intros H Hr. destruct (H r Hr) as ([a lr'] & v' & -> & Hq). exists a, lr', v'. split; [reflexivity|exact Hq]. Qed.

Lemma prt_pret {A} (a : A) lr v (Q : A -> lrs -> view -> Prop) : Q a lr v -> prt (pret a) lr v Q.
Proof. intros H. unfold prt, pret. apply rt_ret. exact H. Qed.

Lemma prt_conseq {A} (m : PM A) lr v (Q Q' : A -> lrs -> view -> Prop) :
  prt m lr v Q -> (forall a lr' v', Q a lr' v' -> Q' a lr' v') -> prt m lr v Q'.
Proof. intros H HQ. unfold prt in *. eapply rt_conseq; [exact H|]. intros [a s] v'. cbn [fst snd]. apply HQ. Qed.

Lemma prt_pbnd {A B} (m : PM A) (f : A -> PM B) lr v (Q : B -> lrs -> view -> Prop) :
  prt m lr v (fun a lr' v' => prt (f a) lr' v' Q) -> prt (pbnd m f) lr v Q.
Proof.
  intros H. unfold prt, pbnd in *. apply rt_bind. eapply rt_conseq; [exact H|].
  intros [a s] v'. cbn [fst snd]. intros Hq. exact Hq.
Qed.

Lemma prt_lift {A} (p : prog A) lr v (Q : A -> lrs -> view -> Prop) :
  runs_to p v (fun a v' => Q a lr v') -> prt (lift p) lr v Q.
Proof.
  intros H. unfold prt, lift. apply rt_bind. eapply rt_conseq; [exact H|].
  intros a v' Hq. apply rt_ret. exact Hq.
Qed.

Lemma prt_ppeek k lr v (Q : option byte -> lrs -> view -> Prop) :
  Q (vpeek v k) lr (after_peek v k) -> prt (ppeek k) lr v Q.
Proof. intros H. apply prt_lift. eapply rt_det; [cbn [det]; intros; exact I|cbn [srun]; reflexivity|exact H]. Qed.

Lemma prt_padvance n lr v (Q : unit -> lrs -> view -> Prop) :
  vcur v + n <= vhwm v -> Q tt lr (v_advance v n) -> prt (padvance n) lr v Q.
Proof.
  intros Hn H. apply prt_lift. eapply rt_det; [cbn [det]; exact I| |exact H].
  cbn [srun]. assert ((vcur v + n <=? vhwm v) = true) as -> by (apply N.leb_le; exact Hn). reflexivity.
Qed.

Lemma prt_pset_mark lr v (Q : unit -> lrs -> view -> Prop) : Q tt lr (v_setmark v) -> prt pset_mark lr v Q.
Proof. intros H. apply prt_lift. eapply rt_det; [cbn [det]; exact I|cbn [srun]; reflexivity|exact H]. Qed.

Lemma prt_get_lrs lr v (Q : lrs -> lrs -> view -> Prop) : Q lr lr v -> prt get_lrs lr v Q.
Proof. intros H. unfold prt, get_lrs. apply rt_ret. exact H. Qed.

Lemma prt_set_lrs s lr v (Q : unit -> lrs -> view -> Prop) : Q tt s v -> prt (set_lrs s) lr v Q.
Proof. intros H. unfold prt, set_lrs. apply rt_ret. exact H. Qed.

Lemma prt_getpos lr v (Q : N -> lrs -> view -> Prop) : Q (vcur v mod W64) lr v -> prt (lift (GetPos Ret)) lr v Q.
Proof. intros H. apply prt_lift. eapply rt_det; [cbn [det]; intros; exact I|cbn [srun]; reflexivity|exact H]. Qed.

Lemma prt_getmark lr v (Q : N -> lrs -> view -> Prop) : Q (vmark v mod W64) lr v -> prt (lift (GetMark Ret)) lr v Q.
Proof. intros H. apply prt_lift. eapply rt_det; [cbn [det]; intros; exact I|cbn [srun]; reflexivity|exact H]. Qed.

Lemma prt_isatend lr v (Q : bool -> lrs -> view -> Prop) : Q (s_atend v) lr v -> prt (lift (IsAtEnd Ret)) lr v Q.
Proof. intros H. apply prt_lift. eapply rt_det; [cbn [det]; intros; exact I|cbn [srun]; reflexivity|exact H]. Qed.

Lemma prt_errparked lr v (Q : bool -> lrs -> view -> Prop) : Q (s_parked v) lr v -> prt (lift (ErrParked Ret)) lr v Q.
Proof. intros H. apply prt_lift. eapply rt_det; [cbn [det]; intros; exact I|cbn [srun]; reflexivity|exact H]. Qed.

Lemma prt_takeerr lr v (Q : option N -> lrs -> view -> Prop) :
  Q (s_take v) lr (v_take v (s_take v)) -> prt (lift (TakeErr Ret)) lr v Q.
Proof. intros H. apply prt_lift. eapply rt_det; [cbn [det]; intros; exact I|cbn [srun]; reflexivity|exact H]. Qed.

(* ================================================================== *)
(* 3. lines of a stream                                                 *)

Fixpoint count_lf (l : bytes) : N :=
  match l with
  | [] => 0
  | b :: r => (if b =? 10 then 1 else 0) + count_lf r
  end.

(* no LF at the positions a <= i < b *)
Definition nolf (S : bytes) (a b : N) : Prop := forall i, a <= i -> i < b -> nnth S i <> Some 10.

Lemma count_lf_app a b : count_lf (a ++ b) = count_lf a + count_lf b.
Proof. induction a as [|x a IH]; cbn [app count_lf]; [lia|]. rewrite IH. lia. Qed.

Lemma count_lf_none l : Forall (fun b => b <> 10) l -> count_lf l = 0.
Proof.
  induction 1 as [|x l Hx Hl IH]; cbn [count_lf]; [reflexivity|].
  assert ((x =? 10) = false) as -> by (apply N.eqb_neq; exact Hx). lia.
Qed.

Lemma nolf_trans S a b c : nolf S a b -> nolf S b c -> nolf S a c.
Proof. intros H1 H2 i Hi1 Hi2. destruct (N.lt_ge_cases i b); [apply H1|apply H2]; assumption. Qed.

Lemma nolf_weaken S a b a' b' : nolf S a b -> a <= a' -> b' <= b -> nolf S a' b'.
Proof. intros H Ha Hb i Hi1 Hi2. apply H; lia. Qed.

Lemma nolf_empty S a b : b <= a -> nolf S a b.
Proof. intros H i Hi1 Hi2. lia. Qed.

Lemma nolf_one S a x : nnth S a = Some x -> x <> 10 -> nolf S a (a + 1).
Proof. intros H Hx i Hi1 Hi2. replace i with a by lia. unfold bytes, byte in *. rewrite H. congruence. Qed.

(* the bytes of a prefix of the rest of the stream at a *)
Lemma nolf_span (S : bytes) a (p r : bytes) :
  nskipn a S = p ++ r -> Forall (fun x => x <> 10) p -> nolf S a (a + nlen p).
Proof.
  intros E Hp i Hi1 Hi2 Hn.
  assert (Hi : nnth S i = nnth p (i - a)).
  { replace i with (a + (i - a)) at 1 by lia. rewrite <- nnth_nskipn, E. apply nnth_app_l. lia. }
  rewrite Hi in Hn. unfold nnth in Hn. apply nth_error_In in Hn.
  rewrite Forall_forall in Hp. exact (Hp _ Hn eq_refl).
Qed.

Lemma span_len (S : bytes) a (p r : bytes) : nskipn a S = p ++ r -> a <= nlen S -> a + nlen p <= nlen S.
Proof.
  intros E Ha. assert (H : nlen (nskipn a S) = nlen p + nlen r) by (rewrite E; apply nlen_app).
  rewrite nlen_nskipn in H. lia.
Qed.

Lemma nnth_span (S : bytes) a (p r : bytes) i x :
  nskipn a S = p ++ r -> nnth p i = Some x -> nnth S (a + i) = Some x.
Proof.
  intros E H. rewrite <- nnth_nskipn, E. rewrite nnth_app_l; [exact H|]. eapply nnth_some_lt; exact H.
Qed.

Lemma nnth_span_r (S : bytes) a (p r : bytes) i :
  nskipn a S = p ++ r -> nnth S (a + nlen p + i) = nnth r i.
Proof.
  intros E. replace (a + nlen p + i) with (a + (nlen p + i)) by lia. rewrite <- nnth_nskipn, E.
  unfold nnth, nlen. rewrite nth_error_app2 by lia. f_equal. lia.
Qed.

Lemma nskipn_span (S : bytes) a (p r : bytes) : nskipn a S = p ++ r -> nskipn (a + nlen p) S = r.
Proof.
  intros E. replace (a + nlen p) with (nlen p + a) by lia. rewrite <- nskipn_nskipn, E.
  unfold nskipn, nlen. rewrite Nat2N.id. apply skipn_app_exact. reflexivity.
Qed.

(* counting over an LF-free stretch *)
Lemma count_lf_nolf S a b : nolf S a b -> a <= b -> count_lf (nfirstn b S) = count_lf (nfirstn a S).
Proof.
  intros H Hab. rewrite <- (nfirstn_split S a b Hab), count_lf_app.
  rewrite (count_lf_none (nfirstn (b - a) (nskipn a S))); [lia|].
  apply Forall_forall. intros x Hx Hx10. subst x.
  apply In_nth_error in Hx. destruct Hx as [n Hn].
  assert (Hlt : (n < N.to_nat (b - a))%nat).
  { assert (Hs : nth_error (nfirstn (b - a) (nskipn a S)) n <> None) by (unfold bytes, byte in *; rewrite Hn; discriminate).
    apply nth_error_Some in Hs. unfold nfirstn in Hs. rewrite firstn_length in Hs. lia. }
  unfold nfirstn, nskipn in Hn. rewrite nth_error_firstn in Hn by exact Hlt. rewrite nth_error_skipn in Hn.
  apply (H (a + N.of_nat n)); [lia|lia|]. unfold nnth. rewrite <- Hn. f_equal. lia.
Qed.

Lemma count_lf_step S p x : nnth S p = Some x ->
  count_lf (nfirstn (p + 1) S) = count_lf (nfirstn p S) + (if x =? 10 then 1 else 0).
Proof.
  intros H. unfold nnth in H. apply nth_error_split in H. destruct H as (l1 & l2 & -> & Hl).
  unfold nfirstn. replace (N.to_nat (p + 1)) with (length l1 + 1)%nat by lia. rewrite <- Hl.
  rewrite firstn_plus. rewrite firstn_app_exact by reflexivity. rewrite skipn_app_exact by reflexivity.
  cbn [firstn]. rewrite count_lf_app. cbn [count_lf]. lia.
Qed.

(* the LineReader's idea of the current line: ls is where it starts, ln its number.
   Normally ls is 0 or just after an LF and ln is one more than the number of LFs before ls.
   The one exception: comment / interactive_skip_line count a last line that ends with the input instead
   of an LF as a line of its own; after it ls is the end of the input and ln is one too high. *)
Definition line_ok (S : bytes) (ls ln : N) : Prop :=
  ((ls = 0 \/ nnth S (ls - 1) = Some 10) /\ ln = 1 + count_lf (nfirstn ls S)) \/
  (ls = nlen S /\ 0 < ls /\ nnth S (ls - 1) <> Some 10 /\ ln = 2 + count_lf S).

(* l, c is a correct (line, column) for some position pos of S (pos = nlen S: the end of the input) *)
Definition loc_ok (S : bytes) (l c : N) : Prop :=
  exists ls pos, ls <= pos /\ pos <= nlen S /\ nolf S ls pos /\ line_ok S ls l /\ c = pos - ls + 1.

(* a line break at p (the LF itself, or the end of the input) following an LF-free stretch from ls *)
Lemma line_ok_next S ls ln p :
  line_ok S ls ln -> ls <= p -> p <= nlen S -> nolf S ls p ->
  (nnth S p = Some 10 -> line_ok S (p + 1) (ln + 1)) /\
  (p = nlen S -> ls < p -> line_ok S p (ln + 1)).
Proof.
  intros [[Hs Hn]|(Hs & Hpos & Hlast & Hn)] Hlp Hpn Hnolf.
  - split.
    + intros Hp. left. split; [right; replace (p + 1 - 1) with p by lia; exact Hp|].
      rewrite (count_lf_step S p 10 Hp). rewrite (count_lf_nolf S ls p Hnolf Hlp). rewrite Hn.
      change (10 =? 10) with true. cbv iota. lia.
    + intros Hp Hlt. right. split; [exact Hp|]. split; [lia|]. split.
      * apply Hnolf; lia.
      * rewrite Hn. rewrite <- (count_lf_nolf S ls p Hnolf Hlp). subst p. rewrite nfirstn_all by lia. lia.
  - split.
    + intros Hp. apply nnth_some_lt in Hp. lia.
    + intros Hp Hlt. lia.
Qed.

(* ---------- the same, as a function: (line, column) of a position, counting from the start ---------- *)
Fixpoint line_col (str : bytes) (pos : nat) (l c : N) {struct pos} : N * N :=
  match pos with
  | O => (l, c)
  | Datatypes.S p =>
      match str with
      | [] => (l, c)
      | b :: r => if b =? 10 then line_col r p (l + 1) 1 else line_col r p l (c + 1)
      end
  end.

(* 1-based line and column of position pos (0-based; nlen str is the end of the input) *)
Definition line_col_of (str : bytes) (pos : N) : N * N := line_col str (N.to_nat pos) 1 1.

(* what the parsers report for an error at pos: its line and column -- except after a last line that ends
   with the input instead of an LF and was skipped as a comment: then one line further, column 1 *)
Definition loc_spec (str : bytes) (l c : N) : Prop :=
  exists pos, pos <= nlen str /\
    ((l, c) = line_col_of str pos \/
     (pos = nlen str /\ 0 < nlen str /\ nnth str (nlen str - 1) <> Some 10 /\
      l = fst (line_col_of str pos) + 1 /\ c = 1)).

Lemma line_col_app a : forall b m l c,
  line_col (a ++ b) (length a + m) l c = line_col b m (fst (line_col a (length a) l c)) (snd (line_col a (length a) l c)).
Proof.
  induction a as [|x a IH]; intros b m l c; [reflexivity|].
  cbn [app length Nat.add line_col]. destruct (x =? 10); apply IH.
Qed.

Lemma line_col_nolf a : forall l c, Forall (fun x => x <> 10) a -> line_col a (length a) l c = (l, c + nlen a).
Proof.
  induction a as [|x a IH]; intros l c H; [cbn [length line_col]; f_equal; unfold nlen; cbn [length]; lia|].
  inversion H as [|? ? Hx Ha]; subst. cbn [length line_col].
  assert ((x =? 10) = false) as -> by (apply N.eqb_neq; exact Hx). rewrite IH by exact Ha.
  f_equal. unfold nlen; cbn [length]; lia.
Qed.

Lemma line_col_fst a : forall l c, fst (line_col a (length a) l c) = l + count_lf a.
Proof.
  induction a as [|x a IH]; intros l c; [cbn [length line_col fst count_lf]; lia|].
  cbn [length line_col count_lf]. destruct (x =? 10); rewrite IH; lia.
Qed.

Lemma line_col_lf a l c : snd (line_col (a ++ [10]) (length (a ++ [10])) l c) = 1.
Proof.
  rewrite app_length. cbn [length]. rewrite line_col_app. cbn [line_col].
  change (10 =? 10) with true. cbv iota. reflexivity.
Qed.

Lemma nolf_Forall S a b : nolf S a b -> Forall (fun x => x <> 10) (nfirstn (b - a) (nskipn a S)).
Proof.
  intros H. apply Forall_forall. intros x Hx Hx10. subst x.
  apply In_nth_error in Hx. destruct Hx as [n Hn].
  assert (Hlt : (n < N.to_nat (b - a))%nat).
  { assert (Hs : nth_error (nfirstn (b - a) (nskipn a S)) n <> None) by (unfold bytes, byte in *; rewrite Hn; discriminate).
    apply nth_error_Some in Hs. unfold nfirstn in Hs. rewrite firstn_length in Hs. lia. }
  unfold nfirstn, nskipn in Hn. rewrite nth_error_firstn in Hn by exact Hlt. rewrite nth_error_skipn in Hn.
  apply (H (a + N.of_nat n)); [lia|lia|]. unfold nnth. rewrite <- Hn. f_equal. lia.
Qed.

Lemma count_lf_prefix_le S n : count_lf (nfirstn n S) <= count_lf S.
Proof.
  unfold nfirstn. rewrite <- (firstn_skipn (N.to_nat n) S) at 2. rewrite count_lf_app. lia.
Qed.

Lemma loc_ok_spec S l c : loc_ok S l c -> loc_spec S l c.
Proof.
  intros (ls & pos & Hlp & Hpn & Hnolf & Hline & ->). exists pos. split; [exact Hpn|].
  destruct Hline as [[Hs Hn]|(Hs & Hpos & Hlast & Hn)].
  - left. unfold line_col_of.
    set (A := nfirstn ls S). set (M := nfirstn (pos - ls) (nskipn ls S)). set (R := nskipn pos S).
    assert (HS : S = A ++ (M ++ R)).
    { unfold A, M, R. rewrite app_assoc. rewrite (nfirstn_split S ls pos Hlp). unfold nfirstn, nskipn.
      symmetry. apply firstn_skipn. }
    assert (HlA : length A = N.to_nat ls) by (unfold A, nfirstn, nlen in *; rewrite firstn_length; lia).
    assert (HlM : length M = N.to_nat (pos - ls)).
    { unfold M, nfirstn, nskipn, nlen in *. rewrite firstn_length, skipn_length. lia. }
    assert (HM : Forall (fun x => x <> 10) M) by (apply nolf_Forall; exact Hnolf).
    rewrite HS at 1. replace (N.to_nat pos) with (length A + (length M + 0))%nat by lia.
    rewrite line_col_app, line_col_app. cbn [line_col].
    rewrite (line_col_nolf M _ _ HM). cbn [fst snd]. rewrite line_col_fst. apply f_equal2; [exact Hn|].
    assert (Hc1 : snd (line_col A (length A) 1 1) = 1).
    { destruct (N.eq_dec ls 0) as [E0|E0].
      - unfold A. rewrite E0. reflexivity.
      - destruct Hs as [Hs|Hs]; [contradiction|].
        pose proof (nnth_some_lt _ _ _ Hs) as Hlt1.
        assert (HA : nfirstn ls S = nfirstn (ls - 1) S ++ [10]).
        { rewrite <- (nfirstn_split S (ls - 1) ls) by lia. f_equal.
          unfold nnth in Hs. apply nth_error_split in Hs. destruct Hs as (l1 & l2 & HS2 & Hl1).
          unfold nskipn. rewrite HS2 at 1. rewrite skipn_app_exact by exact Hl1.
          replace (ls - (ls - 1)) with 1 by lia. reflexivity. }
        unfold A. rewrite HA. apply line_col_lf. }
    rewrite Hc1. unfold nlen. unfold bytes, byte in *. lia.
  - right. assert (pos = nlen S) by lia. subst pos. split; [reflexivity|]. split; [lia|]. rewrite <- Hs at 1.
    split; [exact Hlast|]. unfold line_col_of. unfold nlen at 1. rewrite Nat2N.id. rewrite line_col_fst.
    split; lia.
Qed.

(* hence the bounds: the line is at most one more than the number of LFs, plus one in the exceptional case *)
Lemma loc_ok_bounds S l c : loc_ok S l c -> 1 <= l /\ l <= count_lf S + 2 /\ 1 <= c /\ c <= nlen S + 1.
Proof.
  intros (ls & pos & Hlp & Hpn & Hnolf & Hline & ->).
  destruct Hline as [[Hs ->]|(Hs & Hpos & Hlast & ->)].
  - pose proof (count_lf_prefix_le S ls). lia.
  - lia.
Qed.

(* ================================================================== *)
(* 4. facts about the scanners' specification functions                 *)

Lemma blank_prefix_split l : exists r, l = blank_prefix l ++ r.
Proof.
  induction l as [|x l [r IH]]; cbn [blank_prefix]; [exists []; reflexivity|].
  destruct (is_blank x); [exists r; cbn [app]; f_equal; exact IH|exists (x :: l); reflexivity].
Qed.

Lemma blank_prefix_nolf l : Forall (fun x => x <> 10) (blank_prefix l).
Proof.
  induction l as [|x l IH]; cbn [blank_prefix]; [constructor|].
  destruct (is_blank x) eqn:E; [|constructor]. constructor; [|exact IH].
  unfold is_blank in E. apply orb_prop in E. destruct E as [E|E]; apply N.eqb_eq in E; lia.
Qed.

Lemma digit_prefix_split l : exists r, l = digit_prefix l ++ r.
Proof.
  induction l as [|x l [r IH]]; cbn [digit_prefix]; [exists []; reflexivity|].
  destruct (is_dig x); [exists r; cbn [app]; f_equal; exact IH|exists (x :: l); reflexivity].
Qed.

Lemma digit_prefix_nolf l : Forall (fun x => x <> 10) (digit_prefix l).
Proof.
  induction l as [|x l IH]; cbn [digit_prefix]; [constructor|].
  destruct (is_dig x) eqn:E; [|constructor]. constructor; [|exact IH].
  unfold is_dig in E. apply andb_prop in E. destruct E as [E _]. apply N.leb_le in E. lia.
Qed.

Lemma common_prefix_full pat : forall l, pat <> [] -> common_prefix pat l = nlen pat -> exists r, l = pat ++ r.
Proof.
  induction pat as [|p ps IH]; intros l Hne H; [congruence|].
  assert (Hlen : nlen (p :: ps) = 1 + nlen ps) by (unfold nlen; cbn [length]; lia).
  destruct l as [|x l]; cbn [common_prefix] in H; [lia|].
  destruct (x =? p) eqn:E; [|lia]. apply N.eqb_eq in E. subst x.
  destruct ps as [|q qs].
  - exists l. reflexivity.
  - destruct (IH l) as [r Hr]; [discriminate|lia|]. exists r. cbn [app]. f_equal. exact Hr.
Qed.

Lemma common_prefix_le pat : forall l, common_prefix pat l <= nlen pat.
Proof.
  induction pat as [|p ps IH]; intros l; [destruct l; cbn; lia|].
  assert (Hlen : nlen (p :: ps) = 1 + nlen ps) by (unfold nlen; cbn [length]; lia).
  destruct l as [|x l]; cbn [common_prefix]; [lia|]. destruct (x =? p); [|lia]. specialize (IH l). lia.
Qed.

(* next_newline: the scanned bytes before the line break, and the break itself *)
Lemma to_next_newline_split l :
  exists p r, l = p ++ r /\ nlen p = before_newline l /\ Forall (fun x => x <> 10) p /\
              ((r = [] /\ to_next_newline l = before_newline l) \/
               (exists r', r = 10 :: r' /\ to_next_newline l = before_newline l + 1)).
Proof.
  induction l as [|x l (p & r & E & Hlen & Hp & Hr)]; cbn [to_next_newline before_newline].
  - exists [], []. split; [reflexivity|]. split; [reflexivity|]. split; [constructor|]. left. split; reflexivity.
  - destruct (x =? 10) eqn:Ex.
    + apply N.eqb_eq in Ex. subst x. exists [], (10 :: l). split; [reflexivity|]. split; [reflexivity|].
      split; [constructor|]. right. exists l. split; [reflexivity|lia].
    + apply N.eqb_neq in Ex. exists (x :: p), r. split; [cbn [app]; f_equal; exact E|].
      split; [unfold nlen in *; cbn [length]; lia|]. split; [constructor; assumption|].
      destruct Hr as [[Hr1 Hr2]|(r' & Hr1 & Hr2)]; [left; split; [exact Hr1|lia]|right; exists r'; split; [exact Hr1|lia]].
Qed.

Lemma before_newline_le l : before_newline l <= nlen l.
Proof.
  induction l as [|x l IH]; cbn [before_newline]; [unfold nlen; cbn; lia|].
  unfold nlen in *; cbn [length]. destruct (x =? 10); lia.
Qed.

Lemma blank_prefix_le l : (length (blank_prefix l) <= length l)%nat.
Proof. induction l as [|x l IH]; cbn [blank_prefix length]; [lia|]. destruct (is_blank x); cbn [length]; lia. Qed.

Lemma rest_at_len v off : (length (rest_at v off) <= length (vS v))%nat.
Proof. unfold rest_at, nskipn. rewrite skipn_length. lia. Qed.

Lemma newline_len_cases l :
  (newline_len l = 1 /\ exists r, l = 10 :: r) \/
  (newline_len l = 2 /\ exists r, l = 13 :: 10 :: r) \/
  newline_len l = 0.
Proof.
  destruct l as [|x l]; cbn [newline_len]; [right; right; reflexivity|].
  destruct (x =? 10) eqn:E1; [apply N.eqb_eq in E1; subst x; left; split; [reflexivity|eauto]|].
  destruct (x =? 13) eqn:E2; [|right; right; reflexivity]. apply N.eqb_eq in E2; subst x.
  destruct l as [|y l]; [right; right; reflexivity|].
  destruct (y =? 10) eqn:E3; [apply N.eqb_eq in E3; subst y; right; left; split; [reflexivity|eauto]|right; right; reflexivity].
Qed.

(* ================================================================== *)
(* 5. the invariant of LineReader programs                              *)

Section WithFuel.
Variable fuel : nat.

(* the stream: bytes, shorter than the loop fuel of the model and than 2^62 (positions never wrap) *)
Definition SOK (v : view) : Prop :=
  BytesOK v /\ (length (vS v) < fuel)%nat /\ nlen (vS v) < 4611686018427387904.

(* the reader: what is claimed buffered exists, the cursor is within it, the error has not been handed out *)
Definition VOK (v : view) : Prop := WFV v /\ SOK v /\ vcur v <= vhwm v /\ vtaken v = false.

(* the line bookkeeping: the line start is not after the cursor, no LF between them, line number in step *)
Definition LI (lr : lrs) (v : view) : Prop :=
  l_start lr <= vcur v /\ nolf (vS v) (l_start lr) (vcur v) /\ line_ok (vS v) (l_start lr) (l_line lr).

Definition K (lr : lrs) (v : view) : Prop := VOK v /\ LI lr v.

(* what no program changes / only increases *)
Definition frame (v v' : view) : Prop := vS v' = vS v /\ vfail v' = vfail v /\ vcur v <= vcur v'.

(* v' is v after looking at (not consuming) more of the input *)
Definition quiet (v v' : view) : Prop :=
  vS v' = vS v /\ vfail v' = vfail v /\ vcur v' = vcur v /\ vmark v' = vmark v /\ vtaken v' = vtaken v /\
  vhwm v <= vhwm v' /\ vhwm v' <= nlen (vS v).

Lemma frame_refl v : frame v v.
Proof. unfold frame. split; [reflexivity|]. split; [reflexivity|lia]. Qed.

Lemma frame_trans v1 v2 v3 : frame v1 v2 -> frame v2 v3 -> frame v1 v3.
Proof. intros (a1 & a2 & a3) (b1 & b2 & b3). unfold frame. split; [congruence|]. split; [congruence|lia]. Qed.

Lemma quiet_refl v : WFV v -> quiet v v.
Proof. intros H. unfold quiet, WFV in *. do 5 (split; [reflexivity|]). split; [lia|exact H]. Qed.

Lemma quiet_trans v1 v2 v3 : quiet v1 v2 -> quiet v2 v3 -> quiet v1 v3.
Proof.
  intros (a1 & a2 & a3 & a4 & a5 & a6 & a7) (b1 & b2 & b3 & b4 & b5 & b6 & b7). unfold quiet.
  split; [congruence|]. split; [congruence|]. split; [congruence|]. split; [congruence|]. split; [congruence|].
  rewrite a1 in b7. split; lia.
Qed.

Lemma quiet_frame v v' : quiet v v' -> frame v v'.
Proof. intros (a1 & a2 & a3 & _). unfold frame. split; [exact a1|]. split; [exact a2|lia]. Qed.

Lemma peeked_quiet v v' m : WFV v -> peeked_to v v' m -> quiet v v'.
Proof.
  intros Hw (a1 & a2 & a3 & a4 & a5 & _ & _ & a8). unfold quiet, WFV in *.
  split; [exact a1|]. split; [exact a2|]. split; [exact a3|]. split; [exact a4|]. split; [exact a5|].
  rewrite a8. destruct (nlen (vS v) <? m) eqn:E; [|apply N.ltb_ge in E]; split; lia.
Qed.

(* after peeks up to m, everything up to m that exists is known to be buffered *)
Lemma peeked_hwm v v' m x : peeked_to v v' m -> x <= m -> x <= nlen (vS v) -> x <= vhwm v'.
Proof.
  intros (_ & _ & _ & _ & _ & _ & _ & a8) Hx Hn. rewrite a8.
  destruct (nlen (vS v) <? m) eqn:E; [|apply N.ltb_ge in E]; lia.
Qed.

Lemma rest_at_quiet v v' off : quiet v v' -> rest_at v' off = rest_at v off.
Proof. intros (a1 & _ & a3 & _). unfold rest_at. rewrite a1, a3. reflexivity. Qed.

Lemma vpeek_quiet v v' k : quiet v v' -> vpeek v' k = vpeek v k.
Proof. intros (a1 & _ & a3 & _). unfold vpeek. rewrite a1, a3. reflexivity. Qed.

Lemma VOK_quiet v v' : VOK v -> quiet v v' -> VOK v'.
Proof.
  intros (Hw & (Hb & Hf & Hl) & Hc & Ht) (a1 & a2 & a3 & a4 & a5 & a6 & a7).
  unfold VOK, SOK, WFV, BytesOK in *. rewrite a1, a3, a5.
  split; [exact a7|]. split; [split; [exact Hb|split; [exact Hf|exact Hl]]|]. split; [lia|exact Ht].
Qed.

Lemma LI_quiet lr v v' : LI lr v -> quiet v v' -> LI lr v'.
Proof. intros (h1 & h2 & h3) (a1 & _ & a3 & _). unfold LI. rewrite a1, a3. split; [exact h1|]. split; assumption. Qed.

Lemma K_quiet lr v v' : K lr v -> quiet v v' -> K lr v'.
Proof. intros [H1 H2] Hq. split; [eapply VOK_quiet; eassumption|eapply LI_quiet; eassumption]. Qed.

Lemma VOK_WFV v : VOK v -> WFV v.
Proof. intros (H & _). exact H. Qed.

Lemma VOK_cur_le v : VOK v -> vcur v <= nlen (vS v).
Proof. intros (Hw & _ & Hc & _). unfold WFV in Hw. lia. Qed.

Lemma VOK_fuel v : VOK v -> (length (vS v) < fuel)%nat.
Proof. intros (_ & (_ & H & _) & _). exact H. Qed.

Lemma VOK_small v : VOK v -> nlen (vS v) < 4611686018427387904.
Proof. intros (_ & (_ & _ & H) & _). exact H. Qed.

Lemma VOK_cur_mod v : VOK v -> vcur v mod W64 = vcur v.
Proof.
  intros H. pose proof (VOK_cur_le v H). pose proof (VOK_small v H). apply N.mod_small. unfold W64. lia.
Qed.

Lemma K_VOK lr v : K lr v -> VOK v.
Proof. intros [H _]. exact H. Qed.

Lemma VOK_advance v n : VOK v -> vcur v + n <= vhwm v -> VOK (v_advance v n).
Proof.
  intros (Hw & Hs & Hc & Ht) Hn. unfold VOK, SOK, WFV, BytesOK in *. cbn [v_advance vS vhwm vcur vtaken].
  split; [exact Hw|]. split; [exact Hs|]. split; [exact Hn|exact Ht].
Qed.

(* consuming LF-free bytes *)
Lemma K_advance lr v n : K lr v -> vcur v + n <= vhwm v -> nolf (vS v) (vcur v) (vcur v + n) -> K lr (v_advance v n).
Proof.
  intros [Hv (h1 & h2 & h3)] Hn Hnolf. split; [apply VOK_advance; assumption|].
  unfold LI. cbn [v_advance vS vcur]. split; [lia|]. split; [eapply nolf_trans; eassumption|exact h3].
Qed.

Lemma K_setmark lr v : K lr v -> K lr (v_setmark v).
Proof. intros H. exact H. Qed.

Lemma K_take_none lr v : K lr v -> K lr (v_take v None).
Proof. intros H. exact H. Qed.

(* consuming up to and including a line break, after line_at_offset has recorded it:
   the break is the LF at p, or (unterminated last line) the end of the input *)
Lemma K_newline lr v v1 n p newstart :
  K lr v -> quiet v v1 -> vcur v <= p -> nolf (vS v) (vcur v) p ->
  (nnth (vS v) p = Some 10 /\ newstart = p + 1 \/ p = nlen (vS v) /\ newstart = p /\ vcur v < p) ->
  newstart <= vcur v + n -> nolf (vS v) newstart (vcur v + n) -> vcur v + n <= vhwm v1 ->
  K {| l_line := l_line lr + 1; l_start := newstart |} (v_advance v1 n).
Proof.
  intros [Hv (h1 & h2 & h3)] Hq Hp Hnolf Hbreak Hns Hnolf2 Hn.
  pose proof (VOK_quiet _ _ Hv Hq) as Hv1. destruct Hq as (a1 & a2 & a3 & a4 & a5 & a6 & a7).
  split; [apply VOK_advance; [exact Hv1|rewrite a3; exact Hn]|].
  unfold LI. cbn [v_advance vS vcur l_start l_line]. rewrite a1, a3.
  split; [exact Hns|]. split; [exact Hnolf2|].
  assert (Hpl : p <= nlen (vS v)).
  { destruct Hbreak as [[Hb _]|[Hb _]]; [apply nnth_some_lt in Hb; lia|lia]. }
  destruct (line_ok_next (vS v) (l_start lr) (l_line lr) p h3) as [L1 L2]; [lia|exact Hpl|eapply nolf_trans; eassumption|].
  destruct Hbreak as [[Hb ->]|(Hb & -> & Hlt)]; [apply L1; exact Hb|apply L2; [exact Hb|lia]].
Qed.

(* ================================================================== *)
(* 6. postconditions                                                    *)

(* an error value reported in state v': an I/O error is the source's; a syntax error is reported only
   when the source did not fail or its failure has not been seen yet, and its location is right *)
Definition ErrPost (e : perr) (v' : view) : Prop :=
  match e with
  | EIo io => vfail v' = Some io
  | ESyntax l c => (vfail v' = None \/ vknown v' = false) /\ loc_ok (vS v') l c
  end.

Definition TokPost {A} (G : A -> lrs -> view -> Prop) (v : view) (a : parsed A perr) (lr' : lrs) (v' : view) : Prop :=
  frame v v' /\
  match a with
  | Res (Ok x) => G x lr' v'
  | Res (Err e) => ErrPost e v'
  | Fallthrough => K lr' v'
  end.

Definition ResPost {A} (G : A -> lrs -> view -> Prop) (v : view) (a : result A perr) (lr' : lrs) (v' : view) : Prop :=
  frame v v' /\
  match a with
  | Ok x => G x lr' v'
  | Err e => ErrPost e v'
  end.

(* the usual success conditions: invariant again; invariant and at least one byte consumed *)
Definition Gk {A} : A -> lrs -> view -> Prop := fun _ lr' v' => K lr' v'.
Definition Gs {A} (v : view) : A -> lrs -> view -> Prop := fun _ lr' v' => K lr' v' /\ vcur v < vcur v'.

(* ================================================================== *)
(* 7. the scanners, continuation style                                  *)

Lemma prt_tabs off lr v (Q : N -> lrs -> view -> Prop) :
  (length (vS v) < fuel)%nat ->
  (forall v1, peeked_to v v1 (vcur v + off + nlen (blank_prefix (rest_at v off)) + 1) ->
              Q (off + nlen (blank_prefix (rest_at v off))) lr v1) ->
  prt (lift (tabs_or_spaces fuel off)) lr v Q.
Proof.
  intros Hf H. destruct (tabs_or_spaces_spec fuel off v) as (v1 & Hrun & Hpk).
  { pose proof (blank_prefix_le (rest_at v off)). pose proof (rest_at_len v off). lia. }
  apply prt_lift. eapply rt_det; [apply det_tabs_or_spaces|exact Hrun|apply H; exact Hpk].
Qed.

Lemma prt_newline off lr v (Q : N -> lrs -> view -> Prop) :
  (forall v1, peeked_to v v1 (vcur v + off + newline_look (rest_at v off)) -> Q (off + newline_len (rest_at v off)) lr v1) ->
  prt (lift (newline off)) lr v Q.
Proof.
  intros H. destruct (newline_spec off v) as (v1 & Hrun & Hpk).
  apply prt_lift. eapply rt_det; [apply det_newline|exact Hrun|apply H; exact Hpk].
Qed.

Lemma prt_next_newline off lr v (Q : N -> lrs -> view -> Prop) :
  (length (vS v) < fuel)%nat ->
  (forall v1, peeked_to v v1 (vcur v + off + before_newline (rest_at v off) + 1) ->
              Q (off + to_next_newline (rest_at v off)) lr v1) ->
  prt (lift (next_newline fuel off)) lr v Q.
Proof.
  intros Hf H. destruct (next_newline_spec fuel off v) as (v1 & Hrun & Hpk).
  { pose proof (before_newline_le (rest_at v off)). pose proof (rest_at_len v off). unfold nlen in *. lia. }
  apply prt_lift. eapply rt_det; [apply det_next_newline|exact Hrun|apply H; exact Hpk].
Qed.

Lemma prt_fixed pat lr v (Q : N -> lrs -> view -> Prop) :
  pat <> [] ->
  (forall v1, peeked_to v v1 (vcur v + 0 + N.min (common_prefix pat (rest_at v 0) + 1) (nlen pat)) ->
              Q (if common_prefix pat (rest_at v 0) =? nlen pat then 0 + nlen pat else 0) lr v1) ->
  prt (lift (fixed 0 pat)) lr v Q.
Proof.
  intros Hne H. destruct (fixed_spec 0 pat v) as (v1 & Hrun & Hpk).
  apply prt_lift. eapply rt_det; [apply det_fixed_from|exact Hrun|apply H].
  destruct pat; [congruence|exact Hpk].
Qed.

Lemma rest_len' v off : (length (digit_prefix (rest_at v off)) <= length (vS v))%nat.
Proof. pose proof (digit_prefix_le (rest_at v off)). pose proof (rest_at_len v off). lia. Qed.

Lemma core_after_quiet v v1 m : WFV v1 -> vhwm v <= vhwm v1 -> core v1 = core_after v m -> quiet v v1.
Proof.
  intros Hw Hh Hc. unfold core, core_after in Hc. injection Hc as e1 e2 e3 e4 e5 e6.
  unfold quiet, WFV in *. rewrite e1 in Hw. do 5 (split; [assumption|]). split; assumption.
Qed.

Lemma prt_digits t off lr v (Q : option Z * N -> lrs -> view -> Prop) :
  VOK v ->
  (forall v1, quiet v v1 ->
              Q (fst (unsigned_spec t (rest_at v off)), off + snd (unsigned_spec t (rest_at v off))) lr v1) ->
  prt (lift (ascii_digits_multi fuel t off)) lr v Q.
Proof.
  intros Hv H. apply prt_lift. intros r Hr.
  pose proof Hv as (Hw & (Hb & Hf & _) & _).
  destruct (ascii_digits_multi_spec fuel t off v r Hw Hb) as (v1 & -> & Hc); [pose proof (rest_len' v off); lia|exact Hr|].
  destruct (aruns_wf _ _ _ Hr Hw _ _ eq_refl) as [Hw1 _].
  destruct (aruns_mono _ _ _ Hr Hw _ _ eq_refl) as (Hh & _).
  eexists _, v1. split; [reflexivity|]. apply H. eapply core_after_quiet; eassumption.
Qed.

Lemma prt_sdigits t off lr v (Q : option Z * N -> lrs -> view -> Prop) :
  ity_signed t = true -> VOK v ->
  (forall v1, quiet v v1 ->
              Q (fst (signed_spec t (rest_at v off)), off + snd (signed_spec t (rest_at v off))) lr v1) ->
  prt (lift (signed_ascii_digits_multi fuel t off)) lr v Q.
Proof.
  intros Hs Hv H. apply prt_lift. intros r Hr.
  pose proof Hv as (Hw & (Hb & Hf & _) & _).
  destruct (signed_ascii_digits_multi_spec fuel t off v r Hs Hw Hb) as (v1 & -> & Hc);
    [pose proof (rest_len' v off); lia|pose proof (rest_len' v (off + 1)); lia|exact Hr|].
  destruct (aruns_wf _ _ _ Hr Hw _ _ eq_refl) as [Hw1 _].
  destruct (aruns_mono _ _ _ Hr Hw _ _ eq_refl) as (Hh & _).
  eexists _, v1. split; [reflexivity|]. apply H. eapply core_after_quiet; eassumption.
Qed.

(* ---------- LineReader::line_at_offset and give_up* ---------- *)
Lemma prt_line_at_offset off lr v (Q : unit -> lrs -> view -> Prop) :
  VOK v -> Q tt {| l_line := l_line lr + 1; l_start := vcur v + off |} v -> prt (line_at_offset off) lr v Q.
Proof.
  intros Hv H. unfold line_at_offset. apply prt_pbnd, prt_getpos. apply prt_pbnd, prt_get_lrs. apply prt_set_lrs.
  rewrite (VOK_cur_mod v Hv). exact H.
Qed.

Lemma prt_give_up_at pos lr v :
  K lr v -> l_start lr <= pos -> pos <= vcur v ->
  prt (give_up_at pos) lr v (fun e lr' v' => frame v v' /\ ErrPost e v').
Proof.
  intros [Hv (h1 & h2 & h3)] Hp1 Hp2. pose proof Hv as (Hw & _ & _ & Ht). unfold prt.
  destruct (s_take v) as [io|] eqn:Est.
  - assert (Hpk : err_parked v io).
    { unfold err_parked, s_take in *. destruct (vknown v); [split; [reflexivity|exact Est]|discriminate]. }
    eapply rt_det; [apply det_give_up_at|apply srun_give_up_at_parked; exact Hpk|].
    cbn [fst snd]. split; [unfold frame; cbn [v_take vS vfail vcur]; split; [reflexivity|split; [reflexivity|lia]]|].
    cbn [ErrPost v_take vfail]. destruct Hpk as [_ He]. unfold v_err_now in He. rewrite Ht in He. exact He.
  - eapply rt_det; [apply det_give_up_at| |].
    + rewrite (srun_give_up_at_clean pos lr v Est).
      assert ((pos <? l_start lr) = false) as -> by (apply N.ltb_ge; exact Hp1). reflexivity.
    + cbn [fst snd]. split; [unfold frame; cbn [v_take vS vfail vcur]; split; [reflexivity|split; [reflexivity|lia]]|].
      cbn [ErrPost v_take vfail vknown vS]. split.
      * unfold s_take, v_err_now in Est. rewrite Ht in Est. destruct (vknown v); [left; exact Est|right; reflexivity].
      * exists (l_start lr), pos. split; [exact Hp1|]. split; [pose proof (VOK_cur_le v Hv); lia|].
        split; [eapply nolf_weaken; [exact h2|lia|exact Hp2]|]. split; [exact h3|reflexivity].
Qed.

Lemma prt_give_up lr v : K lr v -> prt give_up lr v (fun e lr' v' => frame v v' /\ ErrPost e v').
Proof.
  intros HK. unfold give_up. apply prt_pbnd, prt_getpos. rewrite (VOK_cur_mod v (K_VOK _ _ HK)).
  destruct HK as [Hv HL]. pose proof HL as (h1 & _). apply prt_give_up_at; [split; assumption|exact h1|lia].
Qed.

Lemma prt_give_up_at_mark lr v :
  K lr v -> l_start lr <= vmark v -> vmark v <= vcur v ->
  prt give_up_at_mark lr v (fun e lr' v' => frame v v' /\ ErrPost e v').
Proof.
  intros HK Hm1 Hm2. unfold give_up_at_mark. apply prt_pbnd, prt_getmark.
  assert (vmark v mod W64 = vmark v) as ->.
  { pose proof (VOK_cur_le v (K_VOK _ _ HK)). pose proof (VOK_small v (K_VOK _ _ HK)). apply N.mod_small. unfold W64. lia. }
  apply prt_give_up_at; assumption.
Qed.

End WithFuel.
