(* C09 — Items are delivered without reading past the line that completes them.
   Pinned statements.  Reader level: a refill performs exactly one successful read (plus the reads that came back
   Interrupted), none when the buffered data already satisfies the request, none after end of input or an error.
   Scanner level: the newline and end-of-line scanners ask for nothing beyond the line break. *)
From Flussab Require Import Base Reader Prog Text TextSpec ProgProofs ReaderProofs ScanProofs.

(* request_more: the number of read() calls grows by exactly one successful call (after the calls that
   returned Interrupted); by none when the reader is complete or BufReader leftovers are still to be used *)
Theorem C09_one_successful_read_per_refill : forall s,
  Inv s ->
  g_calls (rm_state (request_more s)) =
  if complete s then g_calls s
  else if 0 <? nlen (prebuf (src s)) then g_calls s
  else g_calls s + interrupts (events (src s)) + 1.
Proof. exact request_more_calls. Qed.
Print Assumptions C09_one_successful_read_per_refill.

(* after end of input or an error no operation calls the source again *)
Theorem C09_no_call_after_terminal : forall s o,
  Inv s -> g_terminal s = true -> g_calls (fst (step s o)) = g_calls s.
Proof. exact terminal_no_more_calls. Qed.
Print Assumptions C09_no_call_after_terminal.

(* a request or peek that the buffered data satisfies leaves the reader (and its call count) untouched *)
Theorem C09_no_call_when_satisfied : forall s,
  (forall n, n <= valid_len s -> fst (step s (ORequest n)) = s) /\
  (forall k, k < valid_len s -> Inv s -> fst (step s (OPeek k)) = s).
Proof. exact satisfied_no_call. Qed.
Print Assumptions C09_no_call_when_satisfied.

(* text::newline looks at one byte, at two only after CR: deciding that a line has ended never needs the next line *)
Theorem C09_newline_needs_only_the_line_break : forall off v,
  exists v', srun (newline off) v = ADone (off + newline_len (rest_at v off)) v' /\
             peeked_to v v' (vcur v + off + newline_look (rest_at v off)).
Proof. exact newline_spec. Qed.
Print Assumptions C09_newline_needs_only_the_line_break.

(* next_newline (comments, skipped lines) asks for nothing beyond the LF *)
Theorem C09_next_newline_stops_at_the_line_break : forall fuel off v,
  (N.to_nat (before_newline (rest_at v off)) < fuel)%nat ->
  exists v', srun (next_newline fuel off) v = ADone (off + to_next_newline (rest_at v off)) v' /\
             peeked_to v v' (vcur v + off + before_newline (rest_at v off) + 1).
Proof. exact next_newline_spec. Qed.
Print Assumptions C09_next_newline_stops_at_the_line_break.

(* every admissible run of these scanners is that run: they contain no buffering question *)
Theorem C09_scanners_deterministic : forall fuel off,
  det (newline off) /\ det (next_newline fuel off) /\ det (tabs_or_spaces fuel off).
Proof. intros fuel off. split; [apply det_newline|split; [apply det_next_newline|apply det_tabs_or_spaces]]. Qed.
Print Assumptions C09_scanners_deterministic.

(* non-vacuity: "1 0\n2 0\n" with the cursor on the first LF: the newline scanner asks for offset 4 only *)
Example C09_example :
  let v := {| vS := [49; 32; 48; 10; 50; 32; 48; 10]; vfail := None; vcur := 3; vmark := 0; vtaken := false;
              vknown := false; vhwm := 3; vreq := 3 |} in
  match srun (newline 0) v with ADone off v' => off = 1 /\ vreq v' = 4 | _ => False end.
Proof. vm_compute. split; reflexivity. Qed.
