(* AigerWrite.v — the AIGER writers of flussab-aiger as pure functions: ascii.rs `Writer`
   (write_header, write_lit, write_latch, write_count, write_and_gate, write_symbol, write_comment,
   write_aig, write_ordered_aig) and binary.rs `Writer` (the same, and gates delta-encoded with
   write_binary_uint = Varint.varint_encode).  The value types are those of Aiger.v: the record [aig]
   stands for `Aig` (latch states and and-gate outputs present) and for `OrderedAig` (they are [None];
   `input_count` is the header's [a_inputs]).  As in the code, every count of the written header is
   the length of the corresponding vector; of the record's header only [a_max_var] (and, for an
   ordered value, [a_inputs]) is looked at.
   write_aig computes the running code as the code does (wrapping usize arithmetic, D14); write_aig_checked adds
   the writer's assertion.  write_aag_ordered computes its codes in unbounded N (`code += 2` per input line: an
   overflow would take 2^63 written lines).  Buffering/IO errors of the DeferredWriter are in Writer.v. *)
From Flussab Require Import Base Writer Consts Varint Aiger.

(* write_header: `while let Some((0, rest)) = fields.split_last() { if rest.len() >= 5 { fields = rest } else { break } }` *)
Fixpoint trim_fields (n : nat) (fields : list N) : list N :=
  match n with
  | O => fields
  | S n' =>
      match rev fields with
      | 0 :: rrest => if 5 <=? nlen rrest then trim_fields n' (rev rrest) else fields
      | _ => fields
      end
  end.

(* `for &field in fields { " "; ascii_digits(field) }` *)
Definition w_fields (fs : list N) : bytes := flat_map (fun x => 32 :: decimal_N x) fs.

Definition w_header (magic : bytes) (m i l o a b c j f : N) : bytes :=
  magic ++ w_fields (trim_fields 9 [m; i; l; o; a; b; c; j; f]) ++ [10].

(* write_lit / write_count *)
Definition w_lit (l : N) : bytes := decimal_N l ++ [10].

(* the tail of write_latch: nothing for reset 0, " 1", or the latch's own literal for "uninitialised" *)
Definition w_init (state : N) (init : option bool) : bytes :=
  match init with
  | Some true => [32; 49; 10]
  | Some false => [10]
  | None => 32 :: decimal_N state ++ [10]
  end.

(* ascii write_latch *)
Definition w_latch (state next : N) (init : option bool) : bytes :=
  decimal_N state ++ 32 :: decimal_N next ++ w_init state init.

(* ascii write_and_gate *)
Definition w_and (output in0 in1 : N) : bytes :=
  decimal_N output ++ 32 :: decimal_N in0 ++ 32 :: decimal_N in1 ++ [10].

Definition sym_letter (k : symkind) : byte :=
  match k with
  | SInput => 105 | SOutput => 111 | SLatch => 108 | SBad => 98 | SConstraint => 99
  | SJustice => 106 | SFairness => 102
  end.

(* write_symbol *)
Definition w_symbol (s : symkind * N * bytes) : bytes :=
  let '(k, i, name) := s in sym_letter k :: decimal_N i ++ 32 :: name ++ [10].

(* write_comment *)
Definition w_comment (c : bytes) : bytes := 99 :: 10 :: c ++ [10].

(* the sections both writers (and both of ascii's convenience functions) write the same way *)
Definition w_middle (a : aig) : bytes :=
  flat_map w_lit (g_outputs a) ++ flat_map w_lit (g_bad a) ++ flat_map w_lit (g_constraints a)
  ++ flat_map (fun j => w_lit (nlen j)) (g_justice a)
  ++ flat_map (fun j => flat_map w_lit j) (g_justice a)
  ++ flat_map w_lit (g_fairness a).

Definition w_trailer (a : aig) : bytes :=
  flat_map w_symbol (g_symbols a) ++ match g_comment a with Some c => w_comment c | None => [] end.

Definition unopt (o : option N) : N := match o with Some x => x | None => 0 end.

(* ascii::Writer::write_aig *)
Definition write_aag (a : aig) : bytes :=
  w_header magic_ascii (a_max_var (g_header a)) (nlen (g_inputs a)) (nlen (g_latches a)) (nlen (g_outputs a))
           (nlen (g_ands a)) (nlen (g_bad a)) (nlen (g_constraints a)) (nlen (g_justice a)) (nlen (g_fairness a))
  ++ flat_map w_lit (g_inputs a)
  ++ flat_map (fun l => let '(s, n, i) := l in w_latch (unopt s) n i) (g_latches a)
  ++ w_middle a
  ++ flat_map (fun g => let '(o, x, y) := g in w_and (unopt o) x y) (g_ands a)
  ++ w_trailer a.

(* ---------- ordered values ---------- *)
(* `for _ in 0..input_count { write_lit(code); code += 2 }` *)
Fixpoint w_oinputs (n : nat) (code : N) : bytes :=
  match n with O => [] | S n' => w_lit code ++ w_oinputs n' (code + 2) end.

(* ascii: latches with the running code as state *)
Fixpoint w_alatches (code : N) (ls : list (option N * N * option bool)) : bytes :=
  match ls with
  | [] => []
  | (_, n, i) :: r => w_latch code n i ++ w_alatches (code + 2) r
  end.
Fixpoint w_aands (code : N) (gs : list (option N * N * N)) : bytes :=
  match gs with
  | [] => []
  | (_, x, y) :: r => w_and code x y ++ w_aands (code + 2) r
  end.

(* ascii::Writer::write_ordered_aig *)
Definition write_aag_ordered (a : aig) : bytes :=
  let i := a_inputs (g_header a) in
  let c1 := 2 + 2 * i in
  let c2 := c1 + 2 * nlen (g_latches a) in
  w_header magic_ascii (a_max_var (g_header a)) i (nlen (g_latches a)) (nlen (g_outputs a))
           (nlen (g_ands a)) (nlen (g_bad a)) (nlen (g_constraints a)) (nlen (g_justice a)) (nlen (g_fairness a))
  ++ w_oinputs (N.to_nat i) 2
  ++ w_alatches c1 (g_latches a)
  ++ w_middle a
  ++ w_aands c2 (g_ands a)
  ++ w_trailer a.

(* binary write_latch: `self.code` is the latch's own literal; `self.code = self.code.wrapping_add(2)` *)
Fixpoint w_olatches (code : N) (ls : list (option N * N * option bool)) : bytes :=
  match ls with
  | [] => []
  | (_, n, i) :: r => (decimal_N n ++ w_init code i) ++ w_olatches ((code + 2) mod W64) r
  end.

(* binary write_and_gate: the inputs are swapped so that the first is the larger one;
   `assert!(code_0 <= self.code)`; two deltas; `self.code = self.code.wrapping_add(2)` *)
Definition w_oand (code x y : N) : bytes :=
  let c0 := if x <? y then y else x in
  let c1 := if x <? y then x else y in
  varint_encode (code - c0) ++ varint_encode (c0 - c1).
Fixpoint w_oands (code : N) (gs : list (option N * N * N)) : bytes :=
  match gs with
  | [] => []
  | (_, x, y) :: r => w_oand code x y ++ w_oands ((code + 2) mod W64) r
  end.

(* write_header: `self.code = header.input_count.wrapping_add(1).wrapping_mul(2)` (as the parser computes it);
   the code behind the latches: L wrapping additions of 2 *)
Definition ocode1 (a : aig) : N := (((a_inputs (g_header a) + 1) mod W64) * 2) mod W64.
Definition ocode2 (a : aig) : N := (ocode1 a + 2 * nlen (g_latches a)) mod W64.

(* binary::Writer::write_ordered_aig, provided no assertion fails *)
Definition write_aig (a : aig) : bytes :=
  w_header magic_binary (a_max_var (g_header a)) (a_inputs (g_header a)) (nlen (g_latches a)) (nlen (g_outputs a))
           (nlen (g_ands a)) (nlen (g_bad a)) (nlen (g_constraints a)) (nlen (g_justice a)) (nlen (g_fairness a))
  ++ w_olatches (ocode1 a) (g_latches a)
  ++ w_middle a
  ++ w_oands (ocode2 a) (g_ands a)
  ++ w_trailer a.

(* The only panic left in the writer is `assert!(code_0 <= self.code)` of write_and_gate: it fires for a gate one
   of whose inputs is a literal above the gate's own literal 2 (I + L + 1 + k) (a forward reference; the parser
   never returns such a gate, a hand-built or wrongly renumbered OrderedAig can have one).
   (Until D14 the code arithmetic was unchecked-in-release / panicking-in-debug; it wraps now, like the parser's.) *)
Inductive wres := WrOk (b : bytes) | WrAssert.

Fixpoint oands_check (code : N) (gs : list (option N * N * N)) (k : wres) : wres :=
  match gs with
  | [] => k
  | (_, x, y) :: r =>
      if (if x <? y then y else x) <=? code then oands_check ((code + 2) mod W64) r k else WrAssert
  end.

(* binary::Writer::write_ordered_aig with its panic *)
Definition write_aig_checked (a : aig) : wres := oands_check (ocode2 a) (g_ands a) (WrOk (write_aig a)).
