(* Text.v — flussab/src/text.rs as parser programs: the decimal scanners
   (simple, continuation and SWAR-accelerated variants), the 8-byte SWAR kernel,
   and the whitespace / newline / fixed-sequence scanners. *)
From Flussab Require Import Base Writer Prog.

(* ---------- integer types: overflowing arithmetic as in num_traits ---------- *)
Definition wrapZ (t : ity) (x : Z) : Z :=
  let m := (2 ^ Z.of_N (ity_bits t))%Z in
  if ity_signed t then ((x + m / 2) mod m - m / 2)%Z else (x mod m)%Z.
(* overflowing_mul/add/sub: wrapped result and whether the exact result did not fit *)
Definition ovf (t : ity) (x : Z) : Z * bool := (wrapZ t x, negb (in_range t x)).
(* FromPrimitive::from_u32 / from_i32 *)
Definition from_prim (t : ity) (x : Z) : option Z := if in_range t x then Some x else None.

Definition is_dig (b : byte) : bool := (48 <=? b) && (b <=? 57).

(* the common loop of ascii_digits / ascii_digits_cont_pos / .._neg / signed_ascii_digits:
   while the byte at offset is a digit: value = value*10 (+|-) digit, tracking overflow *)
Fixpoint digits_loop (fuel : nat) (t : ity) (neg : bool) (value : Z) (overflow : bool) (offset : N)
  : prog (option Z * N) :=
  match fuel with
  | O => NoFuel
  | S f =>
      Peek offset (fun o =>
        match o with
        | Some d =>
            if is_dig d then
              let '(v1, o1) := ovf t (value * 10) in
              let dz := Z.of_N (d - 48) in
              let '(v2, o2) := ovf t (if neg then v1 - dz else v1 + dz)%Z in
              digits_loop f t neg v2 (overflow || o1 || o2) (offset + 1)
            else Ret (if overflow then None else Some value, offset)
        | None => Ret (if overflow then None else Some value, offset)
        end)
  end.

Definition ascii_digits (fuel : nat) (t : ity) (offset : N) : prog (option Z * N) :=
  digits_loop fuel t false 0 false offset.

Definition ascii_digits_cont (fuel : nat) (t : ity) (neg : bool) (offset : N) (value : option Z)
  : prog (option Z * N) :=
  digits_loop fuel t neg (match value with Some v => v | None => 0%Z end)
              (match value with Some _ => false | None => true end) offset.

Definition signed_ascii_digits (fuel : nat) (t : ity) (offset : N) : prog (option Z * N) :=
  Peek offset (fun o =>
    if match o with Some b => b =? 45 | None => false end then
        Peek (offset + 1) (fun o1 =>
          match o1 with
          | Some d =>
              if is_dig d then
                (* value = I::zero() - digit : plain subtraction, checked in debug builds *)
                let v := (0 - Z.of_N (d - 48))%Z in
                if in_range t v then digits_loop fuel t true v false (offset + 2)
                else Crash POverflow
              else Ret (Some 0%Z, offset)
          | None => Ret (Some 0%Z, offset)
          end)
    else digits_loop fuel t false 0 false offset).

(* ---------- the SWAR kernel on a 64-bit word ---------- *)
Definition M64 : N := 18446744073709551615.   (* 2^64 - 1 *)
Definition wmul (a b : N) : N := N.land (a * b) M64.
Definition wadd (a b : N) : N := N.land (a + b) M64.
Definition wshl (a s : N) : N := N.land (N.shiftl a s) M64.

(* u64::trailing_zeros *)
Fixpoint ctz_pos (p : positive) : N :=
  match p with xO q => 1 + ctz_pos q | _ => 0 end.
Definition trailing_zeros64 (x : N) : N := match x with 0 => 64 | Npos p => ctz_pos p end.

Definition swar (word : N) : N * N :=
  let high_nibble_matches := N.lxor word 3472328296227680304 in         (* 0x3030303030303030 *)
  let low_nibbles := N.land word 1085102592571150095 in                  (* 0x0f0f0f0f0f0f0f0f *)
  let low_nibble_matches := wadd low_nibbles 434041037028460038 in       (* 0x0606060606060606 *)
  let matches := N.land (N.lor high_nibble_matches low_nibble_matches) 17361641481138401520 in (* 0xf0f0.. *)
  let shift := N.land (trailing_zeros64 matches) 120 in                  (* & !7, value at most 64 *)
  if shift =? 0 then (0, 0) else
  let partial := N.shiftr (wmul (wshl low_nibbles (64 - shift)) 2561) 8 in
  let partial := N.shiftr (wmul (N.land partial 71777214294589695) 6553601) 16 in     (* 0x00ff00ff00ff00ff *)
  let value := N.shiftr (wmul (N.land partial 281470681808895) 42949672960001) 32 in  (* 0x0000ffff0000ffff *)
  (N.land value 4294967295, shift / 8).                                                (* as u32 *)

Definition ascii_digits_multi (fuel : nat) (t : ity) (offset : N) : prog (option Z * N) :=
  TryLoad8 offset (fun ow =>
    match ow with
    | None => ascii_digits fuel t offset        (* fewer than offset + 8 bytes buffered: cold path *)
    | Some word =>
      let '(value, md) := swar word in
      let value := from_prim t (Z.of_N value) in
      if md =? 8 then ascii_digits_cont fuel t false (offset + 8) value
      else Ret (value, offset + md)
    end).

Definition signed_ascii_digits_multi (fuel : nat) (t : ity) (offset : N) : prog (option Z * N) :=
  TryLoad8 offset (fun ow =>
    match ow with
    | None => signed_ascii_digits fuel t offset
    | Some word =>
      if N.land word 255 =? 45 then
        let '(value, md) := swar (N.shiftr word 8) in
        let value := from_prim t (- Z.of_N value)%Z in
        if md =? 7 then ascii_digits_cont fuel t true (offset + 8) value
        else Ret (value, offset + (if md =? 0 then 0 else 1) + md)
      else
        let '(value, md) := swar word in
        let value := from_prim t (Z.of_N value) in
        if md =? 8 then ascii_digits_cont fuel t false (offset + 8) value
        else Ret (value, offset + md)
    end).

(* ---------- whitespace / newline / fixed ---------- *)
Definition is_blank (b : byte) : bool := (b =? 32) || (b =? 9).

Fixpoint tabs_or_spaces (fuel : nat) (offset : N) : prog N :=
  match fuel with
  | O => NoFuel
  | S f =>
      Peek offset (fun o =>
        if match o with Some b => is_blank b | None => false end
        then tabs_or_spaces f (offset + 1) else Ret offset)
  end.

Definition newline (offset : N) : prog N :=
  Peek offset (fun o =>
    match o with
    | Some b =>
        if b =? 10 then Ret (offset + 1)
        else if b =? 13 then
          Peek (offset + 1) (fun o1 =>
            if match o1 with Some b1 => b1 =? 10 | None => false end then Ret (offset + 2) else Ret offset)
        else Ret offset
    | None => Ret offset
    end).

Fixpoint next_newline (fuel : nat) (offset : N) : prog N :=
  match fuel with
  | O => NoFuel
  | S f =>
      Peek offset (fun o =>
        if match o with Some b => b =? 10 | None => true end then
            (* offset + request_byte_at_offset(offset).is_some() as usize : a second look at the same byte *)
            Peek offset (fun o2 => Ret (offset + match o2 with Some _ => 1 | None => 0 end))
        else next_newline f (offset + 1))
  end.

Fixpoint fixed_from (pat : bytes) (offset : N) (i : N) : prog N :=
  match pat with
  | [] => Ret (offset + i)
  | b :: rest =>
      Peek (offset + i) (fun o =>
        match o with
        | Some x => if x =? b then fixed_from rest offset (i + 1) else Ret offset
        | None => Ret offset
        end)
  end.
Definition fixed (offset : N) (pat : bytes) : prog N := fixed_from pat offset 0.
