#!/usr/bin/env python3
"""Translator: regenerates the table-like parts of the model from /repo's
working tree into coq/Gen/*.v.  Fails loudly when the source shape is not the
expected one."""
import os, re, sys
ROOT = os.path.dirname(os.path.dirname(os.path.abspath(__file__)))
REPO = "/repo"

def main():
    return 0

if __name__ == "__main__":
    sys.exit(main())
