(* Base.v — shared vocabulary of the flussab model.
   Bytes are [N] below 256; machine integers are unbounded [N]/[Z] with the
   wrap written out where Rust wraps.  Nothing here is specific to a property. *)
From Coq Require Export List NArith ZArith Bool Lia.
Export ListNotations.
Open Scope N_scope.

Arguments N.add : simpl never.
Arguments N.sub : simpl never.
Arguments N.mul : simpl never.
Arguments N.eqb : simpl never.
Arguments N.ltb : simpl never.
Arguments N.leb : simpl never.
Arguments N.of_nat : simpl never.
Arguments N.to_nat : simpl never.

Definition byte := N.
Definition bytes := list byte.

(* usize / u64 on the (only) modelled target: 64-bit little endian. *)
Definition W64 : N := 18446744073709551616.   (* 2^64 *)
Definition wrap64 (x : N) : N := x mod W64.
(* wrapping_sub on usize *)
Definition wsub64 (a b : N) : N := (a + W64 - b mod W64) mod W64.
Definition wadd64 (a b : N) : N := (a + b) mod W64.

(* Why a modelled call did not return normally. *)
Inductive panic_kind :=
| PAdvance      (* "advanced past the current buffer size" *)
| PReadContract (* "invariant of std::io::Read trait violated" *)
| POverflow     (* arithmetic overflow in a build with overflow checks *)
| PIndex        (* slice index out of range *)
| PUnwrap       (* unwrap on None / Err *)
| PAssert       (* debug_assert! *)
| PCapacity.    (* Vec capacity overflow *)

(* Outcome of a modelled call.  [UB] is produced only by the model of an
   [unsafe] access whose index is outside the modelled allocation. *)
Inductive outcome (A : Type) :=
| Done (a : A)
| Panic (k : panic_kind)
| UB
| OutOfFuel.
Arguments Done {A} a.
Arguments Panic {A} k.
Arguments UB {A}.
Arguments OutOfFuel {A}.

Definition obind {A B} (o : outcome A) (f : A -> outcome B) : outcome B :=
  match o with
  | Done a => f a
  | Panic k => Panic k
  | UB => UB
  | OutOfFuel => OutOfFuel
  end.

Notation "'do' x <- o ; k" := (obind o (fun x => k))
  (at level 200, x pattern, o at level 100, k at level 200, right associativity).

Inductive result (T E : Type) := Ok (t : T) | Err (e : E).
Arguments Ok {T E} t.
Arguments Err {T E} e.

(* list helpers with N indices *)
Definition nlen {A} (l : list A) : N := N.of_nat (length l).
Definition nnth {A} (l : list A) (i : N) : option A := nth_error l (N.to_nat i).
Definition nfirstn {A} (n : N) (l : list A) : list A := firstn (N.to_nat n) l.
Definition nskipn {A} (n : N) (l : list A) : list A := skipn (N.to_nat n) l.
Definition nrepeat {A} (a : A) (n : N) : list A := repeat a (N.to_nat n).

Lemma nlen_app {A} (a b : list A) : nlen (a ++ b) = nlen a + nlen b.
Proof. unfold nlen. rewrite app_length. lia. Qed.

Lemma nlen_nfirstn {A} n (l : list A) : nlen (nfirstn n l) = N.min n (nlen l).
Proof. unfold nlen, nfirstn. rewrite firstn_length. lia. Qed.

Lemma nlen_nskipn {A} n (l : list A) : nlen (nskipn n l) = nlen l - n.
Proof. unfold nlen, nskipn. rewrite skipn_length. lia. Qed.

Lemma nlen_nrepeat {A} (a : A) n : nlen (nrepeat a n) = n.
Proof. unfold nlen, nrepeat. rewrite repeat_length. lia. Qed.
