(* C01 — Parse results do not depend on how the input bytes arrive.
   Pinned statements.  The parsers are programs over reader operations (Prog.v); their concrete
   semantics is the DeferredReader model under an explicit read schedule and chunk size.

   Rel s v          concrete reader state s (buffer, refills, schedule still to come) and the view v
                    (the whole stream the source delivers, cursor, mark) describe the same situation
   stream_of sr     the bytes source sr delivers before its terminal event, and that event (clean end
                    or error) — independent of the slice sizes the reader happens to ask for
   aruns p v r      r is an admissible abstract run of program p on view v                         *)
From Flussab Require Import Base Reader Writer Prog Text TextSpec ProgProofs ReaderProofs Simulation ScanProofs DigitsProofs.

(* Every concrete run — any honest source, any schedule of short reads and Interrupted results,
   any chunk size >= 1, any amount of BufReader leftovers — is an admissible abstract run on the view
   of its source (or the program relied on buffering it had not established: AStuck). *)
Theorem C01_simulation : forall (A : Type) (p : prog A) (s : rstate) (v : view),
  Rel s v -> exists r, aruns p v r /\ refines (crun p s) r.
Proof. exact @simulation. Qed.
Print Assumptions C01_simulation.

Theorem C01_initial_states_related : forall (sr : source) (c : N),
  NoLie (events sr) -> 1 <= c ->
  Rel (set_chunk (reader_init sr) c) (view_init (fst (stream_of sr)) (snd (stream_of sr))).
Proof. exact Rel_init. Qed.
Print Assumptions C01_initial_states_related.

(* Hence: a program all of whose admissible abstract runs return a returns a for every way the
   bytes can arrive. *)
Theorem C01_chunking_independence : forall (A : Type) (p : prog A) (sr1 sr2 : source) (c1 c2 : N) (a : A),
  NoLie (events sr1) -> NoLie (events sr2) -> 1 <= c1 -> 1 <= c2 ->
  stream_of sr1 = stream_of sr2 ->
  (forall r, aruns p (view_init (fst (stream_of sr1)) (snd (stream_of sr1))) r -> exists v', r = ADone a v') ->
  (exists s1, crun p (set_chunk (reader_init sr1) c1) = CDone a s1) /\
  (exists s2, crun p (set_chunk (reader_init sr2) c2) = CDone a s2).
Proof. exact @chunking_independence. Qed.
Print Assumptions C01_chunking_independence.

(* The stream of a source does not depend on Interrupted results, nor on how a delivery is cut
   into pieces by the slice sizes: the definition consults neither. Two instances. *)
Theorem C01_stream_ignores_interrupts : forall evs d, sgo (Interrupt :: evs) d = sgo evs d.
Proof. reflexivity. Qed.
Print Assumptions C01_stream_ignores_interrupts.

(* Instance (answer-insensitive although it asks how much is buffered): the SWAR-accelerated
   unsigned scanner returns the same value and offset for every schedule and chunk size. *)
Theorem C01_digits_multi_any_chunking : forall fuel t sr c,
  NoLie (events sr) -> 1 <= c ->
  Forall (fun b => b < 256) (fst (stream_of sr)) ->
  (length (digit_prefix (fst (stream_of sr))) < fuel)%nat ->
  exists s', crun (ascii_digits_multi fuel t 0) (set_chunk (reader_init sr) c)
             = CDone (fst (unsigned_spec t (fst (stream_of sr))), snd (unsigned_spec t (fst (stream_of sr)))) s'.
Proof.
  intros fuel t sr c HN Hc Hb Hf.
  set (v := view_init (fst (stream_of sr)) (snd (stream_of sr))).
  assert (Hrest : rest_at v 0 = fst (stream_of sr)) by reflexivity.
  destruct (concrete_value (ascii_digits_multi fuel t 0) _ v
              (fst (unsigned_spec t (fst (stream_of sr))), 0 + snd (unsigned_spec t (fst (stream_of sr))))
              (Rel_init sr c HN Hc)) as (s' & Hs & _).
  - intros r Hr.
    assert (Hw : WFV v) by (unfold WFV, v; cbn; lia).
    assert (Hf' : (length (digit_prefix (rest_at v 0)) < fuel)%nat) by exact Hf.
    destruct (ascii_digits_multi_spec fuel t 0 v r Hw Hb Hf' Hr) as (v' & Hv & _). exists v'. exact Hv.
  - exists s'. rewrite Hs. reflexivity.
Qed.
Print Assumptions C01_digits_multi_any_chunking.

(* ---------- the DIMACS family and the solver log ---------- *)
From Flussab Require Import Consts Cnf CnfProofs.

(* Answer-insensitivity of the whole parsers (header, every clause, final outcome with its error
   location): any two admissible abstract runs on views with the same core agree — equal results
   and equal final cores — unless one of them is AStuck. *)
Theorem C01_dimacs_answer_insensitive : forall (fuel : nat) (k : dkind) (maxd : Z) (ignore_header : bool) (lr : lrs),
  CoreDet fuel (parse_dimacs fuel k maxd ignore_header lr).
Proof. intros fuel k maxd ih lr. exact (PDet_parse_dimacs fuel k maxd ih lr). Qed.
Print Assumptions C01_dimacs_answer_insensitive.

Theorem C01_solver_log_answer_insensitive : forall (fuel : nat) (maxd : Z) (ignore_unknown : bool) (lr : lrs),
  CoreDet fuel (parse_log fuel maxd ignore_unknown lr).
Proof. intros fuel maxd iu lr. exact (PDet_parse_log fuel maxd iu lr). Qed.
Print Assumptions C01_solver_log_answer_insensitive.

(* Put together with the simulation: two concrete parses of the same stream — any two honest sources,
   schedules, chunk sizes — are matched by admissible abstract runs that agree.
   PARTIAL: `agree` is trivially true when a run is AStuck (the program advanced over bytes it had not
   established to be buffered); that the DIMACS programs never do so is not yet a theorem (it is the
   no-panic obligation of C05, validated by the pa correspondence stream and the o_c05 oracle). *)
Theorem C01_dimacs_two_runs_partial : forall fuel k maxd ih (sr1 sr2 : source) (c1 c2 : N),
  NoLie (events sr1) -> NoLie (events sr2) -> 1 <= c1 -> 1 <= c2 ->
  stream_of sr1 = stream_of sr2 ->
  Forall (fun b => b < 256) (fst (stream_of sr1)) -> (length (fst (stream_of sr1)) < fuel)%nat ->
  let p := parse_dimacs fuel k maxd ih lrs_init in
  exists r1 r2,
    refines (crun p (set_chunk (reader_init sr1) c1)) r1 /\
    refines (crun p (set_chunk (reader_init sr2) c2)) r2 /\
    agree r1 r2.
Proof.
  intros fuel k maxd ih sr1 sr2 c1 c2 H1 H2 Hc1 Hc2 Heq Hb Hlen p.
  set (v := view_init (fst (stream_of sr1)) (snd (stream_of sr1))).
  destruct (simulation p _ v (Rel_init sr1 c1 H1 Hc1)) as (r1 & Hr1 & Hf1).
  assert (HR2 : Rel (set_chunk (reader_init sr2) c2) v) by (unfold v; rewrite Heq; apply Rel_init; assumption).
  destruct (simulation p _ v HR2) as (r2 & Hr2 & Hf2).
  exists r1, r2. split; [exact Hf1|]. split; [exact Hf2|].
  assert (Hw : WFV v) by (unfold WFV, v; cbn; lia).
  exact (PDet_parse_dimacs fuel k maxd ih lrs_init v v r1 r2 eq_refl Hw Hw Hb Hlen Hr1 Hr2).
Qed.
Print Assumptions C01_dimacs_two_runs_partial.

(* ------------------------------------------------------------------ *)
(* The DIMACS family and solver logs, end to end (CnfSafe.v): every admissible run of the whole parser
   programs finishes normally (never relies on buffering it has not established, never panics, never runs out of
   fuel) and all admissible runs agree — so for every honest source, every schedule of short reads and Interrupted
   results, every chunk size and every amount of BufReader leftovers the concrete run returns the value of the
   simple run on the stream the source delivers. *)
From Flussab Require Import Cnf CnfProofs Hoare CnfSafe.

Theorem C01_dimacs_any_chunking : forall fuel k maxd ignore_header (sr : source) (c : N),
  NoLie (events sr) -> 1 <= c ->
  Forall (fun b => b < 256) (fst (stream_of sr)) -> nlen (fst (stream_of sr)) < 2 ^ 62 ->
  (length (fst (stream_of sr)) < fuel)%nat ->
  let p := parse_dimacs fuel k maxd ignore_header lrs_init in
  exists a v' s', srun p (view_init (fst (stream_of sr)) (snd (stream_of sr))) = ADone a v' /\
                  crun p (set_chunk (reader_init sr) c) = CDone a s'.
Proof. exact parse_dimacs_any_chunking. Qed.
Print Assumptions C01_dimacs_any_chunking.

Theorem C01_log_any_chunking : forall fuel maxd ignore_unknown (sr : source) (c : N),
  NoLie (events sr) -> 1 <= c ->
  Forall (fun b => b < 256) (fst (stream_of sr)) -> nlen (fst (stream_of sr)) < 2 ^ 62 ->
  (length (fst (stream_of sr)) < fuel)%nat ->
  let p := parse_log fuel maxd ignore_unknown lrs_init in
  exists a v' s', srun p (view_init (fst (stream_of sr)) (snd (stream_of sr))) = ADone a v' /\
                  crun p (set_chunk (reader_init sr) c) = CDone a s'.
Proof. exact parse_log_any_chunking. Qed.
Print Assumptions C01_log_any_chunking.

(* two sources delivering the same stream in different ways, two chunk sizes: the same parse *)
Theorem C01_dimacs_two_sources : forall fuel k maxd ignore_header (sr1 sr2 : source) (c1 c2 : N),
  NoLie (events sr1) -> NoLie (events sr2) -> 1 <= c1 -> 1 <= c2 -> stream_of sr1 = stream_of sr2 ->
  Forall (fun b => b < 256) (fst (stream_of sr1)) -> nlen (fst (stream_of sr1)) < 2 ^ 62 ->
  (length (fst (stream_of sr1)) < fuel)%nat ->
  let p := parse_dimacs fuel k maxd ignore_header lrs_init in
  exists a s1 s2, crun p (set_chunk (reader_init sr1) c1) = CDone a s1 /\ crun p (set_chunk (reader_init sr2) c2) = CDone a s2.
Proof. exact parse_dimacs_two_sources. Qed.
Print Assumptions C01_dimacs_two_sources.

Theorem C01_log_two_sources : forall fuel maxd ignore_unknown (sr1 sr2 : source) (c1 c2 : N),
  NoLie (events sr1) -> NoLie (events sr2) -> 1 <= c1 -> 1 <= c2 -> stream_of sr1 = stream_of sr2 ->
  Forall (fun b => b < 256) (fst (stream_of sr1)) -> nlen (fst (stream_of sr1)) < 2 ^ 62 ->
  (length (fst (stream_of sr1)) < fuel)%nat ->
  let p := parse_log fuel maxd ignore_unknown lrs_init in
  exists a s1 s2, crun p (set_chunk (reader_init sr1) c1) = CDone a s1 /\ crun p (set_chunk (reader_init sr2) c2) = CDone a s2.
Proof. exact parse_log_two_sources. Qed.
Print Assumptions C01_log_two_sources.

(* ---------- the AIGER parsers (ascii aag and binary aig) ---------- *)
From Flussab Require Import Aiger AigerProofs.

(* Answer-insensitivity of the whole AIGER parsers (header, every item of every section, symbols, comment,
   final outcome with its error location or I/O error), for every literal type (maxc = Lit::MAX_CODE):
   any two admissible abstract runs on views with the same core agree unless one of them is AStuck. *)
Theorem C01_aiger_answer_insensitive : forall (fuel : nat) (maxc : N) (lr : lrs),
  CoreDet fuel (parse_aag fuel maxc lr) /\ CoreDet fuel (parse_aig fuel maxc lr).
Proof. intros fuel maxc lr. exact (conj (PDet_parse_aag fuel maxc lr) (PDet_parse_aig fuel maxc lr)). Qed.
Print Assumptions C01_aiger_answer_insensitive.

(* With the simulation: two concrete AIGER parses of the same stream — any two honest sources, schedules,
   chunk sizes — are matched by admissible abstract runs that agree.  PARTIAL in the same sense as
   C01_dimacs_two_runs_partial (`agree` holds trivially for an AStuck run). *)
Theorem C01_aiger_two_runs_partial : forall fuel (binary : bool) maxc (sr1 sr2 : source) (c1 c2 : N),
  NoLie (events sr1) -> NoLie (events sr2) -> 1 <= c1 -> 1 <= c2 ->
  stream_of sr1 = stream_of sr2 ->
  Forall (fun b => b < 256) (fst (stream_of sr1)) -> (length (fst (stream_of sr1)) < fuel)%nat ->
  let p := (if binary then parse_aig fuel maxc lrs_init else parse_aag fuel maxc lrs_init) in
  exists r1 r2,
    refines (crun p (set_chunk (reader_init sr1) c1)) r1 /\
    refines (crun p (set_chunk (reader_init sr2) c2)) r2 /\
    agree r1 r2.
Proof.
  intros fuel binary maxc sr1 sr2 c1 c2 H1 H2 Hc1 Hc2 Heq Hb Hlen p.
  set (v := view_init (fst (stream_of sr1)) (snd (stream_of sr1))).
  destruct (simulation p _ v (Rel_init sr1 c1 H1 Hc1)) as (r1 & Hr1 & Hf1).
  assert (HR2 : Rel (set_chunk (reader_init sr2) c2) v) by (unfold v; rewrite Heq; apply Rel_init; assumption).
  destruct (simulation p _ v HR2) as (r2 & Hr2 & Hf2).
  exists r1, r2. split; [exact Hf1|]. split; [exact Hf2|].
  assert (Hw : WFV v) by (unfold WFV, v; cbn; lia).
  destruct binary.
  - exact (PDet_parse_aig fuel maxc lrs_init v v r1 r2 eq_refl Hw Hw Hb Hlen Hr1 Hr2).
  - exact (PDet_parse_aag fuel maxc lrs_init v v r1 r2 eq_refl Hw Hw Hb Hlen Hr1 Hr2).
Qed.
Print Assumptions C01_aiger_two_runs_partial.

(* ---------- BTOR2 ---------- *)
From Flussab Require Import Btor2 Btor2Proofs.

(* One 8-byte step of the keyword scanner (ascii_lowercase_u64): whatever the test "are 8 bytes
   buffered?" answers — SWAR kernel on the loaded word, or byte-by-byte cold path — every admissible
   run returns the same word (the leading lowercase letters, other lanes zero), the same length, and
   leaves the same core of the view. *)
Theorem C01_btor2_keyword_step_paths_agree : forall (off : N) (v : view) (r : ares (N * N)),
  WFV v -> BytesOK v ->
  aruns (ascii_lowercase_u64 off) v r ->
  exists v', r = ADone (lc_spec (rest_at v off)) v' /\
             core v' = core_after v (vcur v + off + lc_look (rest_at v off)).
Proof. exact lc_u64_spec. Qed.
Print Assumptions C01_btor2_keyword_step_paths_agree.

(* Answer-insensitivity of the whole BTOR2 parser (every line with all its fields, final outcome with
   its error location): any two admissible abstract runs on views with the same core agree. *)
Theorem C01_btor2_answer_insensitive : forall (fuel : nat) (lr : lrs),
  CoreDet fuel (parse_btor2 fuel lr).
Proof. intros fuel lr. exact (PDet_parse_btor2 fuel lr). Qed.
Print Assumptions C01_btor2_answer_insensitive.

(* ------------------------------------------------------------------ *)
(* AIGER (ascii, binary) and BTOR2, end to end (AigerSafe.v, Btor2Safe.v): every admissible run finishes normally
   and all agree (PDet), so every concrete run — any honest source, schedule, chunk size, leftovers — returns the value
   of the simple run on the delivered stream.  With C01_dimacs_any_chunking / C01_log_any_chunking this covers all seven
   parsers. *)
From Flussab Require Import AigerSafe Btor2Safe.

Theorem C01_aag_any_chunking : forall fuel maxc (sr : source) (c : N),
  NoLie (events sr) -> 1 <= c ->
  Forall (fun b => b < 256) (fst (stream_of sr)) -> nlen (fst (stream_of sr)) < 2 ^ 62 ->
  (length (fst (stream_of sr)) < fuel)%nat ->
  let p := parse_aag fuel maxc lrs_init in
  exists a v' s', srun p (view_init (fst (stream_of sr)) (snd (stream_of sr))) = ADone a v' /\
                  crun p (set_chunk (reader_init sr) c) = CDone a s'.
Proof. exact parse_aag_any_chunking. Qed.
Print Assumptions C01_aag_any_chunking.

Theorem C01_aig_any_chunking : forall fuel maxc (sr : source) (c : N),
  NoLie (events sr) -> 1 <= c ->
  Forall (fun b => b < 256) (fst (stream_of sr)) -> nlen (fst (stream_of sr)) < 2 ^ 62 ->
  (length (fst (stream_of sr)) < fuel)%nat ->
  let p := parse_aig fuel maxc lrs_init in
  exists a v' s', srun p (view_init (fst (stream_of sr)) (snd (stream_of sr))) = ADone a v' /\
                  crun p (set_chunk (reader_init sr) c) = CDone a s'.
Proof. exact parse_aig_any_chunking. Qed.
Print Assumptions C01_aig_any_chunking.

Theorem C01_btor2_any_chunking : forall fuel (sr : source) (c : N),
  NoLie (events sr) -> 1 <= c ->
  Forall (fun b => b < 256) (fst (stream_of sr)) -> nlen (fst (stream_of sr)) < 2 ^ 62 ->
  (length (fst (stream_of sr)) < fuel)%nat ->
  let p := parse_btor2 fuel lrs_init in
  exists a v' s', srun p (view_init (fst (stream_of sr)) (snd (stream_of sr))) = ADone a v' /\
                  crun p (set_chunk (reader_init sr) c) = CDone a s'.
Proof. exact parse_btor2_any_chunking. Qed.
Print Assumptions C01_btor2_any_chunking.

Theorem C01_btor2_two_sources : forall fuel (sr1 sr2 : source) (c1 c2 : N),
  NoLie (events sr1) -> NoLie (events sr2) -> 1 <= c1 -> 1 <= c2 -> stream_of sr1 = stream_of sr2 ->
  Forall (fun b => b < 256) (fst (stream_of sr1)) -> nlen (fst (stream_of sr1)) < 2 ^ 62 ->
  (length (fst (stream_of sr1)) < fuel)%nat ->
  let p := parse_btor2 fuel lrs_init in
  exists a s1 s2, crun p (set_chunk (reader_init sr1) c1) = CDone a s1 /\ crun p (set_chunk (reader_init sr2) c2) = CDone a s2.
Proof. exact parse_btor2_two_sources. Qed.
Print Assumptions C01_btor2_two_sources.

