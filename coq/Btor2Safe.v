(* Btor2Safe.v — safety, failing-source behaviour, error locations and limits of the BTOR2 parser
   (Btor2.v), for every admissible run.  Hoare.v is the framework, CnfSafe.v the template.

   The invariant is CnfSafe's K strengthened by LS: the line start recorded by the LineReader is 0 or just
   after an LF, and the line number is one more than the number of LFs before it.  BTOR2 calls line_at_offset
   only for an LF it has seen (skip_whitespace, newline), so -- unlike the DIMACS family -- there is no
   exception for an unterminated last line: every reported location is exactly line_col_of some position. *)
From Coq Require Import Sorted.
From Flussab Require Import Base Reader ListN Writer Parsed Prog Text TextSpec ProgProofs ScanProofs DigitsProofs.
From Flussab Require Import SwarProofs ReaderProofs Simulation Consts Cnf CnfProofs ErrProofs Btor2 Btor2Proofs Btor2Rt.
From Flussab Require Import Hoare CnfSafe.
Ltac Zify.zify_post_hook ::= Z.to_euclidean_division_equations.
Local Open Scope N_scope.

(* ================================================================== *)
(* 1. the exact line bookkeeping                                        *)

Definition LS (S : bytes) (lr : lrs) : Prop :=
  (l_start lr = 0 \/ nnth S (l_start lr - 1) = Some 10) /\ l_line lr = 1 + count_lf (nfirstn (l_start lr) S).

(* l, c is the (line, column) of a position pos of S: the line starts at ls (0 or just after an LF),
   there is no LF between ls and pos *)
Definition loc_exact (S : bytes) (l c : N) : Prop :=
  exists ls pos, ls <= pos /\ pos <= nlen S /\ nolf S ls pos /\
    (ls = 0 \/ nnth S (ls - 1) = Some 10) /\ l = 1 + count_lf (nfirstn ls S) /\ c = pos - ls + 1.

Lemma loc_exact_ok S l c : loc_exact S l c -> loc_ok S l c.
Proof.
  intros (ls & pos & h1 & h2 & h3 & h4 & h5 & h6). exists ls, pos.
  split; [exact h1|]. split; [exact h2|]. split; [exact h3|]. split; [left; split; assumption|exact h6].
Qed.

(* the location as a function of the position: no exceptional case *)
Lemma loc_exact_line_col S l c : loc_exact S l c -> exists pos, pos <= nlen S /\ (l, c) = line_col_of S pos.
Proof.
  intros (ls & pos & Hlp & Hpn & Hnolf & Hs & Hn & ->). exists pos. split; [exact Hpn|].
  unfold line_col_of.
  set (A := nfirstn ls S). set (M := nfirstn (pos - ls) (nskipn ls S)). set (R := nskipn pos S).
  assert (HS : S = A ++ (M ++ R)).
  { unfold A, M, R. rewrite app_assoc. rewrite (nfirstn_split S ls pos Hlp). unfold nfirstn, nskipn.
    symmetry. apply firstn_skipn. }
  assert (HlA : length A = N.to_nat ls) by (unfold A, nfirstn, nlen in *; rewrite firstn_length; lia).
  assert (HlM : length M = N.to_nat (pos - ls)).
  { unfold M, nfirstn, nskipn, nlen in *. rewrite firstn_length, skipn_length. lia. }
  assert (HM : Forall (fun x => x <> 10) M) by (apply nolf_Forall; exact Hnolf).
  rewrite HS at 1. replace (N.to_nat pos) with (length A + (length M + 0))%nat by lia.
  rewrite line_col_app, line_col_app. cbn [line_col].
  rewrite (line_col_nolf M _ _ HM). cbn [fst snd]. rewrite line_col_fst. apply f_equal2; [exact Hn|].
  assert (Hc1 : snd (line_col A (length A) 1 1) = 1).
  { destruct (N.eq_dec ls 0) as [E0|E0].
    - unfold A. rewrite E0. reflexivity.
    - destruct Hs as [Hs|Hs]; [contradiction|].
      pose proof (nnth_some_lt _ _ _ Hs) as Hlt1.
      assert (HA : nfirstn ls S = nfirstn (ls - 1) S ++ [10]).
      { rewrite <- (nfirstn_split S (ls - 1) ls) by lia. f_equal.
        unfold nnth in Hs. apply nth_error_split in Hs. destruct Hs as (l1 & l2 & HS2 & Hl1).
        unfold nskipn. rewrite HS2 at 1. rewrite skipn_app_exact by exact Hl1.
        replace (ls - (ls - 1)) with 1 by lia. reflexivity. }
      unfold A. rewrite HA. apply line_col_lf. }
  rewrite Hc1. unfold nlen. unfold bytes, byte in *. lia.
Qed.

(* an LF at p following an LF-free stretch from the line start: the next line starts at p + 1 *)
Lemma LS_next S lr p : LS S lr -> l_start lr <= p -> nolf S (l_start lr) p -> nnth S p = Some 10 ->
  LS S {| l_line := l_line lr + 1; l_start := p + 1 |}.
Proof.
  intros [Hs Hn] Hlp Hnolf Hp. unfold LS. cbn [l_start l_line]. split.
  - right. replace (p + 1 - 1) with p by lia. exact Hp.
  - rewrite (count_lf_step S p 10 Hp), (count_lf_nolf S (l_start lr) p Hnolf Hlp), Hn.
    change (10 =? 10) with true. cbv iota. lia.
Qed.

(* ---------- prefixes selected by a predicate ---------- *)
Lemma takep_spec p l : exists r, l = takep p l ++ r /\ forallb p (takep p l) = true /\ stops p r.
Proof.
  induction l as [|x l (r & E & Hp & Hr)]; cbn [takep].
  - exists []. split; [reflexivity|]. split; [reflexivity|exact I].
  - destruct (p x) eqn:Hx.
    + exists r. split; [cbn [app]; f_equal; exact E|]. split; [cbn [forallb]; rewrite Hx, Hp; reflexivity|exact Hr].
    + exists (x :: l). split; [reflexivity|]. split; [reflexivity|exact Hx].
Qed.

Lemma forallb_nolf (p : byte -> bool) l : (forall b, p b = true -> b <> 10) -> forallb p l = true -> Forall (fun x => x <> 10) l.
Proof.
  intros Hp. induction l as [|x l IH]; cbn [forallb]; intros H; [constructor|].
  apply andb_prop in H. destruct H as [Hx Hl]. constructor; [apply Hp; exact Hx|apply IH; exact Hl].
Qed.

Lemma span_takep p v off : (forall b, p b = true -> b <> 10) ->
  span (vS v) (vcur v + off) (nlen (takep p (rest_at v off))).
Proof.
  intros Hp. destruct (takep_spec p (rest_at v off)) as (r & E & Hf & _). exists (takep p (rest_at v off)), r.
  split; [exact E|]. split; [reflexivity|]. apply (forallb_nolf p); assumption.
Qed.

Lemma take_while_peeked n p : forall off acc v,
  (length (takep p (rest_at v off)) < n)%nat ->
  exists v', srun (take_while n p off acc) v
             = ADone (off + nlen (takep p (rest_at v off)), rev acc ++ takep p (rest_at v off)) v' /\
             peeked_to v v' (vcur v + off + nlen (takep p (rest_at v off)) + 1).
Proof.
  induction n as [|n IH]; intros off acc v Hf; [lia|].
  cbn [take_while srun]. rewrite vpeek_rest.
  destruct (rest_at v off) as [|x r] eqn:E; cbn [takep] in *.
  - exists (after_peek v off). change (nlen (@nil byte)) with 0. rewrite !N.add_0_r, app_nil_r.
    split; [reflexivity|apply peeked_after_peek].
  - destruct (p x) eqn:Hx.
    + cbn [length] in Hf. pose proof (peeked_after_peek v off) as Hp.
      assert (Er : rest_at (after_peek v off) (off + 1) = r).
      { rewrite (rest_at_peeked _ _ _ _ Hp). eapply rest_at_succ; eauto. }
      destruct (IH (off + 1) (x :: acc) (after_peek v off)) as (v' & Hrun & Hpk); [rewrite Er; lia|].
      rewrite Er in Hrun, Hpk. exists v'. split.
      * rewrite Hrun. f_equal. f_equal; [rewrite nlen_cons; lia|]. cbn [rev]. rewrite <- app_assoc. reflexivity.
      * eapply peeked_weaken; [eapply peeked_trans; [exact Hp|exact Hpk]|].
        change (vcur (after_peek v off)) with (vcur v). rewrite nlen_cons. lia.
    + exists (after_peek v off). change (nlen (@nil byte)) with 0. rewrite !N.add_0_r, app_nil_r.
      split; [reflexivity|apply peeked_after_peek].
Qed.

(* ---------- the lowercase prefix, 8 bytes at a time ---------- *)
Lemma lower_prefix_chunk k : forall l,
  ((length (lower_prefix (firstn k l)) < k)%nat /\ lower_prefix l = lower_prefix (firstn k l)) \/
  (length (lower_prefix (firstn k l)) = k /\ (k <= length l)%nat /\
   lower_prefix l = lower_prefix (firstn k l) ++ lower_prefix (skipn k l)).
Proof.
  induction k as [|k IH]; intros l.
  - right. cbn [firstn lower_prefix length skipn app]. split; [reflexivity|]. split; [lia|reflexivity].
  - destruct l as [|x l]; [left; cbn [firstn lower_prefix length]; split; [lia|reflexivity]|].
    cbn [firstn lower_prefix skipn]. destruct (is_lower x); [|left; cbn [length]; split; [lia|reflexivity]].
    destruct (IH l) as [[H1 H2]|(H1 & H2 & H3)].
    + left. cbn [length]. split; [lia|]. f_equal. exact H2.
    + right. cbn [length app]. split; [lia|]. split; [lia|]. f_equal. exact H3.
Qed.

Lemma lower_nolf l : Forall (fun b => is_lower b = true) l -> Forall (fun x => x <> 10) l.
Proof.
  intros H. eapply Forall_impl; [|exact H]. intros b Hb E. subst b. discriminate Hb.
Qed.

Lemma span_lower v off : span (vS v) (vcur v + off) (nlen (lower_prefix (rest_at v off))).
Proof.
  destruct (lower_prefix_split (rest_at v off)) as (r & E & Hf & _). exists (lower_prefix (rest_at v off)), r.
  split; [exact E|]. split; [reflexivity|apply lower_nolf; exact Hf].
Qed.

Lemma length_le_bytes n : forall w, length (le_bytes n w) = n.
Proof. induction n as [|n IH]; intros w; cbn [le_bytes length]; [reflexivity|]. rewrite IH. reflexivity. Qed.

(* ---------- decimal values ---------- *)
Lemma fold_dec_step_ge ds : forall a, a <= fold_left dec_step ds a.
Proof.
  induction ds as [|d ds IH]; intros a; cbn [fold_left]; [lia|].
  specialize (IH (dec_step a d)). unfold dec_step in *. lia.
Qed.

Lemma dec_val_pos b ds : 49 <= b -> 1 <= dec_val (b :: ds).
Proof.
  intros Hb. unfold dec_val. cbn [fold_left]. pose proof (fold_dec_step_ge ds (dec_step 0 b)).
  unfold dec_step in *. lia.
Qed.

Section BSafe.
Variable fuel : nat.

Local Notation K := (K fuel).
Local Notation VOK := (VOK fuel).

(* ================================================================== *)
(* 2. the invariant, the postconditions                                 *)

Definition KB (lr : lrs) (v : view) : Prop := K lr v /\ LS (vS v) lr.

Definition ErrPostB (e : perr) (v' : view) : Prop :=
  match e with
  | EIo io => vfail v' = Some io
  | ESyntax l c => (vfail v' = None \/ vknown v' = false) /\ loc_exact (vS v') l c
  end.

Definition TokPostB {A} (G : A -> lrs -> view -> Prop) (v : view) (a : parsed A perr) (lr' : lrs) (v' : view) : Prop :=
  frame v v' /\
  match a with
  | Res (Ok x) => G x lr' v'
  | Res (Err e) => ErrPostB e v'
  | Fallthrough => KB lr' v'
  end.

Definition ResPostB {A} (G : A -> lrs -> view -> Prop) (v : view) (a : result A perr) (lr' : lrs) (v' : view) : Prop :=
  frame v v' /\
  match a with
  | Ok x => G x lr' v'
  | Err e => ErrPostB e v'
  end.

Lemma ErrPostB_ErrPost e v : ErrPostB e v -> ErrPost e v.
Proof. destruct e as [l c|io]; cbn [ErrPostB ErrPost]; [|auto]. intros [H1 H2]. split; [exact H1|apply loc_exact_ok; exact H2]. Qed.

Lemma KB_K lr v : KB lr v -> K lr v.
Proof. intros [H _]. exact H. Qed.

Lemma KB_VOK lr v : KB lr v -> VOK v.
Proof. intros [[H _] _]. exact H. Qed.

Lemma wfB lr v : KB lr v -> WFV v.
Proof. intros H. exact (VOK_WFV _ _ (KB_VOK _ _ H)). Qed.

Lemma fuelB lr v : KB lr v -> (length (vS v) < fuel)%nat.
Proof. intros H. exact (VOK_fuel _ _ (KB_VOK _ _ H)). Qed.

Lemma KB_quiet lr v v' : KB lr v -> quiet v v' -> KB lr v'.
Proof.
  intros [H1 H2] Hq. split; [eapply K_quiet; eassumption|]. destruct Hq as (a1 & _). rewrite a1. exact H2.
Qed.

Lemma KB_intro lr v :
  VOK v -> l_start lr <= vcur v -> nolf (vS v) (l_start lr) (vcur v) -> LS (vS v) lr -> KB lr v.
Proof.
  intros Hv h1 h2 HL. split; [|exact HL]. split; [exact Hv|]. split; [exact h1|]. split; [exact h2|].
  left. exact HL.
Qed.

Lemma KB_advance lr v n : KB lr v -> vcur v + n <= vhwm v -> nolf (vS v) (vcur v) (vcur v + n) -> KB lr (v_advance v n).
Proof. intros [H1 H2] Hn Hnolf. split; [apply K_advance; assumption|exact H2]. Qed.

Lemma KB_setmark lr v : KB lr v -> KB lr (v_setmark v).
Proof. intros H. exact H. Qed.

Lemma KB_take_none lr v : KB lr v -> KB lr (v_take v None).
Proof. intros H. exact H. Qed.

Lemma KB_cur_le lr v : KB lr v -> vcur v <= nlen (vS v).
Proof. intros H. exact (VOK_cur_le _ _ (KB_VOK _ _ H)). Qed.

Lemma TokPostB_weaken {A} (G G' : A -> lrs -> view -> Prop) v a lr' v' :
  TokPostB G v a lr' v' -> (forall x, G x lr' v' -> G' x lr' v') -> TokPostB G' v a lr' v'.
Proof. intros [Hf Ha] HG. split; [exact Hf|]. destruct a as [[x|e]|]; [apply HG; exact Ha|exact Ha|exact Ha]. Qed.

Lemma TokPostB_frame {A} (G : A -> lrs -> view -> Prop) v0 v a lr' v' :
  frame v0 v -> TokPostB G v a lr' v' -> TokPostB G v0 a lr' v'.
Proof. intros Hf0 [Hf Ha]. split; [eapply frame_trans; eassumption|exact Ha]. Qed.

Lemma ResPostB_frame {A} (G : A -> lrs -> view -> Prop) v0 v a lr' v' :
  frame v0 v -> ResPostB G v a lr' v' -> ResPostB G v0 a lr' v'.
Proof. intros Hf0 [Hf Ha]. split; [eapply frame_trans; eassumption|exact Ha]. Qed.

Lemma ResPostB_weaken {A} (G G' : A -> lrs -> view -> Prop) v a lr' v' :
  ResPostB G v a lr' v' -> (forall x, G x lr' v' -> G' x lr' v') -> ResPostB G' v a lr' v'.
Proof. intros [Hf Ha] HG. split; [exact Hf|]. destruct a as [x|e]; [apply HG; exact Ha|exact Ha]. Qed.

(* ---------- give_up*, unexpected, eof with the exact location ---------- *)
Lemma prt_give_up_at_B pos lr v :
  KB lr v -> l_start lr <= pos -> pos <= vcur v ->
  prt (give_up_at pos) lr v (fun e lr' v' => frame v v' /\ ErrPostB e v').
Proof.
  intros [[Hv (h1 & h2 & h3)] [Hs1 Hs2]] Hp1 Hp2. pose proof Hv as (Hw & _ & _ & Ht). unfold prt.
  destruct (s_take v) as [io|] eqn:Est.
  - assert (Hpk : err_parked v io).
    { unfold err_parked, s_take in *. destruct (vknown v); [split; [reflexivity|exact Est]|discriminate]. }
    eapply rt_det; [apply det_give_up_at|apply srun_give_up_at_parked; exact Hpk|].
    cbn [fst snd]. split; [unfold frame; cbn [v_take vS vfail vcur]; split; [reflexivity|split; [reflexivity|lia]]|].
    cbn [ErrPostB v_take vfail]. destruct Hpk as [_ He]. unfold v_err_now in He. rewrite Ht in He. exact He.
  - eapply rt_det; [apply det_give_up_at| |].
    + rewrite (srun_give_up_at_clean pos lr v Est).
      assert ((pos <? l_start lr) = false) as -> by (apply N.ltb_ge; exact Hp1). reflexivity.
    + cbn [fst snd]. split; [unfold frame; cbn [v_take vS vfail vcur]; split; [reflexivity|split; [reflexivity|lia]]|].
      cbn [ErrPostB v_take vfail vknown vS]. split.
      * unfold s_take, v_err_now in Est. rewrite Ht in Est. destruct (vknown v); [left; exact Est|right; reflexivity].
      * exists (l_start lr), pos. split; [exact Hp1|]. split; [pose proof (VOK_cur_le _ v Hv); lia|].
        split; [eapply nolf_weaken; [exact h2|lia|exact Hp2]|]. split; [exact Hs1|]. split; [exact Hs2|reflexivity].
Qed.

Lemma prt_give_up_B lr v : KB lr v -> prt give_up lr v (fun e lr' v' => frame v v' /\ ErrPostB e v').
Proof.
  intros HK. unfold give_up. apply prt_pbnd, prt_getpos. rewrite (VOK_cur_mod _ v (KB_VOK _ _ HK)).
  pose proof HK as [[_ (h1 & _)] _]. apply prt_give_up_at_B; [exact HK|exact h1|lia].
Qed.

Lemma prt_give_up_at_mark_B lr v :
  KB lr v -> l_start lr <= vmark v -> vmark v <= vcur v ->
  prt give_up_at_mark lr v (fun e lr' v' => frame v v' /\ ErrPostB e v').
Proof.
  intros HK Hm1 Hm2. unfold give_up_at_mark. apply prt_pbnd, prt_getmark.
  assert (vmark v mod W64 = vmark v) as ->.
  { pose proof (KB_cur_le _ _ HK). pose proof (VOK_small _ v (KB_VOK _ _ HK)). apply N.mod_small. unfold W64. lia. }
  apply prt_give_up_at_B; assumption.
Qed.

Lemma unexpected_B lr v : KB lr v -> prt unexpected lr v (fun e lr' v' => frame v v' /\ ErrPostB e v').
Proof.
  intros HK. unfold unexpected. apply prt_pbnd, prt_newline. intros v1 Hpk1.
  pose proof (peeked_quiet _ _ _ (wfB _ _ HK) Hpk1) as Hq1.
  pose proof (KB_quiet _ _ _ HK Hq1) as HK1.
  assert (Hgu : forall v2, quiet v v2 -> prt give_up lr v2 (fun e lr' v' => frame v v' /\ ErrPostB e v')).
  { intros v2 Hq2. eapply prt_conseq; [apply prt_give_up_B; exact (KB_quiet _ _ _ HK Hq2)|].
    intros e lr' v' [Hf He]. split; [eapply frame_trans; [apply quiet_frame; exact Hq2|exact Hf]|exact He]. }
  destruct (negb (0 + newline_len (rest_at v 0) =? 0)); [apply Hgu; exact Hq1|].
  apply prt_pbnd, prt_isatend. destruct (s_atend v1); [apply Hgu; exact Hq1|].
  apply prt_pbnd. eapply prt_conseq; [apply (unexpected_scan_ok fuel); exact (KB_K _ _ HK1)|].
  intros _ lr' v2 [-> Hq2]. apply Hgu. eapply quiet_trans; eassumption.
Qed.

Lemma or_unexpected_B {A} (t : tok A) (G : A -> lrs -> view -> Prop) lr v :
  prt t lr v (TokPostB G v) -> prt (or_unexpected t) lr v (ResPostB G v).
Proof.
  intros H. unfold or_unexpected. apply prt_pbnd. eapply prt_conseq; [exact H|].
  intros a lr1 v1 [Hf Ha]. destruct a as [[x|e]|].
  - apply prt_pret. split; assumption.
  - apply prt_pret. split; assumption.
  - apply prt_pbnd. eapply prt_conseq; [apply unexpected_B; exact Ha|]. intros e lr2 v2 [Hf2 He].
    apply prt_pret. split; [eapply frame_trans; eassumption|exact He].
Qed.

(* token::eof succeeds only at the clean end of the input *)
Lemma teof_B lr v : KB lr v ->
  prt teof lr v (TokPostB (fun _ lr' v' => KB lr' v' /\ vfail v' = None /\ vknown v' = true /\ nlen (vS v') <= vcur v') v).
Proof.
  intros HK. unfold teof, tok_ft, tok_ok. apply prt_pbnd, prt_ppeek.
  pose proof (peeked_after_peek v 0) as Hpk0.
  pose proof (peeked_quiet _ _ _ (wfB _ _ HK) Hpk0) as Hq0.
  pose proof (KB_quiet _ _ _ HK Hq0) as HK0.
  destruct (vpeek v 0) as [b|] eqn:Ep; [apply prt_pret; split; [apply quiet_frame; exact Hq0|exact HK0]|].
  apply prt_pbnd, prt_errparked.
  destruct (s_parked (after_peek v 0)) eqn:Epk; [apply prt_pret; split; [apply quiet_frame; exact Hq0|exact HK0]|].
  apply prt_pret. split; [apply quiet_frame; exact Hq0|]. split; [exact HK0|].
  unfold s_parked, v_err_now in Epk. cbn [after_peek vknown vtaken vfail] in Epk. rewrite Ep in Epk.
  pose proof (KB_VOK _ _ HK) as (_ & _ & _ & Ht). rewrite Ht in Epk. cbn [andb] in Epk.
  cbn [after_peek vfail vknown vS vcur]. rewrite Ep. split; [destruct (vfail v); [discriminate|reflexivity]|].
  split; [reflexivity|]. apply vpeek_none_iff in Ep. lia.
Qed.


(* ================================================================== *)
(* 3. single-byte tokens, newline, skip_whitespace                      *)

Definition OneBytePost (c : byte) (lr : lrs) (v : view) (a : parsed unit perr) (lr' : lrs) (v' : view) : Prop :=
  lr' = lr /\ frame v v' /\ vmark v' = vmark v /\ KB lr v' /\
  match a with
  | Res (Ok _) => vcur v' = vcur v + 1 /\ vpeek v 0 = Some c
  | Res (Err _) => False
  | Fallthrough => vcur v' = vcur v /\ vpeek v 0 <> Some c
  end.

Lemma one_byte_B c lr v : c <> 10 -> KB lr v -> prt (one_byte c) lr v (OneBytePost c lr v).
Proof.
  intros Hc HK. unfold one_byte, tok_ok, tok_ft. apply prt_pbnd, prt_ppeek.
  pose proof (peeked_after_peek v 0) as Hpk0.
  pose proof (peeked_quiet _ _ _ (wfB _ _ HK) Hpk0) as Hq0.
  pose proof (KB_quiet _ _ _ HK Hq0) as HK0.
  pose proof Hq0 as (q1 & q2 & q3 & q4 & _).
  assert (Hft : vpeek v 0 <> Some c -> OneBytePost c lr v Fallthrough lr (after_peek v 0)).
  { intros Ho. split; [reflexivity|]. split; [apply quiet_frame; exact Hq0|]. split; [exact q4|].
    split; [exact HK0|]. split; [exact q3|exact Ho]. }
  destruct (vpeek v 0) as [b|] eqn:Ep; [destruct (b =? c) eqn:Eb|].
  - apply N.eqb_eq in Eb. subst b.
    pose proof (hwm_after_peek_some v 0 c Ep) as Hh.
    apply prt_pbnd, prt_padvance; [change (vcur (after_peek v 0)) with (vcur v); lia|]. apply prt_pret.
    split; [reflexivity|].
    split; [unfold frame; cbn [v_advance after_peek vS vfail vcur]; split; [reflexivity|split; [reflexivity|lia]]|].
    split; [reflexivity|]. split; [|split; [reflexivity|exact Ep]].
    apply KB_advance; [exact HK0|change (vcur (after_peek v 0)) with (vcur v); lia|].
    change (vS (after_peek v 0)) with (vS v). change (vcur (after_peek v 0)) with (vcur v).
    apply (nolf_one _ _ c); [unfold vpeek in Ep; rewrite N.add_0_r in Ep; exact Ep|exact Hc].
  - apply prt_pret. apply Hft. apply N.eqb_neq in Eb. congruence.
  - apply prt_pret. apply Hft. discriminate.
Qed.

(* the usual success conditions *)
Definition GkB {A} : A -> lrs -> view -> Prop := fun _ lr' v' => KB lr' v'.
Definition GsB {A} (v : view) : A -> lrs -> view -> Prop := fun _ lr' v' => KB lr' v' /\ vcur v < vcur v'.

Definition G1 {A} (v : view) : A -> lrs -> view -> Prop := fun _ lr' v' => KB lr' v' /\ vcur v' = vcur v + 1.

Lemma one_byte_tok c lr v : c <> 10 -> KB lr v -> prt (one_byte c) lr v (TokPostB (G1 v) v).
Proof.
  intros Hc HK. eapply prt_conseq; [apply one_byte_B; assumption|].
  intros a lr' v' (-> & Hf & _ & HK' & Ha). split; [exact Hf|].
  destruct a as [[u|e]|]; [split; [exact HK'|exact (proj1 Ha)]|contradiction|exact HK'].
Qed.

Lemma required_space_B lr v : KB lr v -> prt required_space lr v (ResPostB (G1 v) v).
Proof. intros HK. unfold required_space, space_tok. apply or_unexpected_B. apply one_byte_tok; [lia|exact HK]. Qed.

(* token::newline: one LF; afterwards the cursor is at the start of the next line *)
Lemma newline_tok_B lr v : KB lr v ->
  prt newline_tok lr v (TokPostB (fun _ lr' v' => KB lr' v' /\ vcur v' = vcur v + 1 /\ nnth (vS v) (vcur v) = Some 10) v).
Proof.
  intros HK. unfold newline_tok, tok_ok, tok_ft. apply prt_pbnd, prt_ppeek.
  pose proof (peeked_after_peek v 0) as Hpk0.
  pose proof (peeked_quiet _ _ _ (wfB _ _ HK) Hpk0) as Hq0.
  pose proof (KB_quiet _ _ _ HK Hq0) as HK0.
  destruct (vpeek v 0) as [b|] eqn:Ep; [destruct (b =? 10) eqn:Eb|];
    [|apply prt_pret; split; [apply quiet_frame; exact Hq0|exact HK0]..].
  apply N.eqb_eq in Eb. subst b.
  assert (Hlf : nnth (vS v) (vcur v) = Some 10) by (unfold vpeek in Ep; rewrite N.add_0_r in Ep; exact Ep).
  pose proof (hwm_after_peek_some v 0 10 Ep) as Hh.
  assert (Hadv : vcur (after_peek v 0) + 1 <= vhwm (after_peek v 0)) by (change (vcur (after_peek v 0)) with (vcur v); lia).
  pose proof (VOK_advance _ _ 1 (KB_VOK _ _ HK0) Hadv) as Hv2.
  apply prt_pbnd, prt_padvance; [exact Hadv|].
  apply prt_pbnd, (prt_line_at_offset fuel); [exact Hv2|]. apply prt_pret.
  split; [unfold frame; cbn [v_advance after_peek vS vfail vcur]; split; [reflexivity|split; [reflexivity|lia]]|].
  split; [|split; [reflexivity|exact Hlf]].
  pose proof HK as [[_ (h1 & h2 & _)] HL].
  apply KB_intro; [exact Hv2|cbn [l_start v_advance after_peek vcur]; lia|apply nolf_empty; cbn [l_start v_advance after_peek vcur]; lia|].
  cbn [v_advance after_peek vS vcur]. replace (vcur v + 1 + 0) with (vcur v + 1) by lia.
  apply LS_next; assumption.
Qed.

(* token::skip_whitespace: while scanning at offset off the line start may be ahead of the cursor *)
Definition KBo (lr : lrs) (v : view) (off : N) : Prop :=
  VOK v /\ l_start lr <= vcur v + off /\ nolf (vS v) (l_start lr) (vcur v + off) /\ LS (vS v) lr /\
  vcur v + off <= vhwm v.

Lemma KBo_quiet lr v v' off : KBo lr v off -> quiet v v' -> KBo lr v' off.
Proof.
  intros (h1 & h2 & h3 & h4 & h5) Hq. pose proof (VOK_quiet _ _ _ h1 Hq) as Hv'.
  destruct Hq as (a1 & _ & a3 & _ & _ & a6 & _). unfold KBo. rewrite a1, a3.
  split; [exact Hv'|]. split; [exact h2|]. split; [exact h3|]. split; [exact h4|lia].
Qed.

Lemma skip_ws_loop_B n : forall off lr v, KBo lr v off -> (N.to_nat (nlen (vS v) - (vcur v + off)) < n)%nat ->
  prt (skip_ws_loop n off) lr v (fun off' lr' v' => quiet v v' /\ KBo lr' v' off').
Proof.
  induction n as [|n IH]; intros off lr v HK Hm; [lia|]. cbn [skip_ws_loop].
  pose proof HK as (Hv & h2 & h3 & h4 & h5).
  apply prt_pbnd, prt_ppeek.
  pose proof (peeked_after_peek v off) as Hpk0.
  pose proof (peeked_quiet _ _ _ (VOK_WFV _ _ Hv) Hpk0) as Hq0.
  pose proof (KBo_quiet _ _ _ _ HK Hq0) as HK0.
  destruct (vpeek v off) as [b|] eqn:Ep; [|apply prt_pret; split; [exact Hq0|exact HK0]].
  pose proof (hwm_after_peek_some v off b Ep) as Hh.
  assert (Hnn : nnth (vS v) (vcur v + off) = Some b) by exact Ep.
  pose proof (nnth_some_lt _ _ _ Hnn) as Hlt.
  pose proof HK0 as (Hv0 & _).
  assert (Hm' : (N.to_nat (nlen (vS (after_peek v off)) - (vcur (after_peek v off) + (off + 1))) < n)%nat).
  { cbn [after_peek vS vcur]. lia. }
  destruct (b =? 32) eqn:E32.
  - apply N.eqb_eq in E32. subst b.
    eapply prt_conseq; [apply IH; [|exact Hm']|].
    + split; [exact Hv0|]. cbn [after_peek vS vcur].
      split; [lia|]. split; [|split; [exact h4|change (vhwm (after_peek v off)) with (vhwm (after_peek v off)); lia]].
      replace (vcur v + (off + 1)) with (vcur v + off + 1) by lia.
      eapply nolf_trans; [exact h3|apply (nolf_one _ _ 32); [exact Hnn|lia]].
    + intros off' lr' v' [Hq' HK']. split; [eapply quiet_trans; eassumption|exact HK'].
  - destruct (b =? 10) eqn:E10.
    + apply N.eqb_eq in E10. subst b.
      apply prt_pbnd, (prt_line_at_offset fuel); [exact Hv0|].
      eapply prt_conseq; [apply IH; [|exact Hm']|].
      * split; [exact Hv0|]. cbn [after_peek vS vcur l_start].
        split; [lia|]. split; [apply nolf_empty; lia|]. split; [|lia].
        replace (vcur v + (off + 1)) with (vcur v + off + 1) by lia. apply LS_next; assumption.
      * intros off' lr' v' [Hq' HK']. split; [eapply quiet_trans; eassumption|exact HK'].
    + apply prt_pret. split; [exact Hq0|exact HK0].
Qed.

Lemma skip_ws_B lr v : KB lr v -> prt (skip_ws fuel) lr v (fun _ lr' v' => KB lr' v' /\ frame v v').
Proof.
  intros HK. unfold skip_ws. apply prt_pbnd.
  pose proof HK as [[Hv (h1 & h2 & _)] HL].
  eapply prt_conseq; [apply (skip_ws_loop_B fuel 0 lr v)|].
  - split; [exact Hv|]. rewrite N.add_0_r. split; [exact h1|]. split; [exact h2|]. split; [exact HL|].
    destruct Hv as (_ & _ & Hc & _). exact Hc.
  - pose proof (VOK_fuel _ _ Hv). unfold nlen. lia.
  - intros off' lr' v' [Hq (k1 & k2 & k3 & k4 & k5)]. apply prt_padvance; [exact k5|].
    pose proof Hq as (a1 & a2 & a3 & _).
    split; [|unfold frame; cbn [v_advance vS vfail vcur]; split; [exact a1|split; [exact a2|lia]]].
    apply KB_intro; [apply VOK_advance; assumption|exact k2|exact k3|exact k4].
Qed.

(* ================================================================== *)
(* 4. integers                                                          *)

(* the digit scanner, with how far the high-water mark has moved *)
Lemma prt_digits_hwm t off lr v (Q : option Z * N -> lrs -> view -> Prop) :
  VOK v ->
  (forall v1, quiet v v1 ->
              (0 < snd (unsigned_spec t (rest_at v off)) ->
               vcur v + (off + snd (unsigned_spec t (rest_at v off))) <= vhwm v1) ->
              Q (fst (unsigned_spec t (rest_at v off)), off + snd (unsigned_spec t (rest_at v off))) lr v1) ->
  prt (lift (ascii_digits_multi fuel t off)) lr v Q.
Proof.
  intros Hv H. apply prt_lift. intros r Hr.
  pose proof Hv as (Hw & (Hb & Hf & _) & _).
  destruct (ascii_digits_multi_spec fuel t off v r Hw Hb) as (v1 & -> & Hc); [pose proof (rest_len' v off); lia|exact Hr|].
  destruct (aruns_wf _ _ _ Hr Hw _ _ eq_refl) as [Hw1 _].
  destruct (aruns_mono _ _ _ Hr Hw _ _ eq_refl) as (Hh & _).
  destruct (multi_hwm fuel t off v _ _ v1 Hw Hb Hr) as [_ Hhw].
  eexists _, v1. split; [reflexivity|]. apply H; [eapply core_after_quiet; eassumption|].
  intros Hpos. apply Hhw. lia.
Qed.

(* the numeral at the head of l as token::uint accepts it: digits, not empty, no leading zero unless it is "0",
   and its value fits u64 *)
Definition U64MAX : N := 18446744073709551615.

Definition UintVal (l : bytes) (x : N) : Prop :=
  match digit_prefix l with
  | [] => False
  | b :: ds => (b <> 48 \/ ds = []) /\ x = dec_val (b :: ds) /\ x <= U64MAX
  end.

Definition UintPost (lr : lrs) (v : view) (a : parsed N unit) (lr' : lrs) (v' : view) : Prop :=
  lr' = lr /\ KB lr v' /\ frame v v' /\ vmark v' = vcur v /\
  match a with
  | Res (Ok x) => vcur v < vcur v' /\ UintVal (rest_at v 0) x
  | _ => vcur v' = vcur v
  end.

Lemma in_range_U64 z : in_range U64 z = true -> (0 <= z <= 18446744073709551615)%Z.
Proof. intros H. apply in_range_iff in H. exact H. Qed.

Lemma uint_B lr v : KB lr v -> prt (uint fuel) lr v (UintPost lr v).
Proof.
  intros HK. unfold uint. apply prt_pbnd, prt_pset_mark.
  pose proof (KB_setmark lr v HK) as HK0.
  apply prt_pbnd, prt_digits_hwm; [exact (KB_VOK _ _ HK0)|]. intros v1 Hq1 Hh1. cbv beta iota.
  change (rest_at (v_setmark v) 0) with (rest_at v 0) in *.
  change (vcur (v_setmark v)) with (vcur v) in *.
  pose proof (KB_quiet _ _ _ HK0 Hq1) as HK1.
  pose proof Hq1 as (a1 & a2 & a3 & a4 & _).
  cbn [v_setmark vS vfail vcur vmark] in a1, a2, a3, a4.
  assert (Hnone : forall (a : parsed N unit) v2, quiet v1 v2 -> match a with Res (Ok _) => False | _ => True end ->
            UintPost lr v a lr v2).
  { intros a v2 Hq2 Ha. pose proof (quiet_trans _ _ _ Hq1 Hq2) as Hq.
    pose proof Hq as (b1 & b2 & b3 & b4 & _). cbn [v_setmark vS vfail vcur vmark] in b1, b2, b3, b4.
    split; [reflexivity|]. split; [eapply KB_quiet; [exact HK0|exact Hq]|].
    split; [unfold frame; split; [exact b1|split; [exact b2|lia]]|]. split; [exact b4|].
    destruct a as [[x|u]|]; [contradiction|exact b3|exact b3]. }
  unfold unsigned_spec in *. cbn [fst snd] in *.
  set (d := digit_prefix (rest_at v 0)) in *.
  destruct (0 + nlen d =? 0) eqn:E0; [apply prt_pret; apply (Hnone Fallthrough); [apply quiet_refl; eapply wfB; exact HK1|exact I]|].
  apply N.eqb_neq in E0.
  apply prt_pbnd, prt_ppeek.
  pose proof (peeked_after_peek v1 0) as Hpk2.
  pose proof (peeked_quiet _ _ _ (wfB _ _ HK1) Hpk2) as Hq2.
  pose proof (quiet_trans _ _ _ Hq1 Hq2) as Hq12.
  pose proof (KB_quiet _ _ _ HK0 Hq12) as HK2.
  rewrite (vpeek_quiet _ _ _ Hq1). change (vpeek (v_setmark v) 0) with (vpeek v 0).
  (* the first digit is the byte at the cursor *)
  assert (Hd : exists b ds, d = b :: ds /\ vpeek v 0 = Some b).
  { unfold d. rewrite vpeek_rest. destruct (rest_at v 0) as [|b r] eqn:Er.
    - exfalso. apply E0. reflexivity.
    - cbn [digit_prefix] in *. destruct (is_dig b); [eauto|exfalso; apply E0; reflexivity]. }
  destruct Hd as (b & ds & Ed & Ep). rewrite Ep.
  destruct (negb (b =? 48) || (0 + nlen d =? 1)) eqn:Ec;
    [|apply prt_pret; apply (Hnone (Res (Err tt))); [exact Hq2|exact I]].
  destruct (from_prim U64 (Z.of_N (dec_val d))) as [z|] eqn:Ez;
    [|apply prt_pret; apply (Hnone (Res (Err tt))); [exact Hq2|exact I]].
  pose proof Hq12 as (c1 & c2 & c3 & c4 & _ & c6 & _).
  cbn [v_setmark vS vfail vcur vmark] in c1, c2, c3, c4.
  assert (Hadv : vcur (after_peek v1 0) + (0 + nlen d) <= vhwm (after_peek v1 0)).
  { rewrite c3. destruct Hq2 as (_ & _ & _ & _ & _ & e6 & _). specialize (Hh1 ltac:(lia)). lia. }
  apply prt_pbnd, prt_padvance; [exact Hadv|]. apply prt_pret.
  split; [reflexivity|]. split.
  - apply KB_advance; [exact HK2|exact Hadv|]. rewrite c1, c3.
    replace (vcur v + (0 + nlen d)) with (vcur v + 0 + nlen d) by lia. rewrite <- (N.add_0_r (vcur v)) at 1.
    apply span_nolf. apply span_digits.
  - split; [unfold frame; cbn [v_advance vS vfail vcur]; split; [exact c1|split; [exact c2|lia]]|].
    split; [exact c4|]. split; [cbn [v_advance vcur]; lia|].
    unfold UintVal. fold d. rewrite Ed.
    apply from_prim_some in Ez. destruct Ez as [Hin ->]. apply in_range_U64 in Hin. rewrite <- Ed.
    split; [|split; [lia|unfold U64MAX; lia]].
    apply orb_prop in Ec. destruct Ec as [Ec|Ec].
    + left. apply negb_true_iff, N.eqb_neq in Ec. exact Ec.
    + right. apply N.eqb_eq in Ec. rewrite Ed, nlen_cons in Ec. destruct ds; [reflexivity|rewrite nlen_cons in Ec; lia].
Qed.

(* located integers: success as for uint; an error is located at the mark = the start of the numeral *)
Definition GintB (P : N -> Prop) (lr : lrs) (v : view) : N -> lrs -> view -> Prop :=
  fun x lr' v' => lr' = lr /\ KB lr v' /\ vcur v < vcur v' /\ P x.

Lemma located_uint_B lr v v0 : KB lr v -> quiet v0 v ->
  prt (located (uint fuel) give_up_at_mark) lr v (TokPostB (GintB (UintVal (rest_at v0 0)) lr v) v).
Proof.
  intros HK Hq0. unfold located, tok_ok, tok_err, tok_ft. apply prt_pbnd. eapply prt_conseq; [apply uint_B; exact HK|].
  intros a lr1 v1 (-> & HK1 & Hf & Hm & Ha). destruct a as [[x|[]]|].
  - apply prt_pret. split; [exact Hf|]. destruct Ha as [Hlt Hx]. split; [reflexivity|]. split; [exact HK1|].
    split; [exact Hlt|]. rewrite <- (rest_at_quiet _ _ 0 Hq0). exact Hx.
  - apply prt_pbnd. pose proof HK as [[_ (h1 & _)] _].
    eapply prt_conseq; [apply prt_give_up_at_mark_B; [exact HK1|rewrite Hm; exact h1|rewrite Hm, Ha; lia]|].
    intros e lr2 v2 [Hf2 He]. apply prt_pret. split; [eapply frame_trans; eassumption|exact He].
  - apply prt_pret. split; [exact Hf|exact HK1].
Qed.

Lemma nonnegative_int_B lr v : KB lr v ->
  prt (nonnegative_int fuel) lr v (TokPostB (GintB (UintVal (rest_at v 0)) lr v) v).
Proof. intros HK. unfold nonnegative_int. apply located_uint_B; [exact HK|apply quiet_refl; eapply wfB; exact HK]. Qed.

(* positive_int: moreover the numeral does not start with 0, so the value is not 0 (the unwrap cannot fail) *)
Definition PosVal (l : bytes) (x : N) : Prop := UintVal l x /\ 1 <= x.

Lemma positive_int_B lr v : KB lr v ->
  prt (positive_int fuel) lr v (TokPostB (GintB (PosVal (rest_at v 0)) lr v) v).
Proof.
  intros HK. unfold positive_int, tok_ok, tok_ft. apply prt_pbnd, prt_ppeek.
  pose proof (peeked_after_peek v 0) as Hpk0.
  pose proof (peeked_quiet _ _ _ (wfB _ _ HK) Hpk0) as Hq0.
  pose proof (KB_quiet _ _ _ HK Hq0) as HK0.
  destruct (match vpeek v 0 with Some b => b =? 48 | None => false end) eqn:E48;
    [apply prt_pret; split; [apply quiet_frame; exact Hq0|exact HK0]|].
  apply prt_pbnd. eapply prt_conseq; [apply (located_uint_B lr (after_peek v 0) v); [exact HK0|exact Hq0]|].
  intros a lr1 v1 [Hf Ha]. pose proof (frame_trans _ _ _ (quiet_frame _ _ Hq0) Hf) as Hf1.
  destruct a as [[x|e]|]; [|apply prt_pret; split; assumption..].
  destruct Ha as (-> & HK1 & Hlt & Hx). change (vcur (after_peek v 0)) with (vcur v) in Hlt.
  assert (Hpos : 1 <= x).
  { unfold UintVal in Hx. rewrite vpeek_rest in E48. destruct (rest_at v 0) as [|b r] eqn:Er; [contradiction|].
    cbn [digit_prefix] in Hx. destruct (is_dig b) eqn:Hb; [|contradiction].
    destruct Hx as (_ & -> & _). apply dec_val_pos.
    unfold is_dig in Hb. apply andb_prop in Hb. destruct Hb as [Hb _]. apply N.leb_le in Hb.
    apply N.eqb_neq in E48. lia. }
  assert ((x =? 0) = false) as -> by (apply N.eqb_neq; lia).
  apply prt_pret. split; [exact Hf1|]. split; [reflexivity|]. split; [exact HK1|]. split; [exact Hlt|]. split; assumption.
Qed.


(* ================================================================== *)
(* 5. consuming what has been scanned                                   *)

Lemma KB_consume_hwm lr v v2 n :
  KB lr v -> quiet v v2 -> span (vS v) (vcur v) n -> vcur v + n <= vhwm v2 ->
  vcur v2 + n <= vhwm v2 /\ KB lr (v_advance v2 n) /\ frame v (v_advance v2 n) /\
  vcur (v_advance v2 n) = vcur v + n /\ vmark (v_advance v2 n) = vmark v.
Proof.
  intros HK Hq Hsp Hh. pose proof (KB_quiet _ _ _ HK Hq) as HK2.
  pose proof Hq as (a1 & a2 & a3 & a4 & _).
  assert (Hh2 : vcur v2 + n <= vhwm v2) by (rewrite a3; exact Hh).
  split; [exact Hh2|]. split.
  - apply KB_advance; [exact HK2|exact Hh2|]. rewrite a1, a3. apply span_nolf. exact Hsp.
  - split; [unfold frame; cbn [v_advance vS vfail vcur]; split; [exact a1|split; [exact a2|lia]]|].
    split; [cbn [v_advance vcur]; lia|exact a4].
Qed.

(* ---------- the keyword scanner ---------- *)
Lemma nlen_le_bytes k w : nlen (le_bytes (N.to_nat k) w) = k.
Proof. unfold nlen. rewrite length_le_bytes. lia. Qed.

Lemma ascii_lowercase_B n : forall off acc v,
  VOK v -> (length (rest_at v off) < n)%nat ->
  runs_to (ascii_lowercase n off acc) v (fun res v' =>
    quiet v v' /\ nlen res = nlen acc + nlen (lower_prefix (rest_at v off)) /\
    (0 < nlen (lower_prefix (rest_at v off)) -> vcur v + off + nlen (lower_prefix (rest_at v off)) <= vhwm v')).
Proof.
  induction n as [|n IH]; intros off acc v Hv Hf; [lia|]. cbn [ascii_lowercase].
  apply rt_bind. intros r Hr.
  pose proof Hv as (Hw & (Hb & _ & _) & _ & _).
  destruct (lc_u64_spec off v r Hw Hb Hr) as (v1 & -> & Hc).
  destruct (aruns_wf _ _ _ Hr Hw _ _ eq_refl) as [Hw1 _].
  destruct (aruns_mono _ _ _ Hr Hw _ _ eq_refl) as (Hh & _).
  pose proof (core_after_quiet _ _ _ Hw1 Hh Hc) as Hq1.
  unfold lc_spec in Hr |- *.
  pose proof (lc_u64_hwm off v _ _ v1 Hw Hb Hr) as Hhw.
  eexists _, v1. split; [reflexivity|]. cbv beta iota.
  pose proof (lower_prefix_chunk 8 (rest_at v off)) as Hch.
  set (lp8 := lower_prefix (firstn 8 (rest_at v off))) in *.
  destruct Hch as [[H1 H2]|(H1 & H2 & H3)].
  - assert ((nlen lp8 <? 8) = true) as -> by (apply N.ltb_lt; unfold nlen; lia).
    apply rt_ret. split; [exact Hq1|]. split.
    + rewrite nlen_app, nlen_le_bytes, H2. reflexivity.
    + rewrite H2. exact Hhw.
  - assert ((nlen lp8 <? 8) = false) as -> by (apply N.ltb_ge; unfold nlen; lia).
    assert (E8 : nlen lp8 = 8) by (unfold nlen; lia).
    assert (Hrest : rest_at v1 (off + nlen lp8) = skipn 8 (rest_at v off)).
    { rewrite (rest_at_quiet _ _ _ Hq1), E8. unfold rest_at.
      change (skipn 8 (nskipn (vcur v + off) (vS v))) with (nskipn 8 (nskipn (vcur v + off) (vS v))).
      rewrite nskipn_nskipn. f_equal. lia. }
    eapply rt_conseq; [apply (IH (off + nlen lp8) _ v1 (VOK_quiet _ _ _ Hv Hq1))|].
    + rewrite Hrest, skipn_length. lia.
    + intros res v2 (Hq2 & Hl & Hh2). rewrite Hrest in Hl, Hh2. split; [eapply quiet_trans; eassumption|].
      split.
      * rewrite Hl, nlen_app, nlen_le_bytes, H3, nlen_app. lia.
      * intros _. rewrite H3, nlen_app.
        destruct (N.eq_dec (nlen (lower_prefix (skipn 8 (rest_at v off)))) 0) as [E0|E0].
        -- rewrite E0. specialize (Hhw ltac:(lia)). destruct Hq2 as (_ & _ & _ & _ & _ & q6 & _). lia.
        -- specialize (Hh2 ltac:(lia)). destruct Hq1 as (_ & _ & q3 & _). rewrite q3 in Hh2. lia.
Qed.

Lemma keyword_B {A} (tbl : list (bytes * A)) lr v : KB lr v ->
  prt (keyword fuel tbl) lr v (TokPostB (fun _ lr' v' => lr' = lr /\ KB lr v') v).
Proof.
  intros HK. unfold keyword, tok_ok, tok_ft. apply prt_pbnd, prt_lift.
  eapply rt_conseq; [apply (ascii_lowercase_B fuel 0 [] v (KB_VOK _ _ HK))|].
  - pose proof (rest_at_len v 0). pose proof (fuelB _ _ HK). lia.
  - intros matched v1 (Hq1 & Hl & Hh). change (nlen (@nil byte)) with 0 in Hl.
    destruct (lookup matched tbl) as [t|];
      [|apply prt_pret; split; [apply quiet_frame; exact Hq1|eapply KB_quiet; eassumption]].
    set (k := nlen (lower_prefix (rest_at v 0))) in *.
    destruct (KB_consume_hwm lr v v1 (nlen matched) HK Hq1) as (h1 & h2 & h3 & _).
    + rewrite Hl. eapply span_eq; [apply (span_lower v 0)|lia|fold k; lia].
    + rewrite Hl. destruct (N.eq_dec k 0) as [E|E].
      * rewrite E. destruct Hq1 as (_ & _ & _ & _ & _ & q6 & _). pose proof (KB_VOK _ _ HK) as (_ & _ & Hc & _). lia.
      * specialize (Hh ltac:(lia)). lia.
    + apply prt_pbnd, prt_padvance; [exact h1|]. apply prt_pret. split; [exact h3|]. split; [reflexivity|exact h2].
Qed.

(* ---------- scans that collect what they walk over ---------- *)
Lemma prt_take_while p off acc lr v (Q : N * bytes -> lrs -> view -> Prop) :
  (length (vS v) < fuel)%nat ->
  (forall v1, peeked_to v v1 (vcur v + off + nlen (takep p (rest_at v off)) + 1) ->
              Q (off + nlen (takep p (rest_at v off)), rev acc ++ takep p (rest_at v off)) lr v1) ->
  prt (lift (take_while fuel p off acc)) lr v Q.
Proof.
  intros Hf H. destruct (take_while_peeked fuel p off acc v) as (v1 & Hrun & Hpk).
  { pose proof (takep_le p (rest_at v off)). pose proof (rest_at_len v off). lia. }
  apply prt_lift. eapply rt_det; [apply det_take_while|exact Hrun|apply H; exact Hpk].
Qed.

(* the byte the scan stopped at *)
Lemma takep_stop_peek p v off :
  match vpeek v (off + nlen (takep p (rest_at v off))) with Some x => p x = false | None => True end.
Proof.
  destruct (takep_spec p (rest_at v off)) as (r & E & _ & Hr). unfold vpeek.
  replace (vcur v + (off + nlen (takep p (rest_at v off)))) with (vcur v + off + nlen (takep p (rest_at v off)) + 0) by lia.
  rewrite (nnth_span_r (vS v) (vcur v + off) _ r 0 E).
  destruct r as [|x r']; [exact I|exact Hr].
Qed.

(* where a line may end: at an LF, or at the clean end of the input *)
Definition LineEnd (v' : view) : Prop :=
  nnth (vS v') (vcur v') = Some 10 \/ (nlen (vS v') <= vcur v' /\ vfail v' = None /\ vknown v' = true).

Lemma comment_body_B lr v : KB lr v ->
  prt (comment_body fuel) lr v
      (ResPostB (fun body lr' v' => lr' = lr /\ KB lr v' /\ vcur v <= vcur v' /\ LineEnd v' /\ cmt_ok body) v).
Proof.
  intros HK. unfold comment_body. apply prt_pbnd, prt_take_while; [eapply fuelB; exact HK|]. intros v1 Hpk1. cbv beta iota.
  pose proof (peeked_quiet _ _ _ (wfB _ _ HK) Hpk1) as Hq1.
  pose proof (KB_quiet _ _ _ HK Hq1) as HK1.
  set (p := fun b : byte => negb (b =? 10)) in *.
  assert (Hp10 : forall b, p b = true -> b <> 10) by (intros b Hb E; subst b; discriminate Hb).
  pose proof (span_takep p v 0 Hp10) as Hsp.
  pose proof (takep_stop_peek p v 0) as Hstop.
  destruct (takep_spec p (rest_at v 0)) as (r0 & _ & Hfa & _).
  set (tp := takep p (rest_at v 0)) in *. rewrite N.add_0_r in Hsp.
  pose proof (span_le _ _ _ Hsp (KB_cur_le _ _ HK)) as Hle.
  apply prt_pbnd, prt_ppeek.
  pose proof (peeked_after_peek v1 (0 + nlen tp)) as Hpk2.
  pose proof (peeked_quiet _ _ _ (wfB _ _ HK1) Hpk2) as Hq2.
  pose proof (quiet_trans _ _ _ Hq1 Hq2) as Hq12.
  pose proof (KB_quiet _ _ _ HK Hq12) as HK2.
  assert (Hh : vcur v + (0 + nlen tp) <= vhwm (after_peek v1 (0 + nlen tp))).
  { destruct Hq2 as (_ & _ & _ & _ & _ & e6 & _).
    assert (vcur v + (0 + nlen tp) <= vhwm v1) by (eapply peeked_hwm; [exact Hpk1|lia|lia]). lia. }
  destruct (KB_consume_hwm lr v _ (0 + nlen tp) HK Hq12) as (h1 & h2 & h3 & h4 & _);
    [eapply span_eq; [exact Hsp|reflexivity|lia]|exact Hh|].
  pose proof Hq12 as (c1 & c2 & c3 & _).
  pose proof (KB_VOK _ _ HK2) as (_ & _ & _ & Ht2).
  assert (Hkn : vpeek v (0 + nlen tp) = None -> vknown (after_peek v1 (0 + nlen tp)) = true).
  { intros E. cbn [after_peek vknown]. rewrite (vpeek_quiet _ _ _ Hq1), E. reflexivity. }
  rewrite (vpeek_quiet _ _ _ Hq1).
  destruct (vpeek v (0 + nlen tp)) as [x|] eqn:Ep.
  - (* the LF *)
    apply prt_pbnd, prt_pret. apply prt_pbnd, prt_padvance; [exact h1|]. apply prt_pret.
    split; [exact h3|]. split; [reflexivity|]. split; [exact h2|]. split; [lia|]. split; [|exact Hfa].
    left. rewrite h4. cbn [v_advance vS]. rewrite c1.
    assert (x = 10) by (unfold p in Hstop; apply negb_false_iff, N.eqb_eq in Hstop; exact Hstop). subst x. exact Ep.
  - (* the end of the data: is it the end of the input? *)
    specialize (Hkn eq_refl).
    apply prt_pbnd. apply prt_pbnd, prt_takeerr. apply prt_pret.
    destruct (s_take (after_peek v1 (0 + nlen tp))) as [io|] eqn:Est.
    + apply prt_pret. split; [unfold frame; cbn [v_take vS vfail vcur]; split; [exact c1|split; [exact c2|lia]]|].
      cbn [ErrPostB v_take vfail]. unfold s_take, v_err_now in Est. rewrite Hkn, Ht2 in Est. exact Est.
    + apply prt_pbnd, prt_padvance; [exact h1|]. apply prt_pret.
      split; [exact h3|]. split; [reflexivity|]. split; [exact h2|]. split; [cbn [v_advance v_take vcur]; lia|]. split; [|exact Hfa].
      right. cbn [v_advance v_take vS vcur vfail vknown]. rewrite c1, c2, c3.
      apply vpeek_none_iff in Ep. split; [lia|]. split; [|exact Hkn].
      unfold s_take, v_err_now in Est. rewrite Hkn, Ht2, c2 in Est. exact Est.
Qed.

Lemma symbol_name_B lr v : KB lr v ->
  prt (symbol_name fuel) lr v
      (TokPostB (fun name lr' v' => lr' = lr /\ KB lr v' /\ vcur v < vcur v' /\
                   name <> [] /\ forallb symch name = true /\ exists r, rest_at v 0 = name ++ r) v).
Proof.
  intros HK. unfold symbol_name, tok_ok, tok_ft. apply prt_pbnd, prt_take_while; [eapply fuelB; exact HK|]. intros v1 Hpk1. cbv beta iota.
  pose proof (peeked_quiet _ _ _ (wfB _ _ HK) Hpk1) as Hq1.
  pose proof (KB_quiet _ _ _ HK Hq1) as HK1.
  assert (Hp10 : forall b, symch b = true -> b <> 10) by (intros b Hb E; subst b; discriminate Hb).
  pose proof (span_takep symch v 0 Hp10) as Hsp.
  destruct (takep_spec symch (rest_at v 0)) as (r0 & Er0 & Hfa & _).
  change (fun b : byte => negb ((b =? 10) || (b =? 32))) with symch in *.
  set (tp := takep symch (rest_at v 0)) in *. rewrite N.add_0_r in Hsp.
  pose proof (span_le _ _ _ Hsp (KB_cur_le _ _ HK)) as Hle.
  destruct (0 + nlen tp =? 0) eqn:E0; [apply prt_pret; split; [apply quiet_frame; exact Hq1|exact HK1]|].
  apply N.eqb_neq in E0.
  destruct (KB_consume_hwm lr v v1 (0 + nlen tp) HK Hq1) as (h1 & h2 & h3 & h4 & _);
    [eapply span_eq; [exact Hsp|reflexivity|lia]|eapply peeked_hwm; [exact Hpk1|lia|lia]|].
  apply prt_pbnd, prt_padvance; [exact h1|]. apply prt_pret.
  split; [exact h3|]. split; [reflexivity|]. split; [exact h2|]. split; [lia|].
  cbn [rev app]. split; [intros E; apply E0; rewrite E; reflexivity|]. split; [exact Hfa|exists r0; exact Er0].
Qed.

(* ---------- the constants ---------- *)
Definition ScanOK (P : bytes -> Prop) (scan : prog (N * bytes)) : Prop :=
  forall v, VOK v -> runs_to scan v (fun r v' =>
    quiet v v' /\ span (vS v) (vcur v) (fst r) /\ vcur v + fst r <= vhwm v' /\ (fst r <> 0 -> P (snd r))).

Lemma scan_take_while p : (forall b, p b = true -> b <> 10) ->
  ScanOK (fun s => s <> [] /\ forallb p s = true) (take_while fuel p 0 []).
Proof.
  intros Hp v Hv. destruct (take_while_peeked fuel p 0 [] v) as (v1 & Hrun & Hpk).
  { pose proof (takep_le p (rest_at v 0)). pose proof (rest_at_len v 0). pose proof (VOK_fuel _ _ Hv). lia. }
  eapply rt_det; [apply det_take_while|exact Hrun|]. cbn [fst snd rev app].
  pose proof (span_takep p v 0 Hp) as Hsp. rewrite N.add_0_r in Hsp.
  pose proof (span_le _ _ _ Hsp (VOK_cur_le _ _ Hv)) as Hle.
  destruct (takep_spec p (rest_at v 0)) as (r0 & _ & Hfa & _).
  split; [exact (peeked_quiet _ _ _ (VOK_WFV _ _ Hv) Hpk)|].
  split; [eapply span_eq; [exact Hsp|reflexivity|lia]|]. split.
  - eapply peeked_hwm; [exact Hpk|lia|lia].
  - intros Hne. split; [intros E; apply Hne; rewrite E; reflexivity|exact Hfa].
Qed.

Lemma is_hex_nolf b : is_hex_digit b = true -> b <> 10.
Proof. intros H E. subst b. discriminate H. Qed.
Lemma is_bin_nolf b : is_bin_digit b = true -> b <> 10.
Proof. intros H E. subst b. discriminate H. Qed.
Lemma is_dig_nolf b : is_dig b = true -> b <> 10.
Proof. intros H E. subst b. discriminate H. Qed.

Lemma scan_decimal : ScanOK dec_const_ok (decimal_string fuel).
Proof.
  intros v Hv. unfold decimal_string.
  pose proof (peeked_after_peek v 0) as Hpk0.
  pose proof (peeked_quiet _ _ _ (VOK_WFV _ _ Hv) Hpk0) as Hq0.
  pose proof (VOK_quiet _ _ _ Hv Hq0) as Hv0.
  pose proof (VOK_cur_le _ _ Hv) as Hcl.
  destruct (match vpeek v 0 with Some b => b =? 45 | None => false end) eqn:E45.
  - destruct (take_while_peeked fuel is_dig 1 [45] (after_peek v 0)) as (v1 & Hrun & Hpk).
    { pose proof (takep_le is_dig (rest_at (after_peek v 0) 1)). pose proof (rest_at_len (after_peek v 0) 1).
      pose proof (VOK_fuel _ _ Hv0). lia. }
    eapply rt_det; [apply det_decimal_string|cbn [srun]; rewrite E45; exact Hrun|]. cbn [fst snd rev app].
    rewrite (rest_at_quiet _ _ _ Hq0) in *. change (vcur (after_peek v 0)) with (vcur v) in Hpk.
    pose proof (peeked_quiet _ _ _ (VOK_WFV _ _ Hv0) Hpk) as Hq1.
    set (tp := takep is_dig (rest_at v 1)) in *.
    assert (H45 : nnth (vS v) (vcur v) = Some 45).
    { destruct (vpeek v 0) as [b|] eqn:Ep; [|discriminate]. apply N.eqb_eq in E45. subst b.
      unfold vpeek in Ep. rewrite N.add_0_r in Ep. exact Ep. }
    assert (Hsp : span (vS v) (vcur v) (1 + nlen tp)).
    { eapply span_app'; [apply (span_one _ _ 45); [exact H45|lia]|apply (span_takep is_dig v 1 is_dig_nolf)|reflexivity]. }
    pose proof (span_le _ _ _ Hsp Hcl) as Hle.
    split; [eapply quiet_trans; eassumption|]. split; [exact Hsp|]. split.
    + change (vS (after_peek v 0)) with (vS v) in Hpk. eapply peeked_hwm; [exact Hpk|lia|exact Hle].
    + intros _. cbn [dec_const_ok]. change (45 =? 45) with true. cbv iota.
      destruct (takep_spec is_dig (rest_at v 1)) as (r0 & _ & Hfa & _). exact Hfa.
  - destruct (take_while_peeked fuel is_dig 0 [] (after_peek v 0)) as (v1 & Hrun & Hpk).
    { pose proof (takep_le is_dig (rest_at (after_peek v 0) 0)). pose proof (rest_at_len (after_peek v 0) 0).
      pose proof (VOK_fuel _ _ Hv0). lia. }
    eapply rt_det; [apply det_decimal_string|cbn [srun]; rewrite E45; exact Hrun|]. cbn [fst snd rev app].
    rewrite (rest_at_quiet _ _ _ Hq0) in *. change (vcur (after_peek v 0)) with (vcur v) in Hpk.
    pose proof (peeked_quiet _ _ _ (VOK_WFV _ _ Hv0) Hpk) as Hq1.
    pose proof (span_takep is_dig v 0 is_dig_nolf) as Hsp. rewrite N.add_0_r in Hsp.
    destruct (takep_spec is_dig (rest_at v 0)) as (r0 & _ & Hfa & _).
    set (tp := takep is_dig (rest_at v 0)) in *.
    pose proof (span_le _ _ _ Hsp Hcl) as Hle.
    split; [eapply quiet_trans; eassumption|]. split; [eapply span_eq; [exact Hsp|reflexivity|lia]|]. split.
    + eapply peeked_hwm; [exact Hpk|lia|change (vS (after_peek v 0)) with (vS v); lia].
    + intros Hne. destruct tp as [|c ds]; [exfalso; apply Hne; reflexivity|].
      cbn [dec_const_ok]. cbn [forallb] in Hfa. pose proof Hfa as Hfa'. apply andb_prop in Hfa'. destruct Hfa' as [Hc _].
      rewrite (is_dig_not_minus c Hc). exact Hfa.
Qed.

Lemma required_constant_B P scan lr v : ScanOK P scan -> KB lr v ->
  prt (required_constant scan) lr v (ResPostB (fun s lr' v' => KB lr' v' /\ vcur v < vcur v' /\ P s) v).
Proof.
  intros Hscan HK. unfold required_constant. apply prt_pbnd, prt_lift.
  eapply rt_conseq; [apply Hscan; exact (KB_VOK _ _ HK)|]. intros [matched s] v1 (Hq1 & Hsp & Hh & HP). cbn [fst snd] in *.
  destruct (matched =? 0) eqn:E0.
  - apply prt_pbnd. eapply prt_conseq; [apply unexpected_B; eapply KB_quiet; eassumption|].
    intros e lr2 v2 [Hf2 He]. apply prt_pret. split; [eapply frame_trans; [apply quiet_frame; exact Hq1|exact Hf2]|exact He].
  - apply N.eqb_neq in E0. destruct (KB_consume_hwm lr v v1 matched HK Hq1 Hsp Hh) as (h1 & h2 & h3 & h4 & _).
    apply prt_pbnd, prt_padvance; [exact h1|]. apply prt_pret. split; [exact h3|]. split; [exact h2|]. split; [lia|auto].
Qed.


(* ================================================================== *)
(* 6. parser.rs                                                         *)

(* the state while a line is parsed: the invariant, and the way back to where the line started *)
Definition St (v0 : view) (lr : lrs) (v : view) : Prop := KB lr v /\ frame v0 v.

Definition RS {A} (v0 : view) (P : A -> Prop) (a : result A perr) (lr' : lrs) (v' : view) : Prop :=
  match a with
  | Ok x => St v0 lr' v' /\ P x
  | Err e => frame v0 v' /\ ErrPostB e v'
  end.

Lemma ResPostB_RS {A} v0 v (G : A -> lrs -> view -> Prop) (P : A -> Prop) a lr' v' :
  frame v0 v -> (forall x, G x lr' v' -> KB lr' v' /\ P x) -> ResPostB G v a lr' v' -> RS v0 P a lr' v'.
Proof.
  intros Hf0 HG [Hf Ha]. pose proof (frame_trans _ _ _ Hf0 Hf) as Hf1. destruct a as [x|e]; cbn [RS].
  - destruct (HG x Ha) as [Hk Hp]. split; [split; assumption|exact Hp].
  - split; assumption.
Qed.

Lemma prt_rbnd_Q {A B} (m : PM (result A perr)) (f : A -> PM (result B perr)) lr v v0 (P : A -> Prop)
      (Q : result B perr -> lrs -> view -> Prop) :
  prt m lr v (RS v0 P) ->
  (forall e lr' v', frame v0 v' -> ErrPostB e v' -> Q (Err e) lr' v') ->
  (forall a lr' v', St v0 lr' v' -> P a -> prt (f a) lr' v' Q) ->
  prt (rbnd m f) lr v Q.
Proof.
  intros Hm He Hf. unfold rbnd. apply prt_pbnd. eapply prt_conseq; [exact Hm|]. intros [a|e] lr' v' Hr.
  - destruct Hr as [HS HP]. apply Hf; assumption.
  - destruct Hr as [H1 H2]. apply prt_pret. apply He; assumption.
Qed.

Lemma prt_rbnd_S {A B} (m : PM (result A perr)) (f : A -> PM (result B perr)) lr v v0 (P : A -> Prop) (P' : B -> Prop) :
  prt m lr v (RS v0 P) ->
  (forall a lr' v', St v0 lr' v' -> P a -> prt (f a) lr' v' (RS v0 P')) ->
  prt (rbnd m f) lr v (RS v0 P').
Proof. intros Hm Hf. eapply prt_rbnd_Q; [exact Hm| |exact Hf]. intros e lr' v' H1 H2. split; assumption. Qed.

Lemma prt_ok_S {A} (a : A) v0 lr v (P : A -> Prop) : St v0 lr v -> P a -> prt (pret (Ok a)) lr v (RS v0 P).
Proof. intros HS HP. apply prt_pret. split; assumption. Qed.

Lemma required_space_S v0 lr v : St v0 lr v -> prt required_space lr v (RS v0 (fun _ => True)).
Proof.
  intros [HK Hf]. eapply prt_conseq; [apply required_space_B; exact HK|]. intros a lr' v' Ha.
  eapply ResPostB_RS; [exact Hf| |exact Ha]. intros x [Hk _]. split; [exact Hk|exact I].
Qed.

Lemma PosVal_idok l x : PosVal l x -> idok x.
Proof.
  intros [Hu Hp]. unfold UintVal in Hu. destruct (digit_prefix l); [contradiction|]. destruct Hu as (_ & _ & Hle).
  unfold idok, U64MAX in *. change (2 ^ 64) with 18446744073709551616. lia.
Qed.

Lemma UintVal_u64ok l x : UintVal l x -> u64ok x.
Proof.
  intros Hu. unfold UintVal in Hu. destruct (digit_prefix l); [contradiction|]. destruct Hu as (_ & _ & Hle).
  unfold u64ok, U64MAX in *. change (2 ^ 64) with 18446744073709551616. lia.
Qed.

Lemma required_id_B lr v : KB lr v ->
  prt (or_unexpected (positive_int fuel)) lr v (ResPostB (GintB (PosVal (rest_at v 0)) lr v) v).
Proof. intros HK. apply or_unexpected_B, positive_int_B. exact HK. Qed.

Lemma required_id_S v0 lr v : St v0 lr v -> prt (or_unexpected (positive_int fuel)) lr v (RS v0 idok).
Proof.
  intros [HK Hf]. eapply prt_conseq; [apply required_id_B; exact HK|]. intros a lr' v' Ha.
  eapply ResPostB_RS; [exact Hf| |exact Ha]. intros x (-> & Hk & _ & Hx). split; [exact Hk|eapply PosVal_idok; exact Hx].
Qed.

Lemma required_node_id_S v0 lr v : St v0 lr v -> prt (required_node_id fuel) lr v (RS v0 idok).
Proof. apply required_id_S. Qed.
Lemma required_sort_id_S v0 lr v : St v0 lr v -> prt (required_sort_id fuel) lr v (RS v0 idok).
Proof. apply required_id_S. Qed.
Lemma required_positive_int_S v0 lr v : St v0 lr v -> prt (required_positive_int fuel) lr v (RS v0 idok).
Proof. apply required_id_S. Qed.

Lemma required_nonnegative_int_S v0 lr v : St v0 lr v -> prt (required_nonnegative_int fuel) lr v (RS v0 u64ok).
Proof.
  intros [HK Hf]. unfold required_nonnegative_int.
  eapply prt_conseq; [apply or_unexpected_B, nonnegative_int_B; exact HK|]. intros a lr' v' Ha.
  eapply ResPostB_RS; [exact Hf| |exact Ha]. intros x (-> & Hk & _ & Hx). split; [exact Hk|eapply UintVal_u64ok; exact Hx].
Qed.

Lemma required_constant_S P scan v0 lr v : ScanOK P scan -> St v0 lr v -> prt (required_constant scan) lr v (RS v0 P).
Proof.
  intros Hscan [HK Hf]. eapply prt_conseq; [apply required_constant_B; [exact Hscan|exact HK]|]. intros a lr' v' Ha.
  eapply ResPostB_RS; [exact Hf| |exact Ha]. intros x (Hk & _ & Hx). split; assumption.
Qed.

Lemma required_binary_constant_S v0 lr v : St v0 lr v ->
  prt (required_binary_constant fuel) lr v (RS v0 (fun s => s <> [] /\ forallb is_bin_digit s = true)).
Proof. apply required_constant_S. apply scan_take_while. exact is_bin_nolf. Qed.
Lemma required_hex_constant_S v0 lr v : St v0 lr v ->
  prt (required_hex_constant fuel) lr v (RS v0 (fun s => s <> [] /\ forallb is_hex_digit s = true)).
Proof. apply required_constant_S. apply scan_take_while. exact is_hex_nolf. Qed.
Lemma required_decimal_constant_S v0 lr v : St v0 lr v ->
  prt (required_decimal_constant fuel) lr v (RS v0 dec_const_ok).
Proof. apply required_constant_S. apply scan_decimal. Qed.

Lemma required_keyword_S {A} (tbl : list (bytes * A)) v0 lr v : St v0 lr v ->
  prt (or_unexpected (keyword fuel tbl)) lr v (RS v0 (fun _ => True)).
Proof.
  intros [HK Hf]. eapply prt_conseq; [apply or_unexpected_B, keyword_B; exact HK|]. intros a lr' v' Ha.
  eapply ResPostB_RS; [exact Hf| |exact Ha]. intros x (-> & Hk). split; [exact Hk|exact I].
Qed.

Ltac rs_tok :=
  first [ apply required_space_S | apply required_node_id_S | apply required_sort_id_S | apply required_positive_int_S
        | apply required_nonnegative_int_S | apply required_binary_constant_S | apply required_hex_constant_S
        | apply required_decimal_constant_S | apply required_keyword_S ]; eassumption.
Ltac rs_step := eapply prt_rbnd_S; [rs_tok|intros ? ? ? ? ?].

Lemma value_body_S vt v0 lr v : St v0 lr v -> prt (value_body fuel vt) lr v (RS v0 vv_ok).
Proof.
  intros HS. destruct vt as [| | | | | | | |x| |u|b|t]; cbn [value_body]; repeat rs_step;
    (apply prt_ok_S; [eassumption|]); cbn [vv_ok const_ok op_ok unop_ok]; auto.
  destruct x; cbn [ext_unary_op unop_ok]; auto.
  destruct u; cbn [tok_unary_op unop_ok]; auto.
Qed.

(* the loop counter exceeds the number of bytes left (meas, CnfSafe.v) *)
Lemma nlen_rev {A} (l : list A) : nlen (rev l) = nlen l.
Proof. unfold nlen. rewrite rev_length. reflexivity. Qed.

Lemma justice_loop_S n : forall count acc v0 lr v, St v0 lr v -> meas v n -> Forall idok acc ->
  prt (justice_loop fuel n count acc) lr v (RS v0 (fun nodes => Forall idok nodes /\ nlen nodes = nlen acc + count)).
Proof.
  induction n as [|n IH]; intros count acc v0 lr v HS Hm Hacc; [exfalso; unfold meas in Hm; lia|].
  cbn [justice_loop]. destruct HS as [HK Hf0].
  destruct (count =? 0) eqn:E0.
  - apply N.eqb_eq in E0. apply prt_ok_S; [split; assumption|]. split; [apply Forall_rev; exact Hacc|]. rewrite nlen_rev. lia.
  - apply N.eqb_neq in E0. unfold rbnd. apply prt_pbnd. eapply prt_conseq; [apply required_space_B; exact HK|].
    intros [u|e] lr1 v1 [Hf1 H1]; [|apply prt_pret; split; [eapply frame_trans; eassumption|exact H1]].
    destruct H1 as [HK1 Hc1]. apply prt_pbnd. unfold required_node_id.
    eapply prt_conseq; [apply required_id_B; exact HK1|].
    intros [x|e] lr2 v2 [Hf2 H2]; pose proof (frame_trans _ _ _ Hf1 Hf2) as Hf12;
      [|apply prt_pret; split; [eapply frame_trans; eassumption|exact H2]].
    destruct H2 as (-> & HK2 & Hlt2 & Hx).
    eapply prt_conseq; [apply (IH (count - 1) (x :: acc) v0 lr1 v2)|].
    + split; [exact HK2|eapply frame_trans; eassumption].
    + eapply (meas_step fuel lr1 v v2); [exact Hm|exact Hf12|lia|exact (KB_K _ _ HK2)].
    + constructor; [eapply PosVal_idok; exact Hx|exact Hacc].
    + intros [nodes|e] lr3 v3; cbn [RS]; [|auto]. intros (HS3 & Hn & Hl). split; [exact HS3|]. split; [exact Hn|].
      rewrite Hl, nlen_cons. lia.
Qed.

Lemma node_body_S t v0 lr v : St v0 lr v -> prt (node_body fuel t) lr v (RS v0 nv_ok).
Proof.
  intros HS. destruct t as [|k|k| |vt]; cbn [node_body].
  - rs_step. unfold sort_token. rs_step. destruct a0; repeat rs_step; (apply prt_ok_S; [eassumption|]); cbn [nv_ok]; auto.
  - repeat rs_step. apply prt_ok_S; [eassumption|]. cbn [nv_ok]. auto.
  - repeat rs_step. apply prt_ok_S; [eassumption|]. cbn [nv_ok]. auto.
  - rs_step. rs_step. eapply prt_rbnd_S.
    + apply justice_loop_S; [eassumption| |constructor].
      match goal with H : St _ ?l ?w |- meas ?w _ => destruct H as [Hk _]; exact (meas_init fuel l w (KB_K _ _ Hk)) end.
    + intros nodes lr3 v3 HS3 [Hn Hl]. apply prt_ok_S; [exact HS3|]. cbn [nv_ok]. split; [|exact Hn].
      change (nlen (@nil N)) with 0 in Hl. rewrite Hl, N.add_0_l. assumption.
  - rs_step. rs_step. eapply prt_rbnd_S; [apply value_body_S; eassumption|].
    intros vv lr3 v3 HS3 Hvv. apply prt_ok_S; [exact HS3|]. cbn [nv_ok]. auto.
Qed.


(* ---------- the end of a node line ---------- *)
(* the byte before the cursor is an LF: a line has just been completed *)
Definition PrevLF (v : view) : Prop := 0 < vcur v /\ nnth (vS v) (vcur v - 1) = Some 10.

Definition TrailerPost (v0 : view) (a : result (option bytes * bool) perr) (lr' : lrs) (v' : view) : Prop :=
  match a with
  | Ok (symbol, cmt) =>
      St v0 lr' v' /\ match symbol with Some sy => sym_ok sy | None => True end /\ (cmt = false -> PrevLF v')
  | Err e => frame v0 v' /\ ErrPostB e v'
  end.

Lemma unexpected_S {A} v0 lr v (Q : result A perr -> lrs -> view -> Prop) :
  St v0 lr v -> (forall e lr' v', frame v0 v' -> ErrPostB e v' -> Q (Err e) lr' v') ->
  prt (let* e := unexpected in pret (Err e)) lr v Q.
Proof.
  intros [HK Hf] HQ. apply prt_pbnd. eapply prt_conseq; [apply unexpected_B; exact HK|]. intros e lr2 v2 [Hf2 He].
  apply prt_pret. apply HQ; [eapply frame_trans; eassumption|exact He].
Qed.

(* newline, or else an error: the common tail of node_trailer *)
Lemma newline_tail_S (symbol : option bytes) v0 lr v :
  St v0 lr v -> match symbol with Some sy => sym_ok sy | None => True end ->
  prt (let* nl := newline_tok in
       match nl with
       | Res (Ok _) => pret (Ok (symbol, false))
       | Res (Err e) => pret (Err e)
       | Fallthrough => let* e := unexpected in pret (Err e)
       end) lr v (TrailerPost v0).
Proof.
  intros [HK Hf] Hsy. apply prt_pbnd. eapply prt_conseq; [apply newline_tok_B; exact HK|].
  intros nl lr1 v1 [Hf1 Hnl]. pose proof (frame_trans _ _ _ Hf Hf1) as Hf01. destruct nl as [[u|e]|].
  - destruct Hnl as (HK1 & Hc1 & Hlf). apply prt_pret. cbn [TrailerPost]. split; [split; assumption|]. split; [exact Hsy|].
    intros _. unfold PrevLF. destruct Hf1 as (E1 & _). rewrite E1, Hc1. replace (vcur v + 1 - 1) with (vcur v) by lia.
    split; [lia|exact Hlf].
  - apply prt_pret. split; assumption.
  - apply (unexpected_S v0); [split; assumption|]. intros e lr' v' H1 H2. split; assumption.
Qed.

Lemma vpeek_same v v' k : vS v' = vS v -> vcur v' = vcur v -> vpeek v' k = vpeek v k.
Proof. intros E1 E2. unfold vpeek. rewrite E1, E2. reflexivity. Qed.

Lemma node_trailer_S v0 lr v : St v0 lr v -> prt (node_trailer fuel) lr v (TrailerPost v0).
Proof.
  intros [HK Hf]. unfold node_trailer. apply prt_pbnd. unfold space_tok.
  eapply prt_conseq; [apply (one_byte_B 32); [lia|exact HK]|].
  intros sp lr1 v1 (-> & Hf1 & _ & HK1 & Hsp). pose proof (frame_trans _ _ _ Hf Hf1) as Hf01.
  destruct sp as [[u|e]|]; [|contradiction|apply newline_tail_S; [split; assumption|exact I]].
  apply prt_pbnd. unfold comment_start. eapply prt_conseq; [apply (one_byte_B 59); [lia|exact HK1]|].
  intros cs lr2 v2 (-> & Hf2 & _ & HK2 & Hcs). pose proof (frame_trans _ _ _ Hf01 Hf2) as Hf02.
  destruct cs as [[u2|e]|]; [apply prt_pret; cbn [TrailerPost]; split; [split; assumption|split; [exact I|discriminate]]|contradiction|].
  destruct Hcs as [Hc2 Hn59].
  apply prt_pbnd. eapply prt_conseq; [apply symbol_name_B; exact HK2|].
  intros sy lr3 v3 [Hf3 Hsy]. pose proof (frame_trans _ _ _ Hf02 Hf3) as Hf03.
  destruct sy as [[symbol|e]|]; [|apply prt_pret; split; assumption|apply (unexpected_S v0); [split; assumption|intros e lr' v' H1 H2; split; assumption]].
  destruct Hsy as (-> & HK3 & _ & Hne & Hch & r & Er).
  assert (Hsym : sym_ok symbol).
  { split; [exact Hne|]. split; [exact Hch|]. destruct symbol as [|b sy']; [congruence|]. cbn [hd].
    intros E. subst b. apply Hn59. destruct Hf2 as (E1 & _).
    rewrite <- (vpeek_same v1 v2 0 E1 Hc2), vpeek_rest, Er. reflexivity. }
  apply prt_pbnd. eapply prt_conseq; [apply (one_byte_B 32); [lia|exact HK3]|].
  intros sp2 lr4 v4 (-> & Hf4 & _ & HK4 & Hsp2). pose proof (frame_trans _ _ _ Hf03 Hf4) as Hf04.
  destruct sp2 as [[u4|e]|]; [|contradiction|apply newline_tail_S; [split; assumption|exact Hsym]].
  eapply prt_rbnd_Q.
  - eapply prt_conseq; [apply or_unexpected_B, (one_byte_tok 59); [lia|exact HK4]|]. intros a lr5 v5 Ha.
    eapply (ResPostB_RS v0 v4 _ (fun _ => True)); [exact Hf04| |exact Ha]. intros x [Hk _]. split; [exact Hk|exact I].
  - intros e lr' v' H1 H2. split; assumption.
  - intros _ lr5 v5 HS5 _. apply prt_pret. cbn [TrailerPost]. split; [exact HS5|]. split; [exact Hsym|discriminate].
Qed.

(* ---------- Parser::try_node ---------- *)
Definition NodeG (v : view) (nd : node) (lr' : lrs) (v' : view) : Prop :=
  KB lr' v' /\ vcur v < vcur v' /\ node_ok nd /\
  (n_comment nd = None \/ n_comment nd = Some []) /\ (n_comment nd = None -> PrevLF v').

Lemma try_node_B lr v : KB lr v -> prt (try_node fuel) lr v (TokPostB (NodeG v) v).
Proof.
  intros HK. unfold try_node, tok_err, tok_ft. apply prt_pbnd.
  eapply prt_conseq; [apply positive_int_B; exact HK|]. intros id lr1 v1 [Hf1 Hid].
  destruct id as [[node_id|e]|]; [|apply prt_pret; split; assumption..].
  destruct Hid as (-> & HK1 & Hlt1 & Hx). pose proof (PosVal_idok _ _ Hx) as Hidok.
  assert (HS1 : St v1 lr v1) by (split; [exact HK1|apply frame_refl]).
  apply prt_pbnd.
  apply (prt_conseq _ _ _ (fun (r : result node perr) lr' v' =>
           match r with Ok nd => St v1 lr' v' /\ node_ok nd /\
                                  (n_comment nd = None \/ n_comment nd = Some []) /\ (n_comment nd = None -> PrevLF v')
                      | Err e => frame v1 v' /\ ErrPostB e v' end)).
  - eapply prt_rbnd_Q; [apply required_space_S; exact HS1|intros e lr' v' H1 H2; split; assumption|].
    intros _ lr2 v2 HS2 _.
    eapply prt_rbnd_Q; [unfold node_token; apply required_keyword_S; exact HS2|intros e lr' v' H1 H2; split; assumption|].
    intros nt lr3 v3 HS3 _.
    eapply prt_rbnd_Q; [apply node_body_S; exact HS3|intros e lr' v' H1 H2; split; assumption|].
    intros variant lr4 v4 HS4 Hnv.
    unfold rbnd. apply prt_pbnd. eapply prt_conseq; [apply node_trailer_S; exact HS4|].
    intros [[symbol cmt]|e] lr5 v5 Htr; cbn [TrailerPost] in Htr; [|apply prt_pret; exact Htr].
    destruct Htr as (HS5 & Hsy & Hcm). apply prt_pret. split; [exact HS5|].
    cbn [n_comment]. split; [|split].
    + split; [exact Hidok|]. split; [exact Hnv|]. cbn [n_symbol n_comment]. split; [exact Hsy|]. destruct cmt; [reflexivity|exact I].
    + destruct cmt; [right; reflexivity|left; reflexivity].
    + destruct cmt; [discriminate|]. intros _. apply Hcm. reflexivity.
  - intros [nd|e] lr' v' Hr; apply prt_pret.
    + destruct Hr as ([Hk Hf] & H3 & H4 & H5). split; [eapply frame_trans; eassumption|]. split; [exact Hk|].
      split; [destruct Hf as (_ & _ & c5); lia|]. split; [exact H3|]. split; assumption.
    + destruct Hr as [Hf He]. split; [eapply frame_trans; eassumption|exact He].
Qed.


(* ---------- Parser::next_line ---------- *)
(* a line has been completed: its LF has been consumed, or the cursor is at where it ends *)
Definition Complete (v' : view) : Prop := PrevLF v' \/ LineEnd v'.

Definition NextPostB (v0 : view) (r : result (option line) perr) (lr' : lrs) (v' : view) : Prop :=
  match r with
  | Ok (Some l) => St v0 lr' v' /\ vcur v0 < vcur v' /\ Btor2Rt.line_ok l /\ Complete v'
  | Ok None => frame v0 v' /\ vfail v' = None
  | Err e => frame v0 v' /\ ErrPostB e v'
  end.

Definition FirstPost (v0 : view) (first : result (option line) perr) (lr : lrs) (v : view) : Prop :=
  match first with
  | Ok (Some l) =>
      St v0 lr v /\ vcur v0 < vcur v /\
      match l with
      | LComment c => c = []
      | LNode nd => node_ok nd /\ (n_comment nd = None \/ n_comment nd = Some []) /\ (n_comment nd = None -> PrevLF v)
      end
  | Ok None => St v0 lr v /\ vfail v = None
  | Err e => frame v0 v /\ ErrPostB e v
  end.

Lemma next_line_tail v0 first lr v : FirstPost v0 first lr v ->
  prt (match first with
       | Err e => pret (Err e)
       | Ok None =>
           let* io := lift (TakeErr Ret) in
           pret (match io with Some e => Err (EIo e) | None => Ok None end)
       | Ok (Some l) =>
           if has_comment l then let? body := comment_body fuel in pret (Ok (Some (update_comment l body)))
           else pret (Ok (Some l))
       end) lr v (NextPostB v0).
Proof.
  destruct first as [[l|]|e]; cbn [FirstPost].
  - intros ([HK Hf] & Hlt & Hl).
    assert (Hbody : forall l', (forall body, cmt_ok body -> Btor2Rt.line_ok (update_comment l' body)) ->
              prt (let? body := comment_body fuel in pret (Ok (Some (update_comment l' body)))) lr v (NextPostB v0)).
    { intros l' Hl'. unfold rbnd. apply prt_pbnd. eapply prt_conseq; [apply comment_body_B; exact HK|].
      intros [body|e] lr1 v1 [Hf1 Hb]; apply prt_pret; cbn [NextPostB].
      - destruct Hb as (-> & HK1 & Hle & Hend & Hcm). split; [split; [exact HK1|eapply frame_trans; eassumption]|].
        split; [lia|]. split; [apply Hl'; exact Hcm|right; exact Hend].
      - split; [eapply frame_trans; eassumption|exact Hb]. }
    destruct l as [c|nd]; cbn [has_comment].
    + apply Hbody. intros body Hcm. exact Hcm.
    + destruct Hl as (Hok & Hc & Hprev). destruct (n_comment nd) as [c0|] eqn:Enc.
      * apply Hbody. intros body Hcm. destruct Hok as (h1 & h2 & h3 & h4). cbn [update_comment Btor2Rt.line_ok].
        split; [exact h1|]. split; [exact h2|]. cbn [n_symbol n_comment]. split; [exact h3|exact Hcm].
      * apply prt_pret. cbn [NextPostB]. split; [split; assumption|]. split; [exact Hlt|]. split; [exact Hok|].
        left. apply Hprev. reflexivity.
  - intros ([HK Hf] & Hfail). apply prt_pbnd, prt_takeerr.
    assert (s_take v = None) as -> by (unfold s_take, v_err_now; rewrite Hfail; destruct (vknown v), (vtaken v); reflexivity).
    apply prt_pret. split; [exact Hf|exact Hfail].
  - intros H. apply prt_pret. exact H.
Qed.

Lemma next_line_B lr v : KB lr v -> prt (next_line fuel) lr v (NextPostB v).
Proof.
  intros HK. unfold next_line. apply prt_pbnd. eapply prt_conseq; [apply skip_ws_B; exact HK|]. intros _ lr1 v1 [HK1 Hf1].
  apply prt_pbnd. eapply prt_conseq; [apply try_node_B; exact HK1|]. intros tn lr2 v2 [Hf2 Htn].
  pose proof (frame_trans _ _ _ Hf1 Hf2) as Hf12.
  apply prt_pbnd. apply (prt_conseq _ _ _ (FirstPost v)); [|intros first lr' v' Hfp; apply next_line_tail; exact Hfp].
  destruct tn as [[nd|e]|].
  - apply prt_pret. destruct Htn as (HK2 & Hlt & Hok & Hc & Hp). cbn [FirstPost]. split; [split; assumption|].
    split; [destruct Hf1 as (_ & _ & c1); lia|]. split; [exact Hok|split; assumption].
  - apply prt_pret. split; assumption.
  - apply prt_pbnd. unfold comment_start. eapply prt_conseq; [apply (one_byte_B 59); [lia|exact Htn]|].
    intros c lr3 v3 (-> & Hf3 & _ & HK3 & Hc). pose proof (frame_trans _ _ _ Hf12 Hf3) as Hf13.
    destruct c as [[u|e]|]; [|contradiction|].
    + apply prt_pret. cbn [FirstPost]. split; [split; assumption|]. split; [|reflexivity].
      destruct Hc as [Hc _]. destruct Hf12 as (_ & _ & c12). lia.
    + apply prt_pbnd. eapply prt_conseq; [apply teof_B; exact HK3|]. intros ef lr4 v4 [Hf4 Hef].
      pose proof (frame_trans _ _ _ Hf13 Hf4) as Hf14. destruct ef as [[u|e]|].
      * apply prt_pret. cbn [FirstPost]. destruct Hef as (HK4 & Hfail & _). split; [split; assumption|exact Hfail].
      * apply prt_pret. split; assumption.
      * apply (unexpected_S v); [split; assumption|]. intros e lr' v' H1 H2. split; assumption.
Qed.

(* ---------- the whole parse ---------- *)
(* p is a position at which a line of S is complete: just after an LF, at an LF, or at the clean end of the input *)
Definition CompleteAt (S : bytes) (fail : option N) (p : N) : Prop :=
  p <= nlen S /\ ((0 < p /\ nnth S (p - 1) = Some 10) \/ nnth S p = Some 10 \/ (p = nlen S /\ fail = None)).

Lemma Complete_at lr v0 v' : KB lr v' -> frame v0 v' -> Complete v' -> CompleteAt (vS v0) (vfail v0) (vcur v').
Proof.
  intros HK (E1 & E2 & _) Hc. pose proof (KB_cur_le _ _ HK) as Hle. rewrite <- E1, <- E2. split; [exact Hle|].
  destruct Hc as [[H1 H2]|[H|(H1 & H2 & H3)]];
    [left; split; assumption|right; left; exact H|right; right; split; [lia|exact H2]].
Qed.

(* the items are well-formed lines (T4), each handed out at a position where a line is complete (T2; the positions
   are listed last item first), and the final outcome is right *)
Definition FinPostB (v0 : view) (r : list line * final) (v' : view) : Prop :=
  frame v0 v' /\ Forall Btor2Rt.line_ok (fst r) /\
  (exists ends, length ends = length (fst r) /\ Forall (CompleteAt (vS v0) (vfail v0)) ends /\
                StronglySorted (fun a b => b < a) ends) /\
  match snd r with FOk => vfail v' = None | FErr e => ErrPostB e v' end.

Lemma drive_lines_B n : forall acc ends v0 lr v, St v0 lr v -> meas v n ->
  Forall Btor2Rt.line_ok acc -> length ends = length acc -> Forall (CompleteAt (vS v0) (vfail v0)) ends ->
  StronglySorted (fun a b => b < a) ends -> Forall (fun p => p <= vcur v) ends ->
  prt (drive_lines fuel n acc) lr v (fun r _ v' => FinPostB v0 r v').
Proof.
  induction n as [|n IH]; intros acc ends v0 lr v [HK Hf0] Hm Hacc Hlen Hends Hsort Hbound; [exfalso; unfold meas in Hm; lia|].
  cbn [drive_lines]. apply prt_pbnd. eapply prt_conseq; [apply next_line_B; exact HK|]. intros r lr1 v1 Hr.
  assert (Hfin : forall fin v2, frame v0 v2 -> match fin with FOk => vfail v2 = None | FErr e => ErrPostB e v2 end ->
            FinPostB v0 (rev acc, fin) v2).
  { intros fin v2 Hf2 Hfin. split; [exact Hf2|]. cbn [fst snd]. split; [apply Forall_rev; exact Hacc|].
    split; [exists ends; split; [rewrite rev_length; exact Hlen|split; assumption]|exact Hfin]. }
  destruct r as [[l|]|e]; cbn [NextPostB] in Hr.
  - destruct Hr as ([HK1 Hf1] & Hlt & Hl & Hcomp). pose proof (frame_trans _ _ _ Hf0 Hf1) as Hf01.
    apply (IH (l :: acc) (vcur v1 :: ends) v0 lr1 v1).
    + split; assumption.
    + eapply (meas_step fuel lr1 v v1); [exact Hm|exact Hf1|exact Hlt|exact (KB_K _ _ HK1)].
    + constructor; assumption.
    + cbn [length]. rewrite Hlen. reflexivity.
    + constructor; [eapply Complete_at; eassumption|exact Hends].
    + constructor; [exact Hsort|]. eapply Forall_impl; [|exact Hbound]. cbv beta. intros p Hp. lia.
    + constructor; [lia|]. eapply Forall_impl; [|exact Hbound]. cbv beta. intros p Hp. lia.
  - apply prt_pret. destruct Hr as [Hf1 Hfail]. apply Hfin; [eapply frame_trans; eassumption|exact Hfail].
  - apply prt_pret. destruct Hr as [Hf1 He]. apply (Hfin (FErr e)); [eapply frame_trans; eassumption|exact He].
Qed.

Lemma parse_btor2_B lr v : KB lr v -> prt (parse_btor2 fuel) lr v (fun r _ v' => FinPostB v r v').
Proof.
  intros HK. unfold parse_btor2. apply (drive_lines_B fuel [] [] v lr v).
  - split; [exact HK|apply frame_refl].
  - exact (meas_init fuel lr v (KB_K _ _ HK)).
  - constructor.
  - reflexivity.
  - constructor.
  - constructor.
  - constructor.
Qed.

(* ---------- T4 at token level ---------- *)
Lemma node_body_justice_B lr v : KB lr v ->
  prt (node_body fuel NtJustice) lr v (fun a _ _ =>
    match a with
    | Ok nv => exists count nodes, nv = NJustice nodes /\ PosVal (rest_at v 1) count /\ nlen nodes = count /\ Forall idok nodes
    | Err _ => True
    end).
Proof.
  intros HK. cbn [node_body]. unfold rbnd. apply prt_pbnd. eapply prt_conseq; [apply required_space_B; exact HK|].
  intros [u|e] lr1 v1 [Hf1 H1]; [|apply prt_pret; exact I]. destruct H1 as [HK1 Hc1].
  assert (Hrest : rest_at v1 0 = rest_at v 1).
  { destruct Hf1 as (E1 & _). unfold rest_at. rewrite E1, Hc1. f_equal. lia. }
  apply prt_pbnd. unfold required_positive_int. eapply prt_conseq; [apply required_id_B; exact HK1|].
  intros [count|e] lr2 v2 [Hf2 H2]; [|apply prt_pret; exact I]. destruct H2 as (-> & HK2 & _ & Hcount).
  rewrite Hrest in Hcount.
  apply prt_pbnd. eapply prt_conseq; [apply (justice_loop_S fuel count [] v2 lr1 v2)|].
  - split; [exact HK2|apply frame_refl].
  - exact (meas_init fuel lr1 v2 (KB_K _ _ HK2)).
  - constructor.
  - intros [nodes|e] lr3 v3 H3; apply prt_pret; [|exact I]. destruct H3 as (_ & Hn & Hl).
    exists count, nodes. split; [reflexivity|]. split; [exact Hcount|]. split; [|exact Hn].
    change (nlen (@nil N)) with 0 in Hl. lia.
Qed.

End BSafe.

(* ================================================================== *)
(* the theorems                                                         *)

Lemma KB_init fuel S fail :
  Forall (fun b => b < 256) S -> nlen S < 2 ^ 62 -> (length S < fuel)%nat -> KB fuel lrs_init (view_init S fail).
Proof.
  intros Hb Hl Hf. split; [apply K_init; assumption|]. unfold LS, lrs_init. cbn [l_start l_line].
  split; [left; reflexivity|reflexivity].
Qed.

Lemma parse_btor2_all fuel S fail r :
  Forall (fun b => b < 256) S -> nlen S < 2 ^ 62 -> (length S < fuel)%nat ->
  aruns (parse_btor2 fuel lrs_init) (view_init S fail) r ->
  exists items fin lr' v',
    r = ADone (items, fin, lr') v' /\ vS v' = S /\ vfail v' = fail /\
    Forall Btor2Rt.line_ok items /\
    (exists ends, length ends = length items /\ Forall (CompleteAt S fail) ends /\ StronglySorted (fun a b => b < a) ends) /\
    match fin with FOk => fail = None | FErr e => ErrPostB e v' end.
Proof.
  intros Hb Hl Hf Hr. pose proof (KB_init fuel S fail Hb Hl Hf) as HK.
  destruct (prt_elim _ _ _ _ _ (parse_btor2_B fuel _ _ HK) Hr) as ([items fin] & lr' & v' & -> & Hfr & Hit & Hends & Hfin).
  cbn [fst snd] in *. destruct Hfr as (Hs & Hfl & _). cbn [view_init vS vfail] in Hs, Hfl, Hends.
  exists items, fin, lr', v'. split; [reflexivity|]. split; [exact Hs|]. split; [exact Hfl|]. split; [exact Hit|].
  split; [exact Hends|]. destruct fin; [rewrite <- Hfl; exact Hfin|exact Hfin].
Qed.

(* T1: every admissible run finishes normally: never stuck (no advance beyond what is known to be buffered; in
   particular the keyword scanner's and the digit scanner's 8-byte fast paths establish what is consumed later),
   no panic (the column subtraction, give_up_at the mark set in uint, NonZeroU64::new(..).unwrap() in positive_int),
   never out of fuel.  The fuel hypothesis is the one of the DIMACS family: more fuel than bytes. *)
Theorem parse_btor2_safe fuel S fail r :
  Forall (fun b => b < 256) S -> nlen S < 2 ^ 62 -> (length S < fuel)%nat ->
  aruns (parse_btor2 fuel lrs_init) (view_init S fail) r ->
  exists out lr' v', r = ADone (out, lr') v'.
Proof.
  intros Hb Hl Hf Hr.
  destruct (parse_btor2_all fuel S fail r Hb Hl Hf Hr) as (items & fin & lr' & v' & -> & _). eauto.
Qed.
Print Assumptions parse_btor2_safe.

(* T2: a failing source never yields the clean end; the error is the source's I/O error, or a syntax error found
   before the end of the delivered data had been seen.  A source that does not fail never yields an I/O error.
   Every item was handed out at a position where a line of the stream is complete: just after its LF, at its LF, or
   -- only if the source does not fail -- at the end of the input (the positions are listed last item first). *)
Theorem parse_btor2_failing fuel S fail r :
  Forall (fun b => b < 256) S -> nlen S < 2 ^ 62 -> (length S < fuel)%nat ->
  aruns (parse_btor2 fuel lrs_init) (view_init S fail) r ->
  exists items fin lr' v',
    r = ADone (items, fin, lr') v' /\
    match fin with
    | FOk => fail = None
    | FErr (EIo e) => fail = Some e
    | FErr (ESyntax _ _) => fail = None \/ vknown v' = false
    end /\
    exists ends, length ends = length items /\ Forall (CompleteAt S fail) ends /\ StronglySorted (fun a b => b < a) ends.
Proof.
  intros Hb Hl Hf Hr.
  destruct (parse_btor2_all fuel S fail r Hb Hl Hf Hr) as (items & fin & lr' & v' & -> & Hs & Hfl & _ & Hends & Hfin).
  exists items, fin, lr', v'. split; [reflexivity|]. split; [|exact Hends].
  destruct fin as [|[l c|e]]; [exact Hfin| |].
  - cbn [ErrPostB] in Hfin. rewrite Hfl in Hfin. exact (proj1 Hfin).
  - cbn [ErrPostB] in Hfin. rewrite Hfl in Hfin. exact Hfin.
Qed.
Print Assumptions parse_btor2_failing.

(* T3: the location of a syntax error.  No exception is needed: the location is exactly the (line, column) of a
   position of the stream (the end of the input included). *)
Theorem parse_btor2_error_location fuel S fail items l c lr' v' :
  Forall (fun b => b < 256) S -> nlen S < 2 ^ 62 -> (length S < fuel)%nat ->
  aruns (parse_btor2 fuel lrs_init) (view_init S fail) (ADone (items, FErr (ESyntax l c), lr') v') ->
  loc_ok S l c /\ exists pos, pos <= nlen S /\ (l, c) = line_col_of S pos.
Proof.
  intros Hb Hl Hf Hr.
  destruct (parse_btor2_all fuel S fail _ Hb Hl Hf Hr) as (items0 & fin & lr0 & v0 & E & Hs & Hfl & _ & _ & Hfin).
  inversion E; subst. cbn [ErrPostB] in Hfin. destruct Hfin as [_ Hloc].
  split; [apply loc_exact_ok; exact Hloc|apply loc_exact_line_col; exact Hloc].
Qed.
Print Assumptions parse_btor2_error_location.

(* T4: every line handed out is within the limits: node, sort and argument ids are in 1 .. 2^64-1, bit widths
   likewise, uext/sext/slice parameters are below 2^64, a justice line has n >= 1 conditions, constants are not
   empty and consist of digits of their base, symbols are not empty, contain neither a space nor an LF and do not
   start with ';', comments contain no LF: Btor2Rt.line_ok, the domain on which writing and parsing again is the
   identity (Btor2Rt.parse_btor2_roundtrip). *)
Theorem parse_btor2_limits fuel S fail items fin lr' v' :
  Forall (fun b => b < 256) S -> nlen S < 2 ^ 62 -> (length S < fuel)%nat ->
  aruns (parse_btor2 fuel lrs_init) (view_init S fail) (ADone (items, fin, lr') v') ->
  Forall Btor2Rt.line_ok items.
Proof.
  intros Hb Hl Hf Hr.
  destruct (parse_btor2_all fuel S fail _ Hb Hl Hf Hr) as (items0 & fin0 & lr0 & v0 & E & _ & _ & Hit & _).
  inversion E; subst. exact Hit.
Qed.
Print Assumptions parse_btor2_limits.

(* T4 at token level, from any state satisfying the invariant.
   token::uint: Ok x only if x is the value of the decimal numeral at the cursor, the numeral has no leading zero
   (unless it is "0"), and x <= 2^64-1 *)
Theorem uint_value fuel lr v r :
  KB fuel lr v -> aruns (uint fuel lr) v r ->
  exists a lr' v', r = ADone (a, lr') v' /\
    match a with
    | Res (Ok x) => UintVal (rest_at v 0) x
    | _ => True
    end.
Proof.
  intros HK Hr. destruct (prt_elim _ _ _ _ _ (uint_B fuel lr v HK) Hr) as (a & lr' & v' & -> & _ & _ & _ & _ & Ha).
  exists a, lr', v'. split; [reflexivity|]. destruct a as [[x|u]|]; [exact (proj2 Ha)|exact I|exact I].
Qed.
Print Assumptions uint_value.

(* numerals with a leading zero are never accepted *)
Theorem uint_rejects_leading_zero fuel lr v r d ds :
  KB fuel lr v -> digit_prefix (rest_at v 0) = 48 :: d :: ds -> aruns (uint fuel lr) v r ->
  exists a lr' v', r = ADone (a, lr') v' /\ forall x, a <> Res (Ok x).
Proof.
  intros HK Hd Hr. destruct (uint_value fuel lr v r HK Hr) as (a & lr' & v' & -> & Ha).
  exists a, lr', v'. split; [reflexivity|]. intros x E. subst a. unfold UintVal in Ha. rewrite Hd in Ha.
  destruct Ha as ([H|H] & _); [apply H; reflexivity|discriminate H].
Qed.
Print Assumptions uint_rejects_leading_zero.

(* positive_int (node ids, sort ids, bit widths, the condition count): moreover x >= 1 *)
Theorem positive_int_value fuel lr v r :
  KB fuel lr v -> aruns (positive_int fuel lr) v r ->
  exists a lr' v', r = ADone (a, lr') v' /\
    match a with
    | Res (Ok x) => UintVal (rest_at v 0) x /\ 1 <= x
    | _ => True
    end.
Proof.
  intros HK Hr. destruct (prt_elim _ _ _ _ _ (positive_int_B fuel lr v HK) Hr) as (a & lr' & v' & -> & _ & Ha).
  exists a, lr', v'. split; [reflexivity|]. destruct a as [[x|u]|]; [|exact I..].
  destruct Ha as (_ & _ & _ & Hx). exact Hx.
Qed.
Print Assumptions positive_int_value.

(* `justice n` is followed by exactly n >= 1 node ids: n is the numeral after the space *)
Theorem justice_count fuel lr v r :
  KB fuel lr v -> aruns (node_body fuel NtJustice lr) v r ->
  exists a lr' v', r = ADone (a, lr') v' /\
    match a with
    | Ok nv => exists count nodes, nv = NJustice nodes /\ UintVal (rest_at v 1) count /\ 1 <= count /\
                                   nlen nodes = count /\ Forall idok nodes
    | Err _ => True
    end.
Proof.
  intros HK Hr. destruct (prt_elim _ _ _ _ _ (node_body_justice_B fuel lr v HK) Hr) as (a & lr' & v' & -> & Ha).
  exists a, lr', v'. split; [reflexivity|]. destruct a as [nv|e]; [|exact I].
  destruct Ha as (count & nodes & -> & [Hu Hp] & Hl & Hn). exists count, nodes.
  split; [reflexivity|]. split; [exact Hu|]. split; [exact Hp|]. split; assumption.
Qed.
Print Assumptions justice_count.

(* Parser::next_line as a Hoare triple, from any state satisfying the invariant *)
Theorem next_line_triple fuel v0 :
  ptriple (fun lr v => v = v0 /\ KB fuel lr v) (next_line fuel) (NextPostB fuel v0).
Proof. apply ptriple_prt. intros lr v [-> HK]. apply next_line_B. exact HK. Qed.

Theorem parse_btor2_triple fuel v0 :
  ptriple (fun lr v => v = v0 /\ KB fuel lr v) (parse_btor2 fuel) (fun r _ v' => FinPostB v0 r v').
Proof. apply ptriple_prt. intros lr v [-> HK]. apply parse_btor2_B. exact HK. Qed.

(* C01 completed for BTOR2: the concrete parse does not depend on how the bytes arrive *)
Theorem parse_btor2_any_chunking fuel (sr : source) (c : N) :
  NoLie (events sr) -> 1 <= c ->
  Forall (fun b => b < 256) (fst (stream_of sr)) -> nlen (fst (stream_of sr)) < 2 ^ 62 ->
  (length (fst (stream_of sr)) < fuel)%nat ->
  let p := parse_btor2 fuel lrs_init in
  exists a v' s', srun p (view_init (fst (stream_of sr)) (snd (stream_of sr))) = ADone a v' /\
                  crun p (set_chunk (reader_init sr) c) = CDone a s'.
Proof.
  intros HN Hc Hb Hl Hf p. apply (any_chunking p fuel sr c HN Hc Hb Hf).
  - exact (PDet_parse_btor2 fuel lrs_init).
  - intros r Hr. destruct (parse_btor2_safe fuel _ _ r Hb Hl Hf Hr) as (out & lr' & v' & ->). eauto.
Qed.
Print Assumptions parse_btor2_any_chunking.

(* ================================================================== *)
(* witnesses                                                            *)

(* the fuel hypothesis is tight: one space, fuel 1 = the length of the stream: skip_whitespace needs a second step to
   see the end of the input *)
Example fuel_hypothesis_tight : srun (parse_btor2 1 lrs_init) (view_init [32] None) = AFuel.
Proof. vm_compute. reflexivity. Qed.

(* T3: no exception for an unterminated last line.  "1 sort bitvec 1" without its LF is a syntax error (a node line
   must end with an LF), reported at line 1, column 16: the end of the input *)
Example unterminated_node_line :
  exists v', srun (parse_btor2 100 lrs_init) (view_init [49; 32; 115; 111; 114; 116; 32; 98; 105; 116; 118; 101; 99; 32; 49] None)
             = ADone ([], FErr (ESyntax 1 16), {| l_line := 1; l_start := 0 |}) v'.
Proof. eexists. vm_compute. reflexivity. Qed.

(* skip_whitespace passes LFs and counts them: LF LF space x is an error at line 3, column 2 *)
Example location_after_blank_lines :
  exists v', srun (parse_btor2 100 lrs_init) (view_init [10; 10; 32; 120] None)
             = ADone ([], FErr (ESyntax 3 2), {| l_line := 3; l_start := 2 |}) v'.
Proof. eexists. vm_compute. reflexivity. Qed.

(* T2, the interesting place: a comment that runs to the end of the data.  "; abc" from a source that ends cleanly is
   a comment line; from a source that fails with error 7 it is that error, and nothing is handed out *)
Example comment_at_clean_end :
  exists v', srun (parse_btor2 100 lrs_init) (view_init [59; 32; 97; 98; 99] None)
             = ADone ([LComment [32; 97; 98; 99]], FOk, {| l_line := 1; l_start := 0 |}) v'.
Proof. eexists. vm_compute. reflexivity. Qed.
Example comment_at_failure :
  exists v', srun (parse_btor2 100 lrs_init) (view_init [59; 32; 97; 98; 99] (Some 7))
             = ADone ([], FErr (EIo 7), {| l_line := 1; l_start := 0 |}) v'.
Proof. eexists. vm_compute. reflexivity. Qed.
(* a node line cut off by the failure: the I/O error, not a syntax error; the complete first line has been handed out *)
Example node_line_cut_off :
  exists v', srun (parse_btor2 100 lrs_init) (view_init [49; 32; 115; 111; 114; 116; 32; 98; 105; 116; 118; 101; 99; 32; 49; 10; 50; 32; 105; 110; 112] (Some 5))
             = ADone ([LNode {| n_id := 1; n_variant := NSort (SBitVec 1); n_symbol := None; n_comment := None |}],
                      FErr (EIo 5), {| l_line := 2; l_start := 16 |}) v'.
Proof. eexists. vm_compute. reflexivity. Qed.

(* T4: the limits are enforced: 2^64 as a node id is rejected at the start of the numeral (2^64-1 is accepted),
   a leading zero is rejected, a bit width 0 is rejected, justice 2 with one condition is rejected *)
Example id_limit :
  exists v', srun (parse_btor2 100 lrs_init) (view_init [49; 56; 52; 52; 54; 55; 52; 52; 48; 55; 51; 55; 48; 57; 53; 53; 49; 54; 49; 54; 32; 115; 111; 114; 116; 32; 98; 105; 116; 118; 101; 99; 32; 49; 10] None)
             = ADone ([], FErr (ESyntax 1 1), {| l_line := 1; l_start := 0 |}) v'.
Proof. eexists. vm_compute. reflexivity. Qed.
Example id_max :
  exists v', srun (parse_btor2 100 lrs_init) (view_init [49; 56; 52; 52; 54; 55; 52; 52; 48; 55; 51; 55; 48; 57; 53; 53; 49; 54; 49; 53; 32; 115; 111; 114; 116; 32; 98; 105; 116; 118; 101; 99; 32; 49; 10] None)
             = ADone ([LNode {| n_id := 18446744073709551615; n_variant := NSort (SBitVec 1); n_symbol := None; n_comment := None |}],
                      FOk, {| l_line := 2; l_start := 35 |}) v'.
Proof. eexists. vm_compute. reflexivity. Qed.
Example leading_zero_rejected :
  exists v', srun (parse_btor2 100 lrs_init) (view_init [49; 32; 115; 111; 114; 116; 32; 98; 105; 116; 118; 101; 99; 32; 48; 49; 10] None)
             = ADone ([], FErr (ESyntax 1 15), {| l_line := 1; l_start := 0 |}) v'.
Proof. eexists. vm_compute. reflexivity. Qed.
Example zero_width_rejected :
  exists v', srun (parse_btor2 100 lrs_init) (view_init [49; 32; 115; 111; 114; 116; 32; 98; 105; 116; 118; 101; 99; 32; 48; 10] None)
             = ADone ([], FErr (ESyntax 1 15), {| l_line := 1; l_start := 0 |}) v'.
Proof. eexists. vm_compute. reflexivity. Qed.
Example justice_count_enforced :
  exists items lr' v', srun (parse_btor2 100 lrs_init) (view_init [49; 32; 115; 111; 114; 116; 32; 98; 105; 116; 118; 101; 99; 32; 49; 10; 50; 32; 105; 110; 112; 117; 116; 32; 49; 10; 51; 32; 106; 117; 115; 116; 105; 99; 101; 32; 50; 32; 50; 10] None)
             = ADone (items, FErr (ESyntax 3 14), lr') v' /\ length items = 2%nat.
Proof. eexists _, _, _. vm_compute. split; reflexivity. Qed.

(* not a limit the parser enforces: a lone '-' is accepted as a decimal constant (decimal_string takes an optional '-'
   and then any number of digits, and only the total length is checked), as by the crate's own validating constructor
   DecimalConst::try_from; Btor2Rt.dec_const_ok accordingly allows it *)
Example lone_minus_accepted :
  exists v', srun (parse_btor2 100 lrs_init) (view_init [49; 32; 115; 111; 114; 116; 32; 98; 105; 116; 118; 101; 99; 32; 56; 10; 50; 32; 99; 111; 110; 115; 116; 100; 32; 49; 32; 45; 10] None)
             = ADone ([LNode {| n_id := 1; n_variant := NSort (SBitVec 8); n_symbol := None; n_comment := None |};
                       LNode {| n_id := 2; n_variant := NValue 1 (VConst (CDecimal [45])); n_symbol := None; n_comment := None |}],
                      FOk, {| l_line := 3; l_start := 29 |}) v'.
Proof. eexists. vm_compute. reflexivity. Qed.

(* ================================================================== *)
(* corollaries                                                          *)

(* T2: a source that does not fail never yields an I/O error *)
Corollary parse_btor2_no_io_error_without_failure fuel S items e lr' v' :
  Forall (fun b => b < 256) S -> nlen S < 2 ^ 62 -> (length S < fuel)%nat ->
  aruns (parse_btor2 fuel lrs_init) (view_init S None) (ADone (items, FErr (EIo e), lr') v') -> False.
Proof.
  intros Hb Hl Hf Hr.
  destruct (parse_btor2_failing fuel S None _ Hb Hl Hf Hr) as (items0 & fin & lr0 & v0 & E & Hfin & _).
  inversion E; subst. discriminate Hfin.
Qed.
Print Assumptions parse_btor2_no_io_error_without_failure.

(* T2: a syntax error reported on a failing source is reported, identically and with the same items, on every
   continuation of the delivered data (it was found before the end of the data had been seen) *)
Corollary parse_btor2_syntax_error_before_failure fuel S e a v' l c :
  Forall (fun b => b < 256) S -> nlen S < 2 ^ 62 -> (length S < fuel)%nat ->
  srun (parse_btor2 fuel lrs_init) (view_init S (Some e)) = ADone a v' ->
  snd (fst a) = FErr (ESyntax l c) ->
  forall T fail', exists vx', srun (parse_btor2 fuel lrs_init) (view_init (S ++ T) fail') = ADone a vx'.
Proof.
  intros Hb Hl Hf Hs Hfin T fail'.
  assert (Hw : WFV (view_init S (Some e))) by (unfold WFV; cbn; lia).
  pose proof (srun_aruns (parse_btor2 fuel lrs_init) _ Hw) as Hr. rewrite Hs in Hr.
  destruct (parse_btor2_failing fuel S (Some e) _ Hb Hl Hf Hr) as (items & fin & lr' & v0 & E & Hfail & _).
  inversion E; subst. cbn [fst snd] in Hfin. subst fin.
  destruct Hfail as [Hn|Hk]; [discriminate|].
  destruct (unfailed_prefix _ S e _ _ Hs Hk T fail') as (vx' & Hx & _). exists vx'. exact Hx.
Qed.
Print Assumptions parse_btor2_syntax_error_before_failure.

(* T3 with the bounds *)
Corollary parse_btor2_error_location_bounds fuel S fail items l c lr' v' :
  Forall (fun b => b < 256) S -> nlen S < 2 ^ 62 -> (length S < fuel)%nat ->
  aruns (parse_btor2 fuel lrs_init) (view_init S fail) (ADone (items, FErr (ESyntax l c), lr') v') ->
  1 <= l <= count_lf S + 1 /\ 1 <= c <= nlen S + 1.
Proof.
  intros Hb Hl Hf Hr.
  destruct (parse_btor2_all fuel S fail _ Hb Hl Hf Hr) as (items0 & fin & lr0 & v0 & E & Hs & Hfl & _ & _ & Hfin).
  inversion E; subst. cbn [ErrPostB] in Hfin. destruct Hfin as [_ (ls & pos & h1 & h2 & h3 & h4 & -> & ->)].
  match goal with |- _ /\ (_ /\ _ <= nlen ?S' + 1) => pose proof (count_lf_prefix_le S' ls) end. unfold bytes, byte in *. lia.
Qed.
Print Assumptions parse_btor2_error_location_bounds.

(* two honest sources delivering the same stream, any two chunk sizes: the same parse *)
Corollary parse_btor2_two_sources fuel (sr1 sr2 : source) (c1 c2 : N) :
  NoLie (events sr1) -> NoLie (events sr2) -> 1 <= c1 -> 1 <= c2 -> stream_of sr1 = stream_of sr2 ->
  Forall (fun b => b < 256) (fst (stream_of sr1)) -> nlen (fst (stream_of sr1)) < 2 ^ 62 ->
  (length (fst (stream_of sr1)) < fuel)%nat ->
  let p := parse_btor2 fuel lrs_init in
  exists a s1 s2, crun p (set_chunk (reader_init sr1) c1) = CDone a s1 /\ crun p (set_chunk (reader_init sr2) c2) = CDone a s2.
Proof.
  intros H1 H2 Hc1 Hc2 Heq Hb Hl Hf p.
  destruct (parse_btor2_any_chunking fuel sr1 c1 H1 Hc1 Hb Hl Hf) as (a1 & v1 & s1 & E1 & C1).
  rewrite Heq in Hb, Hl, Hf.
  destruct (parse_btor2_any_chunking fuel sr2 c2 H2 Hc2 Hb Hl Hf) as (a2 & v2 & s2 & E2 & C2).
  rewrite Heq in E1. rewrite E1 in E2. inversion E2; subst. exists a2, s1, s2. split; assumption.
Qed.
Print Assumptions parse_btor2_two_sources.
