(* C03 — Writing a value and parsing it back is the identity.
   Pinned statements at the level the model reaches today: numbers (the decimal text of the integer writer is read
   back exactly by the scanners, for every admissible buffering behaviour), the 7-bit group encoding of binary AIGER
   deltas, the BTOR2 operator table (writer name = parser keyword, regenerated from the source on every run).
   Whole-document round trips are checked on the implementation by the rt oracle (partial). *)
From Flussab Require Import Base Consts ConstsTie Reader Writer Prog Text TextSpec ProgProofs ScanProofs DecimalProofs DigitsProofs Varint RoundTrip.

(* the integer writer's text, read as a decimal numeral, is the integer *)
Theorem C03_decimal_text_is_the_value : forall v,
  parse_decimal (decimal v) = v /\
  (forall t, in_range t v = true -> nlen (decimal v) <= max_len t) /\
  ((v < 0)%Z -> hd 0 (decimal v) = 45) /\ ((0 <= v)%Z -> hd 0 (decimal v) <> 45).
Proof. exact decimal_canonical. Qed.
Print Assumptions C03_decimal_text_is_the_value.

(* the scanners' documented reading of (written text ++ anything that does not start with a digit) *)
Theorem C03_signed_reads_written : forall t z rest,
  in_range t z = true -> no_digit_ahead rest ->
  signed_spec t (decimal z ++ rest) = (Some z, nlen (decimal z)).
Proof. exact signed_reads_written. Qed.
Print Assumptions C03_signed_reads_written.

Theorem C03_unsigned_reads_written : forall t z rest,
  (0 <= z)%Z -> in_range t z = true -> no_digit_ahead rest ->
  unsigned_spec t (decimal z ++ rest) = (Some z, nlen (decimal z)).
Proof. exact unsigned_reads_written. Qed.
Print Assumptions C03_unsigned_reads_written.

(* every admissible run of the accelerated scanner programs returns the written value and its length *)
Theorem C03_signed_scanner_reads_written : forall fuel t v z rest r,
  ity_signed t = true -> WFV v -> BytesOK v ->
  rest_at v 0 = decimal z ++ rest -> in_range t z = true -> no_digit_ahead rest ->
  (length (digit_prefix (rest_at v 0)) < fuel)%nat -> (length (digit_prefix (rest_at v (0 + 1))) < fuel)%nat ->
  aruns (signed_ascii_digits_multi fuel t 0) v r ->
  exists v', r = ADone (Some z, nlen (decimal z)) v'.
Proof. exact signed_scanner_reads_written. Qed.
Print Assumptions C03_signed_scanner_reads_written.

Theorem C03_unsigned_scanner_reads_written : forall fuel t v z rest r,
  WFV v -> BytesOK v -> (0 <= z)%Z ->
  rest_at v 0 = decimal z ++ rest -> in_range t z = true -> no_digit_ahead rest ->
  (length (digit_prefix (rest_at v 0)) < fuel)%nat ->
  aruns (ascii_digits_multi fuel t 0) v r ->
  exists v', r = ADone (Some z, nlen (decimal z)) v'.
Proof. exact unsigned_scanner_reads_written. Qed.
Print Assumptions C03_unsigned_scanner_reads_written.

(* binary AIGER deltas: write_binary_uint then binary_uint, for every delta below 2^56 and whatever follows *)
Theorem C03_varint_roundtrip : forall n rest,
  n < 2 ^ 56 -> varint_decode (varint_encode n ++ rest) = Some (n, rest).
Proof. exact varint_roundtrip. Qed.
Print Assumptions C03_varint_roundtrip.

(* BTOR2: every operator name the writer emits is the parser's keyword for the same operator (table regenerated
   from btor2.rs and token.rs by tools/translate.py on every run) *)
Theorem C03_btor2_operator_names : Consts.btor2_names_roundtrip = true.
Proof. exact btor2_names_tie. Qed.
Print Assumptions C03_btor2_operator_names.

(* non-vacuity *)
Example C03_example :
  signed_spec I32 (decimal (-2147483648) ++ [32; 48]) = (Some (-2147483648)%Z, 11) /\
  varint_decode (varint_encode 300 ++ [7]) = Some (300, [7]).
Proof. vm_compute. split; reflexivity. Qed.

(* ------------------------------------------------------------------ *)
(* BTOR2, whole documents (Btor2.v: parser program and writer function, both tied to the code by the pa stream —
   every field of every parsed line and the bytes Line::write_into produces; Btor2Rt.v): parsing what the writer
   wrote gives the lines back, with a clean end, for every list of lines in the format's domain (line_ok: ids and
   counts in range, symbols non-empty without blanks/LF and not starting with ';', comments without LF, at least
   one justice condition, constants valid for their radix — the values the validating constructors accept). *)
From Flussab Require Import Cnf Btor2 Btor2Proofs Btor2Rt.

Theorem C03_btor2_document_roundtrip : forall (fuel : nat) (ls : list line),
  Forall line_ok ls ->
  Forall (fun b => b < 256) (write_lines ls) ->
  (length (write_lines ls) < fuel)%nat ->
  exists s' v', srun (parse_btor2 fuel lrs_init) (view_init (write_lines ls) None) = ADone ((ls, FOk), s') v'.
Proof. exact parse_btor2_roundtrip. Qed.
Print Assumptions C03_btor2_document_roundtrip.

(* a single line, anywhere in a stream, whatever follows it *)
Theorem C03_btor2_line_roundtrip : forall (fuel : nat) (S : bytes) (l : line) (c : N) (v : view) (s : lrs) (rest : bytes),
  Forall (fun b => b < 256) S -> (length S < fuel)%nat ->
  line_ok l -> vS v = S -> vcur v = c -> WFV v -> vcur v <= vhwm v ->
  nskipn c S = write_line l ++ rest ->
  exists s' v', srun (next_line fuel s) v = ADone (Ok (Some l), s') v'.
Proof. exact next_line_roundtrip. Qed.
Print Assumptions C03_btor2_line_roundtrip.

(* ------------------------------------------------------------------ *)
(* DIMACS family, whole documents (Layout.v, LayoutProofs.v): write_doc k d is the crate's writer as a function
   (write_header from the header formats regenerated out of cnf.rs/wcnf.rs/gcnf.rs, then write_clause per clause: optional
   weight / {group}, literals separated by one space, " 0", LF); it is the rendering in the plain layout, and for every
   document in the format's domain (doc_ok ih k maxd: with ih = ignore_header = false the header must describe the clause
   list — the strict-header reading; with ih = true any header) every admissible run of the parser on it, and every
   concrete run under every schedule and chunk size, returns exactly the document and a clean end. *)
From Flussab Require Import Consts ReaderProofs Simulation Cnf CnfProofs Hoare CnfSafe Layout LayoutTok LayoutClause LayoutProofs.

Theorem C03_dimacs_writer_is_plain_layout : forall ih k maxd d,
  doc_ok ih k maxd d = true -> write_doc k d = render k d plain_layout.
Proof. exact write_doc_is_plain_render. Qed.
Print Assumptions C03_dimacs_writer_is_plain_layout.

Theorem C03_dimacs_write_parse_roundtrip : forall fuel k maxd ih d r,
  (maxd <= max_dimacs_isize)%Z -> doc_ok ih k maxd d = true ->
  (length (write_doc k d) < fuel)%nat -> nlen (write_doc k d) < 2 ^ 62 ->
  aruns (parse_dimacs fuel k maxd ih lrs_init) (view_init (write_doc k d) None) r ->
  exists lr' v', r = ADone (Some (d_hdr d), d_items d, FOk, lr') v'.
Proof. exact write_parse_roundtrip_all_runs. Qed.
Print Assumptions C03_dimacs_write_parse_roundtrip.

Theorem C03_dimacs_write_parse_roundtrip_concrete : forall fuel k maxd ih d (sr : source) (c : N),
  (maxd <= max_dimacs_isize)%Z -> doc_ok ih k maxd d = true ->
  (length (write_doc k d) < fuel)%nat -> nlen (write_doc k d) < 2 ^ 62 ->
  NoLie (events sr) -> 1 <= c -> stream_of sr = (write_doc k d, None) ->
  exists lr' s', crun (parse_dimacs fuel k maxd ih lrs_init) (set_chunk (reader_init sr) c)
                 = CDone (Some (d_hdr d), d_items d, FOk, lr') s'.
Proof. exact write_parse_roundtrip_concrete. Qed.
Print Assumptions C03_dimacs_write_parse_roundtrip_concrete.

(* the strict-header behaviour is real: the writer's own output for a header announcing 1 clause followed by 2 clauses is
   rejected unless the header is ignored *)
From Flussab Require Import LayoutWitness.
Theorem C03_dimacs_strict_header_witness :
  write_doc KCnf w_count = [112; 32; 99; 110; 102; 32; 51; 32; 49; 10; 49; 32; 48; 10; 50; 32; 48; 10] /\
  run_written KCnf max_dimacs_i32 false w_count =
    Some (Some (d_hdr w_count), [(0, [1])]%Z, FErr (ESyntax 3 1)) /\
  run_written KCnf max_dimacs_i32 true w_count = Some (Some (d_hdr w_count), d_items w_count, FOk) /\
  doc_ok false KCnf max_dimacs_i32 w_count = false /\ doc_ok true KCnf max_dimacs_i32 w_count = true.
Proof. exact clause_count_is_enforced. Qed.
Print Assumptions C03_dimacs_strict_header_witness.

(* AIGER, whole files, both formats (Aiger.v: the two parser programs; AigerWrite.v: ascii::Writer::write_aig and
   binary::Writer::write_ordered_aig as functions, both tied to the code by the pa stream, flags 'x': the bytes the
   crate's writers produce for every parsed value; AigerRt.v).  Parsing what the writer wrote gives the value back:
   the simple run of the whole parser on the written bytes, delivered by a source that ends cleanly, returns the
   header, exactly the items of the value and a clean end, and the whole-file API (`Parser::parse`) returns the value.
   Domain (aag_ok / aig_ok, the values the parsers can return):
     counts_ok   1 <= MAX_CODE < 2^64, M <= (MAX_CODE - 1) / 2, I + L + A <= M, the header's counts are the lengths
                 of the vectors and fit usize;
     literals    <= 2 M + 1 (lit_ok); defining literals (inputs, latch states, gate outputs) moreover non-zero and
                 even (def_ok) — the parser asks for nothing more (not for distinctness);
     justice     the sizes add up to less than 2^64;
     symbols     index below the count of its section and below 2^64, name without LF and valid UTF-8 (sym_ok);
     comment     valid UTF-8 (cmt_ok);
     ascii       latch states and gate outputs present (latch_aag_ok, and_aag_ok);
     binary      no input vector, latches and gates without own literal, gate inputs in the writer's order
                 rhs0 >= rhs1, rhs0 not above the gate's own code 2 (I + L + 1 + k), both deltas below 2^56 (oands_ok).
                 The whole range of headers the parser accepts is covered, up to I + L + A = M = 2^63 - 1: writer (D14)
                 and parser (D13) compute the running code with wrapping arithmetic and no code that is used wraps. *)
From Flussab Require Import Aiger AigerProofs AigerWrite AigerRt.

Theorem C03_aag_roundtrip : forall (fuel : nat) (maxc : N) (a : aig),
  aag_ok maxc a -> (length (write_aag a) < fuel)%nat ->
  exists s' v',
    srun (parse_aag fuel maxc lrs_init) (view_init (write_aag a) None) = ADone ((Some (g_header a), aag_items a, FOk), s') v' /\
    Aiger.whole_file (Some (g_header a), aag_items a, FOk) = Ok a.
Proof. exact aag_roundtrip_final. Qed.
Print Assumptions C03_aag_roundtrip.

Theorem C03_aig_roundtrip : forall (fuel : nat) (maxc : N) (a : aig),
  aig_ok maxc a -> (length (write_aig a) < fuel)%nat ->
  exists s' v',
    srun (parse_aig fuel maxc lrs_init) (view_init (write_aig a) None) = ADone ((Some (g_header a), aig_items a, FOk), s') v' /\
    Aiger.whole_file (Some (g_header a), aig_items a, FOk) = Ok a /\
    write_aig_checked a = WrOk (write_aig a).
Proof. exact aig_roundtrip_final. Qed.
Print Assumptions C03_aig_roundtrip.

(* the two domains, one level unfolded *)
Theorem C03_aag_domain : forall maxc a,
  aag_ok maxc a =
  (counts_ok maxc a /\ a_inputs (g_header a) = nlen (g_inputs a) /\
   Forall (def_ok (a_max_var (g_header a))) (g_inputs a) /\
   Forall (latch_aag_ok (a_max_var (g_header a))) (g_latches a) /\ middle_ok (a_max_var (g_header a)) a /\
   Forall (and_aag_ok (a_max_var (g_header a))) (g_ands a) /\
   Forall (sym_ok (g_header a)) (g_symbols a) /\ cmt_ok (g_comment a)).
Proof. reflexivity. Qed.
Print Assumptions C03_aag_domain.

Theorem C03_aig_domain : forall maxc a,
  aig_ok maxc a =
  (counts_ok maxc a /\ g_inputs a = [] /\
   Forall (olatch_ok (a_max_var (g_header a))) (g_latches a) /\ middle_ok (a_max_var (g_header a)) a /\
   oands_ok ((a_inputs (g_header a) + 1) * 2 + 2 * nlen (g_latches a)) (g_ands a) /\
   Forall (sym_ok (g_header a)) (g_symbols a) /\ cmt_ok (g_comment a)).
Proof. reflexivity. Qed.
Print Assumptions C03_aig_domain.

(* intermediate results: the header with its trailing zero fields dropped, read back by Header::parse;
   one and gate of the binary format (two deltas) *)
Theorem C03_aiger_header_roundtrip : forall (fuel : nat) (S : bytes),
  Forall (fun b => b < 256) S -> (length S < fuel)%nat ->
  forall x y z maxc m i l o a b c j f,
  m <= (maxc - 1) / 2 -> i <= m -> l <= m - i -> a <= m - i - l ->
  m < 2 ^ 64 -> o < 2 ^ 64 -> b < 2 ^ 64 -> c < 2 ^ 64 -> j < 2 ^ 64 -> f < 2 ^ 64 ->
  lrd S (parse_aheader fuel [x; y; z] maxc) (w_header [x; y; z] m i l o a b c j f) (Ok (mk_header m i l o a b c j f)).
Proof. exact header_hit. Qed.
Print Assumptions C03_aiger_header_roundtrip.

(* non-vacuity: a circuit with every kind of entry, written and parsed, both formats *)
Example C03_aiger_example :
  (aag_ok 255 ex_aag /\
   match srun (parse_aag 300 255 lrs_init) (view_init (write_aag ex_aag) None) with
   | ADone (r, _) _ => Aiger.whole_file r = Ok ex_aag | _ => False end) /\
  (aig_ok 255 ex_aig /\
   match srun (parse_aig 300 255 lrs_init) (view_init (write_aig ex_aig) None) with
   | ADone (r, _) _ => Aiger.whole_file r = Ok ex_aig | _ => False end).
Proof. exact (conj aag_roundtrip_example aig_roundtrip_example). Qed.

(* the upper end of the binary domain: I + L + A = M = 2^63 - 1 *)
Example C03_aiger_example_max :
  aig_ok 18446744073709551615 ex_aig_max /\
  match srun (parse_aig 300 18446744073709551615 lrs_init) (view_init (write_aig ex_aig_max) None) with
  | ADone (r, _) _ => Aiger.whole_file r = Ok ex_aig_max | _ => False end.
Proof. exact aig_roundtrip_example_max. Qed.

(* ------------------------------------------------------------------ *)
(* The AIGER and BTOR2 round trips for EVERY run (RtAll.v): every admissible abstract run of the parser program on the
   written bytes -- whatever the fast-path tests of the number scanners answer -- and every concrete run of the
   DeferredReader model -- any honest source delivering the written bytes and then ending cleanly, in any pieces, read
   with any chunk size -- returns the value.  (The parse is answer-insensitive: PDet_parse_aag / aig / btor2; never
   stuck, panicking or out of fuel: AigerSafe / Btor2Safe; simulation: C01.)  Inputs below 2^62 bytes. *)
From Flussab Require Import ReaderProofs Simulation CnfSafe RtAll.

Theorem C03_aag_roundtrip_all_runs : forall (fuel : nat) (maxc : N) (a : aig) r,
  aag_ok maxc a -> (length (write_aag a) < fuel)%nat -> nlen (write_aag a) < 2 ^ 62 ->
  aruns (parse_aag fuel maxc lrs_init) (view_init (write_aag a) None) r ->
  exists lr' v', r = ADone ((Some (g_header a), aag_items a, FOk), lr') v' /\
                 Aiger.whole_file (Some (g_header a), aag_items a, FOk) = Ok a.
Proof. exact aag_roundtrip_all_runs. Qed.
Print Assumptions C03_aag_roundtrip_all_runs.

Theorem C03_aag_roundtrip_concrete : forall (fuel : nat) (maxc : N) (a : aig) (sr : source) (c : N),
  aag_ok maxc a -> (length (write_aag a) < fuel)%nat -> nlen (write_aag a) < 2 ^ 62 ->
  NoLie (events sr) -> 1 <= c -> stream_of sr = (write_aag a, None) ->
  exists lr' s', crun (parse_aag fuel maxc lrs_init) (set_chunk (reader_init sr) c)
                 = CDone ((Some (g_header a), aag_items a, FOk), lr') s' /\
                 Aiger.whole_file (Some (g_header a), aag_items a, FOk) = Ok a.
Proof. exact aag_roundtrip_concrete. Qed.
Print Assumptions C03_aag_roundtrip_concrete.

Theorem C03_aig_roundtrip_all_runs : forall (fuel : nat) (maxc : N) (a : aig) r,
  aig_ok maxc a -> (length (write_aig a) < fuel)%nat -> nlen (write_aig a) < 2 ^ 62 ->
  aruns (parse_aig fuel maxc lrs_init) (view_init (write_aig a) None) r ->
  exists lr' v', r = ADone ((Some (g_header a), aig_items a, FOk), lr') v' /\
                 Aiger.whole_file (Some (g_header a), aig_items a, FOk) = Ok a /\
                 write_aig_checked a = WrOk (write_aig a).
Proof. exact aig_roundtrip_all_runs. Qed.
Print Assumptions C03_aig_roundtrip_all_runs.

Theorem C03_aig_roundtrip_concrete : forall (fuel : nat) (maxc : N) (a : aig) (sr : source) (c : N),
  aig_ok maxc a -> (length (write_aig a) < fuel)%nat -> nlen (write_aig a) < 2 ^ 62 ->
  NoLie (events sr) -> 1 <= c -> stream_of sr = (write_aig a, None) ->
  exists lr' s', crun (parse_aig fuel maxc lrs_init) (set_chunk (reader_init sr) c)
                 = CDone ((Some (g_header a), aig_items a, FOk), lr') s' /\
                 Aiger.whole_file (Some (g_header a), aig_items a, FOk) = Ok a /\
                 write_aig_checked a = WrOk (write_aig a).
Proof. exact aig_roundtrip_concrete. Qed.
Print Assumptions C03_aig_roundtrip_concrete.

Theorem C03_btor2_roundtrip_all_runs : forall (fuel : nat) (ls : list Btor2.line) r,
  Forall Btor2Rt.line_ok ls -> Forall (fun b => b < 256) (Btor2Rt.write_lines ls) ->
  (length (Btor2Rt.write_lines ls) < fuel)%nat -> nlen (Btor2Rt.write_lines ls) < 2 ^ 62 ->
  aruns (Btor2.parse_btor2 fuel lrs_init) (view_init (Btor2Rt.write_lines ls) None) r ->
  exists lr' v', r = ADone ((ls, FOk), lr') v'.
Proof. exact btor2_roundtrip_all_runs. Qed.
Print Assumptions C03_btor2_roundtrip_all_runs.

Theorem C03_btor2_roundtrip_concrete : forall (fuel : nat) (ls : list Btor2.line) (sr : source) (c : N),
  Forall Btor2Rt.line_ok ls -> Forall (fun b => b < 256) (Btor2Rt.write_lines ls) ->
  (length (Btor2Rt.write_lines ls) < fuel)%nat -> nlen (Btor2Rt.write_lines ls) < 2 ^ 62 ->
  NoLie (events sr) -> 1 <= c -> stream_of sr = (Btor2Rt.write_lines ls, None) ->
  exists lr' s', crun (Btor2.parse_btor2 fuel lrs_init) (set_chunk (reader_init sr) c) = CDone ((ls, FOk), lr') s'.
Proof. exact btor2_roundtrip_concrete. Qed.
Print Assumptions C03_btor2_roundtrip_concrete.

(* ------------------------------------------------------------------ *)
(* The converse direction (ConversePc.v, ConverseBtor2.v, ConverseCnf.v, ConverseAiger.v): for every text a parser accepts
   (clean end), the parsed value is in the format's domain, so writing it and parsing that output again — every admissible
   run — yields the same value (for AIGER even the same header and items).  The written text may differ from the accepted one
   (layout, non-minimal varints, elided header fields): only its size needs to fit fuel and 2^62. *)
From Flussab Require Import Aiger AigerProofs AigerWrite AigerRt ConversePc ConverseBtor2 ConverseCnf ConverseAiger Converse.

Theorem C03_btor2_accepted_is_in_domain : forall (fuel : nat) (S : bytes) (ls : list Btor2.line) (fin : final) lr' v' (fail : option N),
  Forall (fun b => b < 256) S -> nlen S < 2 ^ 62 -> (length S < fuel)%nat ->
  aruns (parse_btor2 fuel lrs_init) (view_init S fail) (ADone (ls, fin, lr') v') ->
  Forall Btor2Rt.line_ok ls /\ Forall (fun b => b < 256) (write_lines ls).
Proof. exact btor2_accepted_rewritable. Qed.
Print Assumptions C03_btor2_accepted_is_in_domain.

Theorem C03_btor2_converse : forall (fuel : nat) (S : bytes) (ls : list Btor2.line) lr' v' r,
  Forall (fun b => b < 256) S -> nlen S < 2 ^ 62 -> (length S < fuel)%nat ->
  (length (write_lines ls) < fuel)%nat -> nlen (write_lines ls) < 2 ^ 62 ->
  aruns (parse_btor2 fuel lrs_init) (view_init S None) (ADone (ls, FOk, lr') v') ->
  aruns (parse_btor2 fuel lrs_init) (view_init (write_lines ls) None) r ->
  exists lr2 v2, r = ADone ((ls, FOk), lr2) v2.
Proof. exact btor2_converse_all_runs. Qed.
Print Assumptions C03_btor2_converse.

Theorem C03_dimacs_accepted_is_in_domain : forall fuel k maxd ih S ho items lr' v',
  Forall (fun b => b < 256) S -> nlen S < 2 ^ 62 -> (length S < fuel)%nat -> (maxd <= max_dimacs_isize)%Z ->
  aruns (parse_dimacs fuel k maxd ih lrs_init) (view_init S None) (ADone (Some ho, items, FOk, lr') v') ->
  doc_ok ih k maxd {| d_hdr := ho; d_items := items |} = true.
Proof. exact dimacs_accepted_doc_ok. Qed.
Print Assumptions C03_dimacs_accepted_is_in_domain.

Theorem C03_dimacs_converse : forall fuel k maxd ih S ho items lr' v' r,
  Forall (fun b => b < 256) S -> nlen S < 2 ^ 62 -> (length S < fuel)%nat -> (maxd <= max_dimacs_isize)%Z ->
  let d := {| d_hdr := ho; d_items := items |} in
  (length (write_doc k d) < fuel)%nat -> nlen (write_doc k d) < 2 ^ 62 ->
  aruns (parse_dimacs fuel k maxd ih lrs_init) (view_init S None) (ADone (Some ho, items, FOk, lr') v') ->
  aruns (parse_dimacs fuel k maxd ih lrs_init) (view_init (write_doc k d) None) r ->
  doc_ok ih k maxd d = true /\ exists lr2 v2, r = ADone (Some ho, items, FOk, lr2) v2.
Proof. exact dimacs_converse_all_runs. Qed.
Print Assumptions C03_dimacs_converse.

Theorem C03_aag_accepted_is_in_domain : forall fuel maxc S fail hd items lr' v',
  1 <= maxc -> maxc < 2 ^ 64 ->
  aruns (parse_aag fuel maxc lrs_init) (view_init S fail) (ADone (Some hd, items, FOk, lr') v') ->
  exists a, hd = g_header a /\ items = aag_items a /\ aag_ok maxc a /\ whole_file (Some hd, items, FOk) = Ok a.
Proof. exact aag_accepted_in_domain. Qed.
Print Assumptions C03_aag_accepted_is_in_domain.

Theorem C03_aag_converse : forall fuel maxc S hd items lr' v' a r,
  1 <= maxc -> maxc < 2 ^ 64 ->
  aruns (parse_aag fuel maxc lrs_init) (view_init S None) (ADone (Some hd, items, FOk, lr') v') ->
  whole_file (Some hd, items, FOk) = Ok a ->
  (length (write_aag a) < fuel)%nat -> nlen (write_aag a) < 2 ^ 62 ->
  aruns (parse_aag fuel maxc lrs_init) (view_init (write_aag a) None) r ->
  aag_ok maxc a /\ exists lr2 v2, r = ADone (Some hd, items, FOk, lr2) v2.
Proof. exact aag_converse_all_runs. Qed.
Print Assumptions C03_aag_converse.

Theorem C03_aig_converse : forall fuel maxc S hd items lr' v' a r,
  1 <= maxc -> maxc < 2 ^ 64 ->
  aruns (parse_aig fuel maxc lrs_init) (view_init S None) (ADone (Some hd, items, FOk, lr') v') ->
  whole_file (Some hd, items, FOk) = Ok a ->
  (length (write_aig a) < fuel)%nat -> nlen (write_aig a) < 2 ^ 62 ->
  aruns (parse_aig fuel maxc lrs_init) (view_init (write_aig a) None) r ->
  aig_ok maxc a /\ write_aig_checked a = WrOk (write_aig a) /\ exists lr2 v2, r = ADone (Some hd, items, FOk, lr2) v2.
Proof. exact aig_converse_all_runs. Qed.
Print Assumptions C03_aig_converse.

