(* ProgBuf.v — C10 for parser programs: the reader's buffer while a program runs.
   Reader.v / ReaderProofs.v bound the buffer after one reader operation by what it was, or three chunks plus the
   window (valid_len).  Here the bound is carried through the execution of a parser program (Prog.crun):
     1. [crun_buf]: crun, instrumented with the largest buffer length seen in any reader state of the run —
        the states between the nodes of the program and the states inside a peek (every iteration of its refill
        loop, and the state between the two phases of a refill); [crun_buf_fst]: it is the same execution;
     2. the window after a peek: [valid_len] is at most what it was, or the offset asked for plus one chunk
        ([peek_window]: a refill loop stops as soon as the byte asked for is there, and one refill delivers at
        most one chunk);
     3. [crun_buf_bound]: a program all of whose peeks have an offset below W, started with a window of at most
        W + C and a buffer of at most 4C + W (C: chunk size), never holds a buffer larger than 4C + W, and ends
        in a state that satisfies the same conditions — the bound composes over any number of calls: it does not
        depend on the number of bytes or items processed before;
     4. [crun_buf_window]: the peek offsets of the concrete run are bounded by the window [vreq - vcur] of the
        intermediate views of the admissible abstract run it follows (LookProofs.aruns_via), so the view-level
        window theorems of LookProofs.v give buffer bounds for concrete runs. *)
From Flussab Require Import Base Reader ListN ReaderProofs Prog ProgProofs Simulation.
From Flussab Require Import LookProofs.
Ltac Zify.zify_post_hook ::= Z.to_euclidean_division_equations.

(* ================================================================== *)
(* 1. the largest buffer inside a refill / a refill loop / a peek       *)

(* request_more: the state before, the state after phase 1 (realign, shrink, grow), the state after the read *)
Definition rm_peak (s : rstate) : N :=
  if complete s then nlen (buf s) else
  if realign_needed s && negb (pos_in_buf s + valid_len s <=? nlen (buf s)) then nlen (buf s)
  else N.max (nlen (buf s)) (N.max (nlen (buf (prep s))) (nlen (buf (rm_state (finish_read (prep s)))))).

(* the refill loop: every state the loop passes through *)
Fixpoint fill_peak (fuel : nat) (need : N) (s : rstate) : N :=
  if need <=? valid_len s then nlen (buf s) else
  match fuel with
  | O => nlen (buf s)
  | S f =>
      N.max (rm_peak s)
            (match request_more s with
             | RMDone true s' => fill_peak f need s'
             | _ => 0
             end)
  end.

Definition peek_peak (s : rstate) (k : N) : N :=
  if k <? valid_len s then nlen (buf s) else fill_peak (loop_fuel s) (k + 1) s.

Lemma rm_peak_ge s : nlen (buf s) <= rm_peak s /\ nlen (buf (rm_state (request_more s))) <= rm_peak s.
Proof.
  unfold rm_peak, request_more. destruct (complete s); [cbn [rm_state]; lia|].
  destruct (realign_needed s && negb (pos_in_buf s + valid_len s <=? nlen (buf s))); [cbn [rm_state]; lia|]. lia.
Qed.

Lemma rm_peak_bound s C :
  Inv s -> chunk_size s <= C -> rm_peak s <= N.max (nlen (buf s)) (3 * C + valid_len s).
Proof.
  intros HI HC. pose proof (prep_buf_bound s C HI HC) as Hp.
  pose proof (request_more_buf_bound s C HI HC) as [Hr _]. cbn zeta in Hr.
  revert Hr. unfold rm_peak, request_more. destruct (complete s); [intros _; lia|].
  destruct (realign_needed s && negb (pos_in_buf s + valid_len s <=? nlen (buf s))); [intros _; lia|].
  intros Hr. lia.
Qed.

(* one refill delivers at most one chunk *)
Lemma request_more_valid_bound s : valid_len (rm_state (request_more s)) <= valid_len s + chunk_size s.
Proof.
  unfold request_more. destruct (complete s); [cbn [rm_state]; lia|].
  destruct (realign_needed s && negb (pos_in_buf s + valid_len s <=? nlen (buf s))); [cbn [rm_state]; lia|].
  unfold finish_read. change (chunk_size (prep s)) with (chunk_size s). change (valid_len (prep s)) with (valid_len s).
  destruct (read_retry (src (prep s)) (chunk_size s) (g_calls (prep s))) as [[[bs cl|e] sr] c]; cbn [rm_state].
  - destruct (cl =? 0); [cbn [rm_state after_read valid_len]; lia|].
    destruct (chunk_size s <? cl) eqn:E; cbn [rm_state after_read valid_len]; [lia|]. apply N.ltb_ge in E. lia.
  - cbn [after_read valid_len]. lia.
Qed.

(* the loop stops as soon as [need] bytes are there: at most [need - 1] plus one chunk *)
Lemma fill_until_valid_bound C fuel : forall need s,
  chunk_size s <= C ->
  valid_len (loop_state (fill_until fuel need s)) <= N.max (valid_len s) (need + C - 1).
Proof.
  induction fuel as [|f IH]; intros need s HC; cbn [fill_until].
  - destruct (need <=? valid_len s); cbn [loop_state]; lia.
  - destruct (need <=? valid_len s) eqn:Hn; [cbn [loop_state]; lia|]. apply N.leb_gt in Hn.
    pose proof (request_more_valid_bound s) as Hv.
    pose proof (frame_request_more s) as (_ & _ & _ & Hch).
    destruct (request_more s) as [[|] s1|k s1]; cbn [rm_state loop_state] in *; try lia.
    specialize (IH need s1 ltac:(lia)). lia.
Qed.

Lemma fill_peak_ge fuel : forall need s,
  nlen (buf s) <= fill_peak fuel need s /\ nlen (buf (loop_state (fill_until fuel need s))) <= fill_peak fuel need s.
Proof.
  induction fuel as [|f IH]; intros need s; cbn [fill_until fill_peak].
  - destruct (need <=? valid_len s); cbn [loop_state]; lia.
  - destruct (need <=? valid_len s); [cbn [loop_state]; lia|].
    pose proof (rm_peak_ge s) as [H1 H2].
    destruct (request_more s) as [[|] s1|k s1]; cbn [rm_state loop_state] in *; try lia.
    destruct (IH need s1) as [_ H3]. lia.
Qed.

Lemma fill_peak_bound C fuel : forall need s,
  Inv s -> chunk_size s <= C ->
  fill_peak fuel need s <= N.max (nlen (buf s)) (3 * C + valid_len (loop_state (fill_until fuel need s))).
Proof.
  induction fuel as [|f IH]; intros need s HI HC; cbn [fill_until fill_peak].
  - destruct (need <=? valid_len s); cbn [loop_state]; lia.
  - destruct (need <=? valid_len s); [cbn [loop_state]; lia|].
    pose proof (rm_peak_bound s C HI HC) as Hp.
    pose proof (request_more_buf_bound s C HI HC) as [Hb Hv]. cbn zeta in Hb, Hv.
    pose proof (Inv_request_more s HI) as HI'.
    pose proof (frame_request_more s) as (_ & _ & _ & Hch).
    destruct (request_more s) as [[|] s1|k s1]; cbn [rm_state loop_state] in *; try lia.
    specialize (IH need s1 HI' ltac:(lia)).
    pose proof (fill_until_buf_bound C f need s1 HI' ltac:(lia)) as [_ Hm]. cbn zeta in Hm. lia.
Qed.

(* the state a peek leaves behind *)
Lemma peek_state s k :
  fst (peek s k) = if k <? valid_len s then s else loop_state (fill_until (loop_fuel s) (k + 1) s).
Proof.
  unfold peek. destruct (k <? valid_len s); [destruct (nnth (buf s) (pos_in_buf s + k)); reflexivity|].
  destruct (fill_until (loop_fuel s) (k + 1) s) as [s'|p s'|s']; cbn [loop_state]; [|reflexivity..].
  destruct (k <? valid_len s'); [destruct (nnth (buf s') (pos_in_buf s' + k))|]; reflexivity.
Qed.

Lemma peek_peak_ge s k : nlen (buf s) <= peek_peak s k /\ nlen (buf (fst (peek s k))) <= peek_peak s k.
Proof.
  rewrite peek_state. unfold peek_peak. destruct (k <? valid_len s); [lia|].
  apply fill_peak_ge.
Qed.

Lemma Inv_peek s k : Inv s -> Inv (fst (peek s k)).
Proof.
  intros HI. rewrite peek_state. destruct (k <? valid_len s); [exact HI|]. apply fill_until_Inv. exact HI.
Qed.

Lemma peek_chunk s k : chunk_size (fst (peek s k)) = chunk_size s.
Proof.
  rewrite peek_state. destruct (k <? valid_len s); [reflexivity|].
  pose proof (frame_fill_until (loop_fuel s) (k + 1) s) as (_ & _ & _ & H). exact H.
Qed.

(* ================================================================== *)
(* 2. the window and the buffer after a peek (G2)                       *)

(* the window only grows, and at most to the offset asked for plus one chunk: the refill loop stops as soon as
   byte k is there (k + 1 <= valid_len), and the last refill adds at most a chunk to a window of at most k *)
Theorem peek_window s k C :
  chunk_size s <= C ->
  let s' := fst (peek s k) in
  valid_len s <= valid_len s' /\ valid_len s' <= N.max (valid_len s) (k + C).
Proof.
  intros HC. cbn zeta. rewrite peek_state. destruct (k <? valid_len s); [lia|].
  pose proof (fill_until_valid_bound C (loop_fuel s) (k + 1) s HC) as H1.
  split; [|lia].
  clear H1. generalize (loop_fuel s) as fuel. intros fuel. revert s HC.
  induction fuel as [|f IH]; intros s HC; cbn [fill_until].
  - destruct (k + 1 <=? valid_len s); cbn [loop_state]; lia.
  - destruct (k + 1 <=? valid_len s); [cbn [loop_state]; lia|].
    pose proof (frame_request_more s) as (_ & _ & _ & Hch).
    assert (Hv : valid_len s <= valid_len (rm_state (request_more s))).
    { unfold request_more. destruct (complete s); [cbn [rm_state]; lia|].
      destruct (realign_needed s && negb (pos_in_buf s + valid_len s <=? nlen (buf s))); [cbn [rm_state]; lia|].
      unfold finish_read. change (valid_len (prep s)) with (valid_len s).
      destruct (read_retry (src (prep s)) (chunk_size (prep s)) (g_calls (prep s))) as [[[bs cl|e] sr] c]; cbn [rm_state].
      - destruct (cl =? 0); [cbn [rm_state after_read valid_len]; lia|].
        destruct (chunk_size (prep s) <? cl); cbn [rm_state after_read valid_len]; lia.
      - cbn [after_read valid_len]. lia. }
    destruct (request_more s) as [[|] s1|p s1]; cbn [rm_state loop_state] in *; try lia.
    specialize (IH s1 ltac:(lia)). lia.
Qed.

(* the buffer after a peek, and every buffer inside it: what it was, or three chunks plus the new window *)
Theorem peek_buf_bound s k C :
  Inv s -> chunk_size s <= C ->
  let s' := fst (peek s k) in
  nlen (buf s') <= peek_peak s k /\ peek_peak s k <= N.max (nlen (buf s)) (3 * C + valid_len s').
Proof.
  intros HI HC. cbn zeta. split; [apply peek_peak_ge|].
  rewrite peek_state. unfold peek_peak. destruct (k <? valid_len s); [lia|].
  apply fill_peak_bound; assumption.
Qed.

(* both together: in terms of the state before the peek only *)
Corollary peek_buf_bound_pre s k C :
  Inv s -> chunk_size s <= C ->
  peek_peak s k <= N.max (nlen (buf s)) (3 * C + N.max (valid_len s) (k + C)).
Proof.
  intros HI HC. pose proof (peek_buf_bound s k C HI HC) as [_ H]. pose proof (peek_window s k C HC) as [_ H2].
  cbn zeta in *. lia.
Qed.

(* the window bound is attained: chunk size 4, empty window, offset 0: the window is 4 = 0 + 4 afterwards *)
Example peek_window_tight :
  let s := set_chunk (reader_init {| prebuf := []; data := nrepeat 7 40; events := [] |}) 4 in
  valid_len (fst (peek s 0)) = 0 + 4.
Proof. vm_compute. reflexivity. Qed.

(* ================================================================== *)
(* 3. crun with the largest buffer recorded (G1)                        *)

(* [crun_buf p s m]: the result of [crun p s], and the maximum of m and of [nlen (buf _)] over every reader state
   of the run: the state at every node of the program, every state inside the peeks, the state left by a panic *)
Fixpoint crun_buf {A} (p : prog A) (s : rstate) (m : N) : cres A * N :=
  let m0 := N.max m (nlen (buf s)) in
  match p with
  | Ret a => (CDone a s, m0)
  | Peek k c =>
      let m1 := N.max m0 (peek_peak s k) in
      match peek s k with
      | (s', VOptByte o) => crun_buf (c o) s' m1
      | (s', VPanic pk) => (CPanic pk s', N.max m1 (nlen (buf s')))
      | (s', VFuel) => (CFuel, N.max m1 (nlen (buf s')))
      | (s', _) => (CUB, N.max m1 (nlen (buf s')))
      end
  | Advance n c =>
      match advance s n with
      | (s', None) => crun_buf c s' m0
      | (s', Some pk) => (CPanic pk s', N.max m0 (nlen (buf s')))
      end
  | TryLoad8 off c =>
      if off + 8 <=? valid_len s
      then crun_buf (c (Some (le_value (window (buf s) (pos_in_buf s + off) 8)))) s m0
      else crun_buf (c None) s m0
  | IsAtEnd c => crun_buf (c (is_at_end s)) s m0
  | ErrParked c => crun_buf (c (match io_error s with Some _ => true | None => false end)) s m0
  | TakeErr c => crun_buf (c (io_error s)) (clear_io_error s) m0
  | SetMark c => crun_buf c (set_mark_in_buf s (pos_in_buf s) (g_consumed s)) m0
  | GetMark c => crun_buf (c (mark s)) s m0
  | GetPos c => crun_buf (c (position s)) s m0
  | Crash k => (CPanic k s, m0)
  | NoFuel => (CFuel, m0)
  end.

(* it is the same execution *)
Theorem crun_buf_fst {A} (p : prog A) : forall s m, fst (crun_buf p s m) = crun p s.
Proof.
  induction p as [a|k c IH|n c IH|off c IH|c IH|c IH|c IH|c IH|c IH|c IH|k|]; intros s m; cbn [crun_buf crun];
    try reflexivity; try apply IH.
  - destruct (peek s k) as [s' [bs|o|b|x| |e|pk| |]]; try reflexivity. apply IH.
  - destruct (advance s n) as [s' [pk|]]; [reflexivity|apply IH].
  - destruct (off + 8 <=? valid_len s); apply IH.
Qed.

(* the recorded maximum is at least the starting value, the buffer at the start, and the buffer at the end *)
Lemma crun_buf_ge {A} (p : prog A) : forall s m,
  m <= snd (crun_buf p s m) /\ nlen (buf s) <= snd (crun_buf p s m) /\
  (forall a s', crun p s = CDone a s' -> nlen (buf s') <= snd (crun_buf p s m)) /\
  (forall pk s', crun p s = CPanic pk s' -> nlen (buf s') <= snd (crun_buf p s m)).
Proof.
  induction p as [a|k c IH|n c IH|off c IH|c IH|c IH|c IH|c IH|c IH|c IH|k|]; intros s m; cbn [crun_buf crun].
  - cbn [snd]. split; [lia|]. split; [lia|]. split; [intros a0 s' E; inversion E; subst; lia|intros pk s' E; discriminate].
  - destruct (peek s k) as [s' [bs|o|b|x| |e|pk| |]]; cbn [snd];
      try (split; [lia|]; split; [lia|]; split; [intros a0 s0 E; discriminate|intros pk0 s0 E; first [discriminate|inversion E; subst; lia]]).
    destruct (IH o s' (N.max (N.max m (nlen (buf s))) (peek_peak s k))) as (h1 & h2 & h3 & h4).
    split; [lia|]. split; [lia|]. split; assumption.
  - destruct (advance s n) as [s' [pk|]]; cbn [snd].
    + split; [lia|]. split; [lia|]. split; [intros a0 s0 E; discriminate|intros pk0 s0 E; inversion E; subst; lia].
    + destruct (IH s' (N.max m (nlen (buf s)))) as (h1 & h2 & h3 & h4).
      split; [lia|]. split; [lia|]. split; assumption.
  - destruct (off + 8 <=? valid_len s).
    + destruct (IH (Some (le_value (window (buf s) (pos_in_buf s + off) 8))) s (N.max m (nlen (buf s)))) as (h1 & h2 & h3 & h4).
      split; [lia|]. split; [lia|]. split; assumption.
    + destruct (IH None s (N.max m (nlen (buf s)))) as (h1 & h2 & h3 & h4).
      split; [lia|]. split; [lia|]. split; assumption.
  - destruct (IH (is_at_end s) s (N.max m (nlen (buf s)))) as (h1 & h2 & h3 & h4).
    split; [lia|]. split; [lia|]. split; assumption.
  - destruct (IH (match io_error s with Some _ => true | None => false end) s (N.max m (nlen (buf s)))) as (h1 & h2 & h3 & h4).
    split; [lia|]. split; [lia|]. split; assumption.
  - destruct (IH (io_error s) (clear_io_error s) (N.max m (nlen (buf s)))) as (h1 & h2 & h3 & h4).
    split; [lia|]. split; [lia|]. split; assumption.
  - destruct (IH (set_mark_in_buf s (pos_in_buf s) (g_consumed s)) (N.max m (nlen (buf s)))) as (h1 & h2 & h3 & h4).
    split; [lia|]. split; [lia|]. split; assumption.
  - destruct (IH (mark s) s (N.max m (nlen (buf s)))) as (h1 & h2 & h3 & h4).
    split; [lia|]. split; [lia|]. split; assumption.
  - destruct (IH (position s) s (N.max m (nlen (buf s)))) as (h1 & h2 & h3 & h4).
    split; [lia|]. split; [lia|]. split; assumption.
  - cbn [snd]. split; [lia|]. split; [lia|]. split; [intros a0 s' E; discriminate|intros pk s' E; inversion E; subst; lia].
  - cbn [snd]. split; [lia|]. split; [lia|]. split; [intros a0 s' E; discriminate|intros pk s' E; discriminate].
Qed.

(* the buffer of the starting state is counted once *)
Lemma crun_buf_start {A} (p : prog A) s m : crun_buf p s (N.max m (nlen (buf s))) = crun_buf p s m.
Proof.
  assert (E : N.max (N.max m (nlen (buf s))) (nlen (buf s)) = N.max m (nlen (buf s))) by lia.
  destruct p; cbn [crun_buf]; rewrite E; reflexivity.
Qed.

(* sequential composition: the second program goes on with the maximum of the first *)
Theorem crun_buf_pbind {A B} (p : prog A) (f : A -> prog B) : forall s m,
  crun_buf (pbind p f) s m =
  match crun_buf p s m with
  | (CDone a s', m') => crun_buf (f a) s' m'
  | (CPanic k s', m') => (CPanic k s', m')
  | (CUB, m') => (CUB, m')
  | (CFuel, m') => (CFuel, m')
  end.
Proof.
  induction p as [a|k c IH|n c IH|off c IH|c IH|c IH|c IH|c IH|c IH|c IH|k|]; intros s m; cbn [pbind];
    try (cbn [crun_buf]; reflexivity); try (cbn [crun_buf]; apply IH).
  - cbn [crun_buf]. symmetry. apply crun_buf_start.
  - cbn [crun_buf]. destruct (peek s k) as [s' [bs|o|b|x| |e|pk| |]]; try reflexivity. apply IH.
  - cbn [crun_buf]. destruct (advance s n) as [s' [pk|]]; [reflexivity|apply IH].
  - cbn [crun_buf]. destruct (off + 8 <=? valid_len s); apply IH.
Qed.

(* ================================================================== *)
(* 4. programs whose peeks stay below W: the buffer bound (G3, reader side) *)

(* along the concrete run from s, every Peek has an offset below W *)
Fixpoint PeekBound {A} (W : N) (p : prog A) (s : rstate) : Prop :=
  match p with
  | Ret _ => True
  | Peek k c =>
      k < W /\
      match peek s k with
      | (s', VOptByte o) => PeekBound W (c o) s'
      | _ => True
      end
  | Advance n c =>
      match advance s n with
      | (s', None) => PeekBound W c s'
      | _ => True
      end
  | TryLoad8 off c =>
      if off + 8 <=? valid_len s
      then PeekBound W (c (Some (le_value (window (buf s) (pos_in_buf s + off) 8)))) s
      else PeekBound W (c None) s
  | IsAtEnd c => PeekBound W (c (is_at_end s)) s
  | ErrParked c => PeekBound W (c (match io_error s with Some _ => true | None => false end)) s
  | TakeErr c => PeekBound W (c (io_error s)) (clear_io_error s)
  | SetMark c => PeekBound W c (set_mark_in_buf s (pos_in_buf s) (g_consumed s))
  | GetMark c => PeekBound W (c (mark s)) s
  | GetPos c => PeekBound W (c (position s)) s
  | Crash _ => True
  | NoFuel => True
  end.

Lemma PeekBound_mono {A} (p : prog A) W W' : W <= W' -> forall s, PeekBound W p s -> PeekBound W' p s.
Proof.
  intros HW.
  induction p as [a|k c IH|n c IH|off c IH|c IH|c IH|c IH|c IH|c IH|c IH|k|]; intros s; cbn [PeekBound]; auto.
  - intros [H1 H2]. split; [lia|]. destruct (peek s k) as [s' [bs|o|b|x| |e|pk| |]]; auto.
  - destruct (advance s n) as [s' [pk|]]; auto.
  - destruct (off + 8 <=? valid_len s); auto.
Qed.

Lemma PeekBound_pbind {A B} (p : prog A) (f : A -> prog B) W : forall s,
  PeekBound W (pbind p f) s <->
  PeekBound W p s /\ (forall a s', crun p s = CDone a s' -> PeekBound W (f a) s').
Proof.
  induction p as [a|k c IH|n c IH|off c IH|c IH|c IH|c IH|c IH|c IH|c IH|k|]; intros s; cbn [pbind PeekBound crun];
    try apply IH.
  - split; [intros H; split; [exact I|intros a0 s' E; inversion E; subst; exact H]|intros [_ H]; apply H; reflexivity].
  - destruct (peek s k) as [s' [bs|o|b|x| |e|pk| |]];
      try (split; [intros [H _]; split; [split; [exact H|exact I]|intros a0 s0 E; discriminate]|intros [[H _] _]; split; [exact H|exact I]]).
    specialize (IH o s'). split.
    + intros [H1 H2]. apply IH in H2. destruct H2 as [H2 H3]. split; [split; assumption|exact H3].
    + intros [[H1 H2] H3]. split; [exact H1|]. apply IH. split; assumption.
  - destruct (advance s n) as [s' [pk|]]; [|apply IH].
    split; [intros _; split; [exact I|intros a0 s0 E; discriminate]|intros _; exact I].
  - destruct (off + 8 <=? valid_len s); apply IH.
  - split; [intros _; split; [exact I|intros a0 s0 E; discriminate]|intros _; exact I].
  - split; [intros _; split; [exact I|intros a0 s0 E; discriminate]|intros _; exact I].
Qed.

Lemma Inv_clear_io_error s : Inv s -> Inv (clear_io_error s).
Proof.
  intros [a1 a2 a3 a4 a5 a6 a7 a8]. constructor; try assumption.
  cbn [clear_io_error io_error]. intros H. exfalso. apply H. reflexivity.
Qed.

(* The invariant of a run: window at most V, buffer at most B, where V has room for the largest offset plus a chunk
   and B for three chunks plus V.  Everything a run does keeps it; the recorded maximum stays below B. *)
Theorem crun_buf_inv {A} (p : prog A) (C W V B : N) : forall s m,
  Inv s -> chunk_size s <= C -> PeekBound W p s ->
  W + C - 1 <= V -> 3 * C + V <= B ->
  valid_len s <= V -> nlen (buf s) <= B ->
  snd (crun_buf p s m) <= N.max m B /\
  (forall a s', crun p s = CDone a s' ->
     Inv s' /\ chunk_size s' = chunk_size s /\ valid_len s' <= V /\ nlen (buf s') <= B) /\
  (forall pk s', crun p s = CPanic pk s' ->
     Inv s' /\ chunk_size s' = chunk_size s /\ valid_len s' <= V /\ nlen (buf s') <= B).
Proof.
  induction p as [a|k c IH|n c IH|off c IH|c IH|c IH|c IH|c IH|c IH|c IH|k|];
    intros s m HI HC HP HV HB Hv Hb; cbn [crun_buf crun PeekBound] in *.
  - cbn [snd]. split; [lia|]. split; [|intros pk s' E; discriminate].
    intros a0 s' E; inversion E; subst. split; [exact HI|]. split; [reflexivity|]. split; assumption.
  - (* Peek *)
    destruct HP as [Hk HP].
    pose proof (Inv_peek s k HI) as HI'. pose proof (peek_chunk s k) as Hch.
    pose proof (peek_window s k C HC) as [_ Hw]. cbn zeta in Hw.
    pose proof (peek_buf_bound s k C HI HC) as [Hb1 Hb2]. cbn zeta in Hb1, Hb2.
    assert (Hv' : valid_len (fst (peek s k)) <= V) by lia.
    assert (Hpk : peek_peak s k <= B) by lia.
    assert (Hb' : nlen (buf (fst (peek s k))) <= B) by lia.
    destruct (peek s k) as [s' [bs|o|b|x| |e|pk| |]]; cbn [fst snd] in *;
      try (split; [lia|]; split; [intros a0 s0 E; discriminate|intros pk0 s0 E;
           first [discriminate|inversion E; subst; split; [exact HI'|]; split; [exact Hch|]; split; assumption]]).
    destruct (IH o s' (N.max (N.max m (nlen (buf s))) (peek_peak s k)) HI' ltac:(lia) HP HV HB Hv' Hb') as (h1 & h2 & h3).
    split; [lia|]. split.
    + intros a0 s0 E. destruct (h2 a0 s0 E) as (g1 & g2 & g3 & g4). split; [exact g1|]. split; [congruence|]. split; assumption.
    + intros pk0 s0 E. destruct (h3 pk0 s0 E) as (g1 & g2 & g3 & g4). split; [exact g1|]. split; [congruence|]. split; assumption.
  - (* Advance *)
    pose proof (Inv_advance s n HI) as HI'.
    assert (Hadv : chunk_size (fst (advance s n)) = chunk_size s /\ valid_len (fst (advance s n)) <= valid_len s /\
                   buf (fst (advance s n)) = buf s).
    { unfold advance. destruct (valid_len s <? n); cbn [fst upd_adv chunk_size valid_len buf]; split; try reflexivity; split; try reflexivity; lia. }
    destruct Hadv as (Hch & Hvl & Hbf).
    destruct (advance s n) as [s' [pk|]]; cbn [fst snd] in *.
    + split; [rewrite Hbf; lia|]. split; [intros a0 s0 E; discriminate|].
      intros pk0 s0 E. inversion E; subst. split; [exact HI'|]. split; [exact Hch|]. split; [lia|rewrite Hbf; exact Hb].
    + destruct (IH s' (N.max m (nlen (buf s))) HI' ltac:(lia) HP HV HB ltac:(lia) ltac:(rewrite Hbf; exact Hb)) as (h1 & h2 & h3).
      split; [lia|]. split.
      * intros a0 s0 E. destruct (h2 a0 s0 E) as (g1 & g2 & g3 & g4). split; [exact g1|]. split; [congruence|]. split; assumption.
      * intros pk0 s0 E. destruct (h3 pk0 s0 E) as (g1 & g2 & g3 & g4). split; [exact g1|]. split; [congruence|]. split; assumption.
  - (* TryLoad8 *)
    destruct (off + 8 <=? valid_len s).
    + destruct (IH _ s (N.max m (nlen (buf s))) HI HC HP HV HB Hv Hb) as (h1 & h2 & h3). split; [lia|]. split; assumption.
    + destruct (IH _ s (N.max m (nlen (buf s))) HI HC HP HV HB Hv Hb) as (h1 & h2 & h3). split; [lia|]. split; assumption.
  - destruct (IH _ s (N.max m (nlen (buf s))) HI HC HP HV HB Hv Hb) as (h1 & h2 & h3). split; [lia|]. split; assumption.
  - destruct (IH _ s (N.max m (nlen (buf s))) HI HC HP HV HB Hv Hb) as (h1 & h2 & h3). split; [lia|]. split; assumption.
  - destruct (IH _ (clear_io_error s) (N.max m (nlen (buf s))) (Inv_clear_io_error s HI) HC HP HV HB Hv Hb) as (h1 & h2 & h3).
    split; [lia|]. split; assumption.
  - destruct (IH (set_mark_in_buf s (pos_in_buf s) (g_consumed s)) (N.max m (nlen (buf s))) (Inv_set_mark s HI) HC HP HV HB Hv Hb)
      as (h1 & h2 & h3).
    split; [lia|]. split; assumption.
  - destruct (IH _ s (N.max m (nlen (buf s))) HI HC HP HV HB Hv Hb) as (h1 & h2 & h3). split; [lia|]. split; assumption.
  - destruct (IH _ s (N.max m (nlen (buf s))) HI HC HP HV HB Hv Hb) as (h1 & h2 & h3). split; [lia|]. split; assumption.
  - cbn [snd]. split; [lia|]. split; [intros a0 s' E; discriminate|].
    intros pk s' E; inversion E; subst. split; [exact HI|]. split; [reflexivity|]. split; assumption.
  - cbn [snd]. split; [lia|]. split; [intros a0 s' E; discriminate|intros pk s' E; discriminate].
Qed.

(* the sharp form: in terms of the state at the start only *)
Corollary crun_buf_sharp {A} (p : prog A) (C W : N) s m :
  Inv s -> chunk_size s <= C -> PeekBound W p s ->
  snd (crun_buf p s m) <= N.max m (N.max (nlen (buf s)) (3 * C + N.max (valid_len s) (W + C - 1))).
Proof.
  intros HI HC HP.
  destruct (crun_buf_inv p C W (N.max (valid_len s) (W + C - 1)) (N.max (nlen (buf s)) (3 * C + N.max (valid_len s) (W + C - 1)))
              s m HI HC HP) as [H _]; lia.
Qed.

(* The state between two calls of a parser: chunk size at most C, window at most W + C, buffer at most 4C + W. *)
Definition BufOK (C W : N) (s : rstate) : Prop :=
  Inv s /\ chunk_size s <= C /\ valid_len s <= W + C /\ nlen (buf s) <= 4 * C + W.

Lemma BufOK_init sr c W : BufOK c W (set_chunk (reader_init sr) c).
Proof.
  split; [destruct (Inv_init sr); constructor; assumption|].
  cbn [set_chunk reader_init chunk_size valid_len buf]. change (nlen (@nil byte)) with 0. lia.
Qed.

Lemma BufOK_mono C W W' s : W <= W' -> BufOK C W s -> BufOK C W' s.
Proof. intros H (h1 & h2 & h3 & h4). split; [exact h1|]. split; [exact h2|]. split; lia. Qed.

(* G3, reader side: a program whose peeks have offsets below W, started between two calls, never holds more than
   4C + W bytes of buffer, and ends between two calls again — whatever has been processed before *)
Theorem crun_buf_bound {A} (p : prog A) (C W : N) s m :
  BufOK C W s -> PeekBound W p s ->
  snd (crun_buf p s m) <= N.max m (4 * C + W) /\
  (forall a s', crun p s = CDone a s' -> BufOK C W s') /\
  (forall pk s', crun p s = CPanic pk s' -> BufOK C W s').
Proof.
  intros (HI & HC & Hv & Hb) HP.
  destruct (crun_buf_inv p C W (W + C) (4 * C + W) s m HI HC HP ltac:(lia) ltac:(lia) Hv Hb) as (h1 & h2 & h3).
  split; [exact h1|]. split.
  - intros a s' E. destruct (h2 a s' E) as (g1 & g2 & g3 & g4). split; [exact g1|]. split; [lia|]. split; assumption.
  - intros pk s' E. destruct (h3 pk s' E) as (g1 & g2 & g3 & g4). split; [exact g1|]. split; [lia|]. split; assumption.
Qed.

(* ================================================================== *)
(* 5. the peek offsets of a concrete run, from the windows of the abstract run it follows (G3, view side) *)

(* one-node instances of the simulation theorem *)
Lemma Rel_advance s v n :
  Rel s v -> vcur v + n <= vhwm v -> exists s', advance s n = (s', None) /\ Rel s' (v_advance v n).
Proof.
  intros HR Hle. destruct (simulation (Advance n (Ret tt)) s v HR) as (r & Hr & Href).
  inversion Hr; subst; [|lia].
  match goal with H : aruns (Ret tt) _ _ |- _ => inversion H; subst end.
  destruct Href as (s' & Hc & HR'). cbn [crun] in Hc.
  destruct (advance s n) as [s1 [pk|]]; [discriminate|]. inversion Hc; subst. exists s'. split; [reflexivity|exact HR'].
Qed.

Lemma Rel_tryload s v off :
  Rel s v ->
  let o := if off + 8 <=? valid_len s then Some (le_value (window (buf s) (pos_in_buf s + off) 8)) else None in
  tryload_ok v off o /\ Rel s (v_loaded v off o).
Proof.
  intros HR. cbn zeta. destruct (simulation (TryLoad8 off Ret) s v HR) as (r & Hr & Href).
  inversion Hr; subst.
  match goal with H : aruns (Ret _) _ _ |- _ => inversion H; subst end.
  destruct Href as (s' & Hc & HR'). cbn [crun] in Hc.
  destruct (off + 8 <=? valid_len s); inversion Hc; subst; split; assumption.
Qed.

Lemma Rel_atend s v : Rel s v -> is_at_end s = s_atend v.
Proof.
  intros HR. destruct (simulation (IsAtEnd Ret) s v HR) as (r & Hr & Href).
  inversion Hr; subst. match goal with H : aruns (Ret _) _ _ |- _ => inversion H; subst end.
  destruct Href as (s' & Hc & _). cbn [crun] in Hc. inversion Hc. reflexivity.
Qed.

Lemma Rel_parked s v : Rel s v -> match io_error s with Some _ => true | None => false end = s_parked v.
Proof.
  intros HR. destruct (simulation (ErrParked Ret) s v HR) as (r & Hr & Href).
  inversion Hr; subst. match goal with H : aruns (Ret _) _ _ |- _ => inversion H; subst end.
  destruct Href as (s' & Hc & _). cbn [crun] in Hc. inversion Hc. reflexivity.
Qed.

Lemma Rel_take s v : Rel s v -> io_error s = s_take v /\ Rel (clear_io_error s) (v_take v (s_take v)).
Proof.
  intros HR. destruct (simulation (TakeErr Ret) s v HR) as (r & Hr & Href).
  inversion Hr; subst. match goal with H : aruns (Ret _) _ _ |- _ => inversion H; subst end.
  destruct Href as (s' & Hc & HR'). cbn [crun] in Hc. injection Hc as E1 E2. subst s'. split; [exact E1|exact HR'].
Qed.

Lemma Rel_setmark s v : Rel s v -> Rel (set_mark_in_buf s (pos_in_buf s) (g_consumed s)) (v_setmark v).
Proof.
  intros HR. destruct (simulation (SetMark (Ret tt)) s v HR) as (r & Hr & Href).
  inversion Hr; subst. match goal with H : aruns (Ret _) _ _ |- _ => inversion H; subst end.
  destruct Href as (s' & Hc & HR'). cbn [crun] in Hc. inversion Hc; subst. exact HR'.
Qed.

Lemma Rel_getmark s v : Rel s v -> mark s = vmark v mod W64.
Proof.
  intros HR. destruct (simulation (GetMark Ret) s v HR) as (r & Hr & Href).
  inversion Hr; subst. match goal with H : aruns (Ret _) _ _ |- _ => inversion H; subst end.
  destruct Href as (s' & Hc & _). cbn [crun] in Hc. inversion Hc. reflexivity.
Qed.

Lemma Rel_getpos s v : Rel s v -> position s = vcur v mod W64.
Proof.
  intros HR. destruct (simulation (GetPos Ret) s v HR) as (r & Hr & Href).
  inversion Hr; subst. match goal with H : aruns (Ret _) _ _ |- _ => inversion H; subst end.
  destruct Href as (s' & Hc & _). cbn [crun] in Hc. inversion Hc. reflexivity.
Qed.

(* The simulation theorem with the peek offsets.  G selects the outcomes of interest (for instance: an item whose
   span is at most n).  If every admissible run with an outcome in G is not stuck and keeps the window
   [vreq - vcur] of all its intermediate views at most W, then the concrete run follows an admissible run r, and if
   r is in G, all its peeks have offsets below W. *)
Theorem window_peeks {A} (p : prog A) (G : ares A -> Prop) (W : N) : forall s v,
  Rel s v ->
  (forall vi r, aruns_via p v vi r -> G r -> r <> AStuck /\ vreq vi - vcur vi <= W) ->
  exists r, aruns p v r /\ refines (crun p s) r /\ (G r -> PeekBound W p s).
Proof.
  induction p as [a|k c IH|n c IH|off c IH|c IH|c IH|c IH|c IH|c IH|c IH|k|]; intros s v HR HW; cbn [crun PeekBound].
  - exists (ADone a v). split; [constructor|]. split; [exists s; split; [reflexivity|exact HR]|intros _; exact I].
  - (* Peek *)
    destruct (Rel_peek s v k HR) as (s' & Hp & HR'). rewrite Hp.
    destruct (IH (vpeek v k) s' (after_peek v k) HR') as (r & Hr & Href & HPB).
    { intros vi r Hvia HG. apply (HW vi r); [apply via_peek; exact Hvia|exact HG]. }
    exists r. split; [constructor; exact Hr|]. split; [exact Href|]. intros HG. split; [|apply HPB; exact HG].
    destruct (HW (after_peek v k) r (via_peek _ _ _ _ _ (via_here _ _ _ Hr)) HG) as [_ Hwin].
    cbn [after_peek vreq vcur] in Hwin. lia.
  - (* Advance *)
    destruct (N.le_gt_cases (vcur v + n) (vhwm v)) as [Hle|Hgt].
    + destruct (Rel_advance s v n HR Hle) as (s' & Ha & HR'). rewrite Ha.
      destruct (IH s' (v_advance v n) HR') as (r & Hr & Href & HPB).
      { intros vi r Hvia HG. apply (HW vi r); [apply via_adv; assumption|exact HG]. }
      exists r. split; [apply ar_adv; assumption|]. split; [exact Href|exact HPB].
    + exists AStuck. split; [apply ar_adv_stuck; exact Hgt|]. split; [exact I|]. intros HG. exfalso.
      destruct (HW v AStuck (via_here _ _ _ (ar_adv_stuck n c v Hgt)) HG) as [Hne _]. apply Hne. reflexivity.
  - (* TryLoad8 *)
    pose proof (Rel_tryload s v off HR) as [Hok HR']. cbn zeta in Hok, HR'.
    destruct (off + 8 <=? valid_len s).
    + destruct (IH (Some (le_value (window (buf s) (pos_in_buf s + off) 8))) s _ HR') as (r & Hr & Href & HPB).
      { intros vi r Hvia HG. apply (HW vi r); [eapply via_tryload; eassumption|exact HG]. }
      exists r. split; [eapply ar_tryload; eassumption|]. split; [exact Href|exact HPB].
    + destruct (IH None s _ HR') as (r & Hr & Href & HPB).
      { intros vi r Hvia HG. apply (HW vi r); [eapply via_tryload; eassumption|exact HG]. }
      exists r. split; [eapply ar_tryload; eassumption|]. split; [exact Href|exact HPB].
  - (* IsAtEnd *)
    rewrite (Rel_atend s v HR).
    destruct (IH (s_atend v) s v HR) as (r & Hr & Href & HPB).
    { intros vi r Hvia HG. apply (HW vi r); [apply via_atend; exact Hvia|exact HG]. }
    exists r. split; [constructor; exact Hr|]. split; [exact Href|exact HPB].
  - (* ErrParked *)
    rewrite (Rel_parked s v HR).
    destruct (IH (s_parked v) s v HR) as (r & Hr & Href & HPB).
    { intros vi r Hvia HG. apply (HW vi r); [apply via_parked; exact Hvia|exact HG]. }
    exists r. split; [constructor; exact Hr|]. split; [exact Href|exact HPB].
  - (* TakeErr *)
    destruct (Rel_take s v HR) as [He HR']. rewrite He.
    destruct (IH (s_take v) _ _ HR') as (r & Hr & Href & HPB).
    { intros vi r Hvia HG. apply (HW vi r); [apply via_take; exact Hvia|exact HG]. }
    exists r. split; [constructor; exact Hr|]. split; [exact Href|exact HPB].
  - (* SetMark *)
    destruct (IH _ _ (Rel_setmark s v HR)) as (r & Hr & Href & HPB).
    { intros vi r Hvia HG. apply (HW vi r); [apply via_setmark; exact Hvia|exact HG]. }
    exists r. split; [constructor; exact Hr|]. split; [exact Href|exact HPB].
  - (* GetMark *)
    rewrite (Rel_getmark s v HR).
    destruct (IH (vmark v mod W64) s v HR) as (r & Hr & Href & HPB).
    { intros vi r Hvia HG. apply (HW vi r); [apply via_getmark; exact Hvia|exact HG]. }
    exists r. split; [constructor; exact Hr|]. split; [exact Href|exact HPB].
  - (* GetPos *)
    rewrite (Rel_getpos s v HR).
    destruct (IH (vcur v mod W64) s v HR) as (r & Hr & Href & HPB).
    { intros vi r Hvia HG. apply (HW vi r); [apply via_getpos; exact Hvia|exact HG]. }
    exists r. split; [constructor; exact Hr|]. split; [exact Href|exact HPB].
  - exists (APanic k). split; [constructor|]. split; [exists s; reflexivity|intros _; exact I].
  - exists AFuel. split; [constructor|]. split; [reflexivity|intros _; exact I].
Qed.

(* G3.  The reader is between two calls (BufOK C W); the parser program p is run; every admissible run of p from the
   view of the reader whose outcome is in G keeps its window at most W.  Then the concrete run follows an admissible
   run r, and if r is in G: no reader state of the run holds a buffer of more than 4C + W bytes, and the reader ends
   between two calls again, so that the same theorem applies to the next call.  Nothing in the bound depends on
   the position in the input. *)
Theorem crun_buf_window {A} (p : prog A) (G : ares A -> Prop) (C W : N) s v m :
  Rel s v -> BufOK C W s ->
  (forall vi r, aruns_via p v vi r -> G r -> r <> AStuck /\ vreq vi - vcur vi <= W) ->
  exists r, aruns p v r /\ refines (crun p s) r /\
    (G r -> snd (crun_buf p s m) <= N.max m (4 * C + W) /\
            (forall a s', crun p s = CDone a s' -> BufOK C W s')).
Proof.
  intros HR HB HW. destruct (window_peeks p G W s v HR HW) as (r & Hr & Href & HPB).
  exists r. split; [exact Hr|]. split; [exact Href|]. intros HG.
  destruct (crun_buf_bound p C W s m HB (HPB HG)) as (h1 & h2 & _). split; assumption.
Qed.

(* the form without a selection of outcomes: every admissible run keeps the window at most W and is not stuck *)
Corollary crun_buf_window_all {A} (p : prog A) (C W : N) s v m :
  Rel s v -> BufOK C W s ->
  (forall vi r, aruns_via p v vi r -> r <> AStuck /\ vreq vi - vcur vi <= W) ->
  snd (crun_buf p s m) <= N.max m (4 * C + W) /\ (forall a s', crun p s = CDone a s' -> BufOK C W s').
Proof.
  intros HR HB HW.
  destruct (crun_buf_window p (fun _ => True) C W s v m HR HB) as (r & _ & _ & H); [intros vi r Hv _; apply HW; exact Hv|].
  apply H. exact I.
Qed.

Print Assumptions crun_buf_fst.
Print Assumptions crun_buf_pbind.
Print Assumptions peek_window.
Print Assumptions peek_buf_bound.
Print Assumptions crun_buf_inv.
Print Assumptions crun_buf_bound.
Print Assumptions window_peeks.
Print Assumptions crun_buf_window.
