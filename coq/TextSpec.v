(* TextSpec.v — the mathematical reading of what the text.rs scanners document. *)
From Flussab Require Import Base Writer Prog Text.

(* longest prefix of ASCII digits *)
Fixpoint digit_prefix (l : bytes) : bytes :=
  match l with
  | b :: r => if is_dig b then b :: digit_prefix r else []
  | [] => []
  end.

(* decimal value of a digit string *)
Definition dec_step (a : N) (d : byte) : N := 10 * a + (d - 48).
Definition dec_val (l : bytes) : N := fold_left dec_step l 0.

(* longest prefix of spaces and tabs *)
Fixpoint blank_prefix (l : bytes) : bytes :=
  match l with
  | b :: r => if is_blank b then b :: blank_prefix r else []
  | [] => []
  end.

(* number of bytes up to and including the first LF, or the whole length *)
Fixpoint to_next_newline (l : bytes) : N :=
  match l with
  | b :: r => if b =? 10 then 1 else 1 + to_next_newline r
  | [] => 0
  end.

(* bytes before the first LF (what next_newline has to look at, plus the LF or the end itself) *)
Fixpoint before_newline (l : bytes) : N :=
  match l with
  | b :: r => if b =? 10 then 0 else 1 + before_newline r
  | [] => 0
  end.

(* length of a newline at the head of l: LF -> 1, CR LF -> 2, else 0 *)
Definition newline_len (l : bytes) : N :=
  match l with
  | b :: r =>
      if b =? 10 then 1
      else if b =? 13 then match r with b1 :: _ => if b1 =? 10 then 2 else 0 | [] => 0 end
      else 0
  | [] => 0
  end.

(* length of the longest common prefix of pat and l *)
Fixpoint common_prefix (pat l : bytes) : N :=
  match pat, l with
  | p :: ps, b :: r => if b =? p then 1 + common_prefix ps r else 0
  | _, _ => 0
  end.

(* the rest of the input at a scan offset *)
Definition rest_at (v : view) (offset : N) : bytes := nskipn (vcur v + offset) (vS v).
