"""Parser-level oracle streams (implementation only, all seven parsers):
 kind=chunk  o_c01: one-shot vs re-chunked / interrupted / small chunk size / constructor variants
 kind=fault  o_c04: source failing after k bytes
 kind=safe   o_c05: arbitrary and extreme inputs: Ok or Err, no panic, bounded heap
 kind=expect o_exp: generated values rendered with layout choices -> expected trace (C03/C06/C07)
 kind=line   o_c09: one line per read -> item i after at most the reads that deliver its line"""
from streams import docs

OFF = {"o_new": 1, "o_skip": 1, "o_c01": 1, "o_c04": 2, "o_c05": 1, "o_exp": 2, "o_c09": 2, "o_rt": 1, "o_b2c": 1}

def class_edge_case(rng):
    """a byte just outside a scanner's character class directly before/after a keyword or numeral, delivered byte by
    byte or in small pieces: the 8-byte fast paths and the byte-wise cold paths must classify it alike"""
    parser = rng.choice(["btor2", "btor2", "cnf", "aag", "log"])
    parser, ty, flags, data, _ = docs.gen_doc(rng, parser=parser, valid_only=True)
    b = bytearray(data)
    starts = [i for i in range(len(b)) if (97 <= b[i] <= 122 or 48 <= b[i] <= 57) and (i == 0 or not (97 <= b[i - 1] <= 122 or 48 <= b[i - 1] <= 57))]
    if starts:
        i = rng.choice(starts)
        j = i
        while j < len(b) and (97 <= b[j] <= 122 or 48 <= b[j] <= 57):
            j += 1
        at = rng.choice([i, j, j, rng.randrange(i, j + 1)])
        b[at:at] = bytes([rng.choice([0x7b, 0x7b, 0x60, 0x2f, 0x3a, 0x40, 0x5b])])
    data = bytes(b)
    evs = rng.choice([",".join(["d1"] * (len(data) + 1)), ",".join("d%d" % rng.choice([1, 2, 3, 7]) for _ in range(len(data) + 2))])
    return "o_c01 " + docs.setup(parser, ty, flags, data, (evs, 0, rng.choice([1, 3, 7, 16384]), "r"))


def gen_chunk(rng, n):
    out = []
    for _ in range(n):
        if rng.random() < 0.06:
            out.append(class_edge_case(rng))
            continue
        parser, ty, flags, data, _ = docs.gen_doc(rng)
        if parser in ("aag", "aig") and rng.random() < 0.3:
            flags = "w"
        out.append("o_c01 " + docs.setup(parser, ty, flags, data, docs.gen_schedule(rng, len(data))))
    return out

def gen_fault(rng, n):
    out = []
    while len(out) < n:
        docs.LAST.clear()
        if rng.random() < 0.06:    # binary AIGER with multi-byte delta codes, the streaming API, faults inside the codes
            docs.FORCE_WIDE = True
            parser, ty, flags, data, _ = docs.gen_doc(rng, parser="aig", valid_only=True)
            docs.FORCE_WIDE = False
            flags = "-"
        else:
            parser, ty, flags, data, _ = docs.gen_doc(rng)
            if parser in ("aag", "aig") and rng.random() < 0.3:
                flags = "w"
        sched = docs.gen_schedule(rng, len(data))
        ks = set([0, len(data), max(0, len(data) - 1)])
        nls = [i + 1 for i, b in enumerate(data) if b == 10]
        for _ in range(3):
            ks.add(rng.choice(nls) if nls and rng.random() < 0.5 else rng.randrange(0, len(data) + 1))
        if parser == "aig":   # inside multi-byte delta codes: directly after a continuation byte
            g0, g1 = docs.LAST.get("gate_span", (0, 0))
            conts = [i + 1 for i, b in enumerate(data) if b >= 0x80 and g0 <= i < g1 and g1 <= len(data)]
            for _ in range(min(4, len(conts))):
                ks.add(rng.choice(conts))
        for k in sorted(ks):
            out.append("o_c04 %d " % k + docs.setup(parser, ty, flags, data, sched))
    return out[:n]

def gen_safe(rng, n):
    out = ["o_c05 " + docs.setup(parser, ty, flags, data, None) for (parser, ty, flags, data) in docs.hostile_cases()]
    for _ in range(n):
        parser, ty, flags, data, _ = docs.gen_doc(rng)
        if rng.random() < 0.5:
            for _ in range(rng.choice([1, 2, 4])):
                data = docs.mutate(rng, data)
        if parser in ("aag", "aig") and rng.random() < 0.4:
            flags = "w"
        sched = docs.gen_schedule(rng, len(data)) if rng.random() < 0.45 else None
        if sched is not None and rng.random() < 0.45:     # a source that fails or ends early somewhere
            evs, pre, chunk, ctor = sched
            parts = [] if evs == "-" else evs.split(",")
            if not parts:
                parts = ["d%d" % rng.randrange(1, len(data) + 2) for _ in range(rng.randrange(0, 3))]
            parts = parts[:rng.randrange(0, len(parts) + 1)] + [rng.choice(["f7", "f3", "e"])]
            sched = (",".join(parts), pre, chunk, ctor)
        out.append("o_c05 " + docs.setup(parser, ty, flags, data, sched))
    return out

def gen_expect(rng, n):
    out = []
    while len(out) < n:
        parser, ty, flags, data, exp = docs.gen_doc(rng, valid_only=True)
        if exp is None:
            continue
        sched = docs.gen_schedule(rng, len(data)) if rng.random() < 0.4 else None
        out.append("o_exp %s " % exp.encode().hex() + docs.setup(parser, ty, flags, data, sched))
    return out

def gen_line(rng, n):
    out = []
    while len(out) < n:
        parser = rng.choice(["cnf", "wcnf", "gcnf", "aag", "aig", "btor2"])
        if parser in ("cnf", "wcnf", "gcnf"):
            ty = rng.choice(list(docs.DIMACS_TYPES))
            val = docs.gen_dimacs_value(rng, parser, ty, with_header=True)
            data, ends = docs.render_dimacs(rng, val, fancy=rng.random() < 0.6)
            flags = "-"
        elif parser in ("aag", "aig"):
            ty = rng.choice(list(docs.AIGER_TYPES))
            val = docs.gen_aig(rng, ty)
            val["comment"] = None if rng.random() < 0.7 else val["comment"]
            data, ends = docs.render_aig(val, parser == "aig")
            flags = "-"
        else:
            ty = "-"
            lines = docs.gen_btor2_lines(rng)
            data = docs.render_btor2(lines, True)
            ends = []
            pos = 0
            for l in lines:
                pos += len(l.encode()) + 1
                ends.append(pos)
            flags = "-"
        evs, lens = docs.line_schedule(data)
        want = [docs.reads_needed(lens, e, len(data)) for e in ends]
        out.append("o_c09 %s " % (",".join(str(w) for w in want) or "-") + docs.setup(parser, ty, flags, data, (evs, 0, 16384, "r")))
    return out

def gen_rt(rng, n):
    out = []
    # constants through the validating constructors
    for kind, strs in (("b", ["0", "1", "0101", "", "2", "1" * 70, "0b1"]), ("d", ["0", "7", "-12", "1f", "a", "", "-", "12-3", "９", "1" * 30]),
                       ("h", ["0", "ff", "DEADbeef", "g", "", "0x1", "a" * 40])):
        for t in strs:
            out.append("o_b2c %s %s" % (kind, docs.hexs(t.encode())))
    while len(out) < n:
        parser, ty, flags, data, _ = docs.gen_doc(rng, parser=rng.choice(["cnf", "wcnf", "gcnf", "aag", "aig", "btor2"]))
        out.append("o_rt " + docs.setup(parser, ty, flags, data, None))
    return out

def gen_limits(rng, n):
    out = []
    for (parser, ty, flags, data, exp) in docs.limit_cases(rng):
        sched = docs.gen_schedule(rng, len(data)) if rng.random() < 0.3 else None
        out.append("o_exp %s " % exp.encode().hex() + docs.setup(parser, ty, flags, data, sched))
    return out

def gen_corrupt(rng, n):
    out = []
    for (parser, ty, flags, data, exp) in docs.corruption_cases(rng, n):
        sched = docs.gen_schedule(rng, len(data)) if rng.random() < 0.3 else None
        out.append("o_exp %s " % exp.encode().hex() + docs.setup(parser, ty, flags, data, sched))
    return out

def gen_skip(rng, n):
    """AIGER streaming API with at most N entries taken per section (kN): the section-switch methods skip — and still
    check — the rest"""
    out = []
    while len(out) < n:
        if rng.random() < 0.2:        # binary and-gate sections containing 0x0A bytes, an error behind them
            c = docs.aig_lf_corruption(rng)
            if c is None:
                continue
            parser, ty, flags, data, _ = c
        else:
            parser, ty, flags, data, _ = docs.gen_doc(rng, parser=rng.choice(["aag", "aig"]))
        k = rng.choice([0, 0, 1, 1, 2, 3])
        sched = docs.gen_schedule(rng, len(data)) if rng.random() < 0.5 else None
        if sched is not None and rng.random() < 0.5:     # the source fails somewhere (also inside skipped entries)
            evs, pre, chunk, ctor = sched
            cut = rng.randrange(0, len(data) + 1)
            sched = ("d%d,f7" % cut if cut else "f7", 0, chunk, "r")
        out.append("o_skip " + docs.setup(parser, ty, "k%d" % k, data, sched))
    return out


def gen_new(rng, n):
    """Parser::new(LineReader::new(reader)) on a reader from which the caller has already consumed k bytes: must equal a
    parser started on the remaining input (items, final outcome, error locations)"""
    out = []
    pool = []
    while len(out) < n:
        if not pool:
            pool = [(p, t, f, d) for (p, t, f, d, _) in docs.corruption_cases(rng, 40) if p != "log"]
        if rng.random() < 0.5:
            parser, ty, flags, data = pool.pop()
        else:
            parser, ty, flags, data, _ = docs.gen_doc(rng, parser=rng.choice(["cnf", "wcnf", "gcnf", "aag", "aig", "btor2"]))
        nls = [i + 1 for i, b in enumerate(data) if b == 10]
        k = rng.choice([0, 1, 3] + nls[:3] + [rng.randrange(0, len(data) + 1)])
        chunk = rng.choice([16384, 16384, 1, 7, 64])
        out.append("o_new " + docs.setup(parser, ty, flags if flags in ("-", "h") else "-", data, ("-", min(k, len(data)), chunk, "n")))
    return out


KINDS = {"new": gen_new, "skip": gen_skip, "limits": gen_limits, "corrupt": gen_corrupt, "rt": gen_rt, "chunk": gen_chunk, "fault": gen_fault, "safe": gen_safe, "expect": gen_expect, "line": gen_line}

def gen(rng, n, tier, kind="chunk", **kw):
    return KINDS[kind](rng, n)

def category(case):
    t = case.split()
    return t[0] + "/" + t[OFF[t[0]]]

def _len(case):
    t = case.split()
    return len(t[2]) if t[0] == "o_b2c" else len(t[OFF[t[0]] + 3])

def nontrivial(case):
    return _len(case) >= 16 or case.startswith("o_b2c")
