(* LookProofs.v — C09 at parser level, part 2: Parser::new and Parser::next_clause hand out the header / a clause
   without having asked for a byte beyond the line break that completes it (every admissible run, from any state
   satisfying the invariant K); and the corollary for the concrete reader: with a source that delivers its data
   line by line, nothing but the lines up to the one completing the item has been read when the item is returned. *)
From Flussab Require Import Base Reader ListN Writer Parsed Prog Text TextSpec ProgProofs ScanProofs DigitsProofs.
From Flussab Require Import ReaderProofs Simulation Consts Cnf CnfProofs ErrProofs Hoare CnfSafe Look.
Ltac Zify.zify_post_hook ::= Z.to_euclidean_division_equations.

Section LookParsers.
Variable fuel : nat.

Local Notation K := (K fuel).
Local Notation VOK := (VOK fuel).
Local Notation Gk := (Gk fuel).
Local Notation Gs := (Gs fuel).
Local Notation TokPostR := (TokPostR fuel).
Local Notation GsI := (GsI fuel).
Local Notation meas_init := (meas_init fuel).
Local Notation meas_stepr := (meas_stepr fuel).
Local Notation Gs_Gk := (Gs_Gk fuel).
Local Notation comment_okr := (comment_okr fuel).
Local Notation tnewline_okr := (tnewline_okr fuel).
Local Notation tnewline_okr' := (tnewline_okr' fuel).
Local Notation teof_okr := (teof_okr fuel).
Local Notation matches_tok_okr := (matches_tok_okr fuel).
Local Notation or_unexpected_okr := (or_unexpected_okr fuel).
Local Notation unexpected_okr := (unexpected_okr fuel).
Local Notation word_okr := (word_okr fuel).
Local Notation var_count_okr := (var_count_okr fuel).
Local Notation uint_count_okr := (uint_count_okr fuel).
Local Notation clause_group_okr := (clause_group_okr fuel).
Local Notation clause_lits_okr := (clause_lits_okr fuel).
Local Notation non_terminating_linebreaks_okr := (non_terminating_linebreaks_okr fuel).
Local Notation interactive_end_of_line_okr := (interactive_end_of_line_okr fuel).
Local Notation skip_whitespace_okr := (skip_whitespace_okr fuel).
Local Notation TokPostR_weaken := (TokPostR_weaken fuel).
Local Notation TokPostR_frame := (TokPostR_frame fuel).

Lemma header_skip_okr n : forall lr v, K lr v -> meas v n -> prt (header_skip fuel n) lr v (ResPostR Gk v).
Proof.
  induction n as [|n IH]; intros lr v HK Hm; [exfalso; unfold meas in Hm; lia|]. cbn [header_skip].
  apply prt_pbnd.
  eapply prt_conseq; [apply (matches_tok_okr _ (fun lr' v' => K lr' v' /\ vcur v < vcur v')); apply comment_okr; exact HK|].
  intros c lr1 v1 [Hf Hc]. destruct c as [[|]|e].
  - destruct Hc as [HK1 Hlt]. eapply prt_conseq; [apply IH; [exact HK1|eapply meas_stepr; eassumption]|].
    intros a lr3 v3 Ha. eapply ResPostR_frame; eassumption.
  - apply prt_pbnd.
    eapply prt_conseq; [apply (matches_tok_okr _ (fun lr' v' => K lr' v' /\ vcur v1 < vcur v')); apply tnewline_okr'; exact Hc|].
    intros nl lr2 v2 [Hf2 Hnl]. pose proof (framer_trans _ _ _ Hf Hf2) as Hf12. destruct nl as [[|]|e].
    + destruct Hnl as [HK2 Hlt]. eapply prt_conseq; [apply IH; [exact HK2|eapply (meas_stepr lr2 v v2); [exact Hm|exact Hf12| |exact HK2]]|].
      * destruct Hf as (_ & _ & Hc1 & _). lia.
      * intros a lr3 v3 Ha. eapply ResPostR_frame; eassumption.
    + apply prt_pret. split; assumption.
    + apply prt_pret. split; assumption.
  - apply prt_pret. split; assumption.
Qed.

(* a header has been read: invariant, and the look-ahead bound of an item *)
Definition Ghdr (v : view) : option header -> lrs -> view -> Prop :=
  fun h lr' v' => K lr' v' /\ (h <> None -> ItemLk v v').

Lemma parse_header_okr k maxd lr v : K lr v -> prt (parse_header fuel k maxd) lr v (ResPostR (Ghdr v) v).
Proof.
  intros HK. unfold parse_header.
  apply prt_pbnd. eapply prt_conseq; [apply skip_whitespace_okr; exact HK|]. intros _ lr1 v1 (-> & HK1 & Hf1).
  apply prt_pbnd. eapply prt_conseq; [apply header_skip_okr; [exact HK1|eapply meas_init; exact HK1]|].
  intros r0 lr2 v2 [Hf Hr]. pose proof (framer_trans _ _ _ Hf1 Hf) as Hf2. clear Hf Hf1.
  destruct r0 as [u0|e]; [|apply prt_pret; split; assumption].
  apply prt_pbnd. eapply prt_conseq; [apply word_okr; [apply kw_p_ok|apply kw_p_ok|exact Hr]|].
  intros p lr3 v3 [Hf Hp]. pose proof (framer_trans _ _ _ Hf2 Hf) as Hf3. clear Hf Hf2.
  destruct p as [[u1|e]|];
    [|apply prt_pret; split; assumption|apply prt_pret; split; [assumption|split; [assumption|intros Hn; exfalso; apply Hn; reflexivity]]].
  destruct Hp as [HK3 _].
  apply prt_pbnd. eapply prt_conseq; [apply or_unexpected_okr; apply word_okr; [apply kw_ok|apply kw_ok|exact HK3]|].
  intros w lr4 v4 [Hf Hw]. pose proof (framer_trans _ _ _ Hf3 Hf) as Hf4. clear Hf Hf3.
  destruct w as [u2|e]; [|apply prt_pret; split; assumption].
  destruct Hw as [HK4 _].
  apply prt_pbnd. eapply prt_conseq; [apply or_unexpected_okr; apply var_count_okr; exact HK4|].
  intros vc lr5 v5 [Hf Hvc]. pose proof (framer_trans _ _ _ Hf4 Hf) as Hf5. clear Hf Hf4.
  destruct vc as [vars|e]; [|apply prt_pret; split; assumption].
  destruct Hvc as [HK5 _].
  apply prt_pbnd. eapply prt_conseq; [apply or_unexpected_okr; apply uint_count_okr; exact HK5|].
  intros cc lr6 v6 [Hf Hcc]. pose proof (framer_trans _ _ _ Hf5 Hf) as Hf6. clear Hf Hf5.
  destruct cc as [clauses|e]; [|apply prt_pret; split; assumption].
  destruct Hcc as [HK6 _].
  apply prt_pbnd.
  apply (prt_conseq _ _ _ (ResPostR Gk v6)).
  { destruct k.
    - apply prt_pret. split; [apply framer_refl|exact HK6].
    - eapply prt_conseq; [apply or_unexpected_okr; apply uint_count_okr; exact HK6|].
      intros a lr' v' Ha. eapply ResPostR_weaken; [exact Ha|]. intros x. apply Gs_Gk.
    - eapply prt_conseq; [apply or_unexpected_okr; apply uint_count_okr; exact HK6|].
      intros a lr' v' Ha. eapply ResPostR_weaken; [exact Ha|]. intros x. apply Gs_Gk. }
  intros ex lr7 v7 [Hf Hex]. pose proof (framer_trans _ _ _ Hf6 Hf) as Hf7. clear Hf Hf6.
  destruct ex as [extra|e]; [|apply prt_pret; split; assumption].
  apply prt_pbnd. eapply prt_conseq; [apply or_unexpected_okr; apply interactive_end_of_line_okr; exact Hex|].
  intros eol lr8 v8 [Hf Heol]. pose proof (framer_trans _ _ _ Hf7 Hf) as Hf8.
  destruct eol as [u3|e]; apply prt_pret; (split; [exact Hf8|]); [|exact Heol].
  destruct Heol as [HK8 Hi]. split; [exact HK8|]. intros _. exact (framer_ItemLk _ _ _ Hf7 Hi).
Qed.

(* Parser::new *)
Definition Gnew (v : view) : pstate -> lrs -> view -> Prop :=
  fun st lr' v' => K lr' v' /\ (phdr st <> None -> ItemLk v v').

Lemma parser_new_okr k maxd ih lr v : K lr v -> prt (parser_new fuel k maxd ih) lr v (ResPostR (Gnew v) v).
Proof.
  intros HK. unfold parser_new. apply prt_pbnd. eapply prt_conseq; [apply parse_header_okr; exact HK|].
  intros h lr1 v1 [Hf Hh]. destruct h as [[hd|]|e].
  - apply prt_pret. split; [exact Hf|]. destruct Hh as [HK1 Hi]. split; [exact HK1|]. intros _. apply Hi. discriminate.
  - apply prt_pbnd, prt_takeerr. destruct (s_take v1) as [io|] eqn:Est.
    + apply prt_pret. split; [exact Hf|]. cbn [ErrPost v_take vfail].
      destruct Hh as [[(_ & _ & _ & Ht) _] _]. unfold s_take, v_err_now in Est. rewrite Ht in Est.
      destruct (vknown v1); [exact Est|discriminate].
    + apply prt_pret. split; [exact Hf|]. split; [exact (proj1 Hh)|]. intros Hn. exfalso. apply Hn. reflexivity.
  - apply prt_pret. split; assumption.
Qed.

Lemma clause_tailr (pre : Z) (ls : list Z) v lr1 v1 :
  K lr1 v1 -> framer v v1 -> vcur v < vcur v1 ->
  prt (let* e := or_unexpected (interactive_end_of_line fuel) in
       match e with Ok _ => tok_ok (pre, ls) | Err er => tok_err er end) lr1 v1 (TokPostR (GsI v) v).
Proof.
  intros HK1 Hf Hlt. apply prt_pbnd.
  eapply prt_conseq; [apply or_unexpected_okr; apply interactive_end_of_line_okr; exact HK1|].
  intros e lr2 v2 [Hf2 He]. pose proof (framer_trans _ _ _ Hf Hf2) as Hf12.
  destruct e as [u4|er]; apply prt_pret; (split; [exact Hf12|]); [|exact He].
  destruct He as [HK2 Hi]. split; [exact HK2|].
  split; [destruct Hf2 as (_ & _ & Hc & _); lia|exact (framer_ItemLk _ _ _ Hf Hi)].
Qed.

Lemma clause_tok_okr k st lr v : K lr v -> prt (clause_tok fuel k st) lr v (TokPostR (GsI v) v).
Proof.
  intros HK.
  assert (Hpre : forall (p : tok Z), prt p lr v (TokPostR (Gs v) v) ->
    prt (let* p := p in
         match p with
         | Res (Ok pre) =>
             let* lb := non_terminating_linebreaks fuel in
             match lb with
             | Err e => tok_err e
             | Ok _ =>
                 let* ls := or_unexpected (clause_lits fuel (lit_limit st)) in
                 match ls with
                 | Err e => tok_err e
                 | Ok ls =>
                     let* e := or_unexpected (interactive_end_of_line fuel) in
                     match e with Ok _ => tok_ok (pre, ls) | Err er => tok_err er end
                 end
             end
         | Res (Err e) => tok_err e
         | Fallthrough => tok_ft
         end) lr v (TokPostR (GsI v) v)).
  { intros p Hp. apply prt_pbnd. eapply prt_conseq; [exact Hp|]. intros r lr1 v1 [Hf Hr].
    destruct r as [[pre|e]|]; [|apply prt_pret; split; assumption..].
    destruct Hr as [HK1 Hlt].
    apply prt_pbnd. eapply prt_conseq; [apply non_terminating_linebreaks_okr; exact HK1|].
    intros lb lr2 v2 [Hf2 Hlb]. pose proof (framer_trans _ _ _ Hf Hf2) as Hf12.
    destruct lb as [b|e]; [|apply prt_pret; split; assumption].
    apply prt_pbnd. eapply prt_conseq; [apply or_unexpected_okr; apply clause_lits_okr; exact Hlb|].
    intros ls lr3 v3 [Hf3 Hls]. pose proof (framer_trans _ _ _ Hf12 Hf3) as Hf13.
    destruct ls as [ls|e]; [|apply prt_pret; split; assumption].
    destruct Hls as [HK3 Hlt3]. apply clause_tailr; [exact HK3|exact Hf13|].
    destruct Hf2 as (_ & _ & Hc & _). lia. }
  unfold clause_tok. destruct k.
  - apply prt_pbnd. eapply prt_conseq; [apply clause_lits_okr; exact HK|]. intros r lr1 v1 [Hf Hr].
    destruct r as [[ls|e]|]; [|apply prt_pret; split; assumption..].
    destruct Hr as [HK1 Hlt]. apply clause_tailr; assumption.
  - apply Hpre. apply uint_count_okr. exact HK.
  - apply Hpre. apply clause_group_okr. exact HK.
Qed.

Definition NextPostR (v : view) (r : result (option (Z * list Z)) perr * pstate) (lr' : lrs) (v' : view) : Prop :=
  framer v v' /\
  match fst r with
  | Ok (Some _) => K lr' v' /\ vcur v < vcur v' /\ ItemLk v v'
  | Ok None => vfail v' = None
  | Err e => ErrPost e v'
  end.

Lemma NextPostR_frame v0 v r lr' v' : framer v0 v -> NextPostR v r lr' v' -> NextPostR v0 r lr' v'.
Proof.
  intros Hf0 [Hf Hr]. split; [eapply framer_trans; eassumption|].
  destruct (fst r) as [[item|]|e]; [|exact Hr..]. destruct Hr as (HK & Hlt & Hi). split; [exact HK|].
  split; [destruct Hf0 as (_ & _ & Hc & _); lia|exact (framer_ItemLk _ _ _ Hf0 Hi)].
Qed.

Lemma next_clause_loop_okr n : forall k st lr v, K lr v -> meas v n ->
  prt (next_clause_loop fuel n k st) lr v (NextPostR v).
Proof.
  induction n as [|n IH]; intros k st lr v HK Hm; [exfalso; unfold meas in Hm; lia|]. cbn [next_clause_loop].
  apply prt_pbnd. apply (prt_conseq _ _ _ (TokPostR (GsI v) v)).
  { destruct (negb (clause_count st =? clause_limit st)%Z || negb (clause_limit_active st));
      [apply clause_tok_okr; exact HK|apply prt_pret; split; [apply framer_refl|exact HK]]. }
  intros c lr1 v1 [Hf Hc]. destruct c as [[item|e]|]; [apply prt_pret; split; assumption..|].
  apply prt_pbnd.
  eapply prt_conseq; [apply (matches_tok_okr _ (fun lr' v' => K lr' v' /\ vcur v1 < vcur v')); apply comment_okr; exact Hc|].
  intros cm lr2 v2 [Hf2 Hcm]. pose proof (framer_trans _ _ _ Hf Hf2) as Hf12. destruct cm as [[|]|e].
  - destruct Hcm as [HK2 Hlt].
    eapply prt_conseq; [apply IH; [exact HK2|eapply (meas_stepr lr2 v v2); [exact Hm|exact Hf12| |exact HK2]]|].
    + destruct Hf as (_ & _ & Hc1 & _). lia.
    + intros a lr3 v3 Ha. eapply NextPostR_frame; eassumption.
  - apply prt_pbnd.
    eapply prt_conseq; [apply (matches_tok_okr _ (fun lr' v' => K lr' v' /\ vcur v2 < vcur v')); apply tnewline_okr'; exact Hcm|].
    intros nl lr3 v3 [Hf3 Hnl]. pose proof (framer_trans _ _ _ Hf12 Hf3) as Hf13. destruct nl as [[|]|e].
    + destruct Hnl as [HK3 Hlt].
      eapply prt_conseq; [apply IH; [exact HK3|eapply (meas_stepr lr3 v v3); [exact Hm|exact Hf13| |exact HK3]]|].
      * destruct Hf12 as (_ & _ & Hc1 & _). lia.
      * intros a lr4 v4 Ha. eapply NextPostR_frame; eassumption.
    + assert (Hun : prt (let* e := unexpected in pret (Err e, st)) lr3 v3 (NextPostR v)).
      { apply prt_pbnd. eapply prt_conseq; [apply unexpected_okr; exact Hnl|]. intros e lr4 v4 [Hf4 He].
        apply prt_pret. split; [eapply framer_trans; eassumption|exact He]. }
      destruct (negb (clause_limit_active st) || (clause_limit st <=? clause_count st)%Z); [|exact Hun].
      apply prt_pbnd.
      eapply prt_conseq; [apply (matches_tok_okr _ (fun lr' v' => K lr' v' /\ vfail v' = None /\ ItemLk v3 v')); apply teof_okr; exact Hnl|].
      intros ef lr4 v4 [Hf4 Hef]. pose proof (framer_trans _ _ _ Hf13 Hf4) as Hf14. destruct ef as [[|]|e].
      * apply prt_pret. split; [exact Hf14|]. destruct Hef as (_ & Hfail & _). exact Hfail.
      * apply prt_pbnd. eapply prt_conseq; [apply unexpected_okr; exact Hef|]. intros e lr5 v5 [Hf5 He].
        apply prt_pret. split; [eapply framer_trans; eassumption|exact He].
      * apply prt_pret. split; assumption.
    + apply prt_pret. split; assumption.
  - apply prt_pret. split; assumption.
Qed.

Lemma next_clause_okr k st lr v : K lr v -> prt (next_clause fuel k st) lr v (NextPostR v).
Proof.
  intros HK. unfold next_clause. apply prt_pbnd. eapply prt_conseq; [apply skip_whitespace_okr; exact HK|].
  intros _ lr1 v1 (-> & HK1 & Hf1).
  eapply prt_conseq; [apply next_clause_loop_okr; [exact HK1|eapply meas_init; exact HK1]|].
  intros a lr2 v2 Ha. eapply NextPostR_frame; eassumption.
Qed.

End LookParsers.

(* ================================================================== *)
(* L1: the parser-level theorems, for every admissible run from any state satisfying K *)

(* Parser::new.  Whatever the outcome, what the run asked for lies in the line of the new cursor (Lk); when a
   header line has been read (phdr st <> None), nothing beyond its line break (LF, or CR LF: both consumed) has
   been asked for -- or the header line is the unterminated last line of the input and the one request beyond
   the end is the one that discovered the end (ItemLk). *)
Theorem parser_new_lookahead fuel k maxd ignore_header lr v r :
  K fuel lr v -> aruns (parser_new fuel k maxd ignore_header lr) v r ->
  exists res lr' v', r = ADone (res, lr') v' /\ vS v' = vS v /\ vcur v <= vcur v' /\ Lk v v' /\
    match res with
    | Ok st => K fuel lr' v' /\ (phdr st <> None -> ItemLk v v')
    | Err _ => True
    end.
Proof.
  intros HK Hr. destruct (prt_elim _ _ _ _ _ (parser_new_okr fuel k maxd ignore_header lr v HK) Hr) as (res & lr' & v' & -> & Hf & Hres).
  exists res, lr', v'. split; [reflexivity|]. destruct Hf as (a1 & _ & a3 & a4).
  split; [exact a1|]. split; [exact a3|]. split; [exact a4|]. destruct res as [st|e]; [exact Hres|exact I].
Qed.
Print Assumptions parser_new_lookahead.

(* Parser::next_clause, one call = one item. *)
Theorem next_clause_lookahead fuel k st lr v r :
  K fuel lr v -> aruns (next_clause fuel k st lr) v r ->
  exists res st' lr' v', r = ADone ((res, st'), lr') v' /\ vS v' = vS v /\ vcur v <= vcur v' /\ Lk v v' /\
    match res with
    | Ok (Some _) => K fuel lr' v' /\ vcur v < vcur v' /\ ItemLk v v'
    | _ => True
    end.
Proof.
  intros HK Hr. destruct (prt_elim _ _ _ _ _ (next_clause_okr fuel k st lr v HK) Hr) as ([res st'] & lr' & v' & -> & Hf & Hres).
  exists res, st', lr', v'. split; [reflexivity|]. destruct Hf as (a1 & _ & a3 & a4).
  split; [exact a1|]. split; [exact a3|]. split; [exact a4|]. cbn [fst] in Hres. destruct res as [[item|]|e]; [exact Hres|exact I|exact I].
Qed.
Print Assumptions next_clause_lookahead.

(* the same, spelled out: after an item the highest offset ever asked for is at most the old one or the new cursor,
   which stands just behind an LF; or the input ended in the item's line *)
Corollary next_clause_lookahead_explicit fuel k st lr v item st' lr' v' :
  K fuel lr v -> aruns (next_clause fuel k st lr) v (ADone ((Ok (Some item), st'), lr') v') ->
  (nnth (vS v') (vcur v' - 1) = Some 10 /\ vcur v < vcur v' /\ vreq v' <= N.max (vreq v) (vcur v')) \/
  (vcur v' = nlen (vS v') /\ vreq v' <= N.max (vreq v) (nlen (vS v') + 1)).
Proof.
  intros HK Hr. destruct (next_clause_lookahead fuel k st lr v _ HK Hr) as (res & st2 & lr2 & v2 & E & HS & _ & _ & Hres).
  inversion E; subst. destruct Hres as (_ & _ & [(b1 & b2 & b3)|(b1 & b2)]); rewrite HS.
  - left. split; [exact b2|]. split; [exact b1|exact b3].
  - right. split; assumption.
Qed.

Corollary parser_new_lookahead_explicit fuel k maxd ignore_header lr v st lr' v' :
  K fuel lr v -> aruns (parser_new fuel k maxd ignore_header lr) v (ADone (Ok st, lr') v') -> phdr st <> None ->
  (nnth (vS v') (vcur v' - 1) = Some 10 /\ vcur v < vcur v' /\ vreq v' <= N.max (vreq v) (vcur v')) \/
  (vcur v' = nlen (vS v') /\ vreq v' <= N.max (vreq v) (nlen (vS v') + 1)).
Proof.
  intros HK Hr Hh. destruct (parser_new_lookahead fuel k maxd ignore_header lr v _ HK Hr) as (res & lr2 & v2 & E & HS & _ & _ & Hres).
  inversion E; subst. destruct Hres as (_ & Hi). destruct (Hi Hh) as [(b1 & b2 & b3)|(b1 & b2)]; rewrite HS.
  - left. split; [exact b2|]. split; [exact b1|exact b3].
  - right. split; assumption.
Qed.

(* from the start of the input: the header is handed out with nothing asked for beyond its line *)
Corollary parser_new_lookahead_init fuel k maxd ignore_header S fail st lr' v' :
  Forall (fun b => b < 256) S -> nlen S < 2 ^ 62 -> (length S < fuel)%nat ->
  aruns (parser_new fuel k maxd ignore_header lrs_init) (view_init S fail) (ADone (Ok st, lr') v') -> phdr st <> None ->
  (nnth S (vcur v' - 1) = Some 10 /\ 0 < vcur v' /\ vreq v' <= vcur v') \/ (vcur v' = nlen S /\ vreq v' <= nlen S + 1).
Proof.
  intros Hb Hl Hf Hr Hh. pose proof (K_init fuel S fail Hb Hl Hf) as HK.
  destruct (parser_new_lookahead fuel k maxd ignore_header _ _ _ HK Hr) as (res & lr2 & v2 & E & HS & _ & _ & Hres).
  inversion E; subst. cbn [view_init vS] in HS.
  destruct (parser_new_lookahead_explicit fuel k maxd ignore_header _ _ _ _ _ HK Hr Hh) as [(b1 & b2 & b3)|(b1 & b2)];
    rewrite HS in *; cbn [view_init vcur vreq] in *.
  - left. split; [exact b1|]. split; [exact b2|unfold bytes, byte in *; lia].
  - right. split; [exact b1|unfold bytes, byte in *; lia].
Qed.
Print Assumptions parser_new_lookahead_init.

(* ================================================================== *)
(* L2: the concrete reader.  A source that hands out its data line by line; the reader calls the source only inside
   a Peek whose offset is not buffered yet; hence, with the bound of L1, when the item is returned nothing beyond
   the line that completes it has been read (the reader's buffer is empty). *)

(* the bytes of one read: a line break, if any, only as the last byte *)
Definition lf_last (bs : bytes) : Prop := forall i, i + 1 < nlen bs -> nnth bs i <> Some 10.

(* a schedule that hands out the data line by line: each chunk of bytes that becomes ready at once contains a
   line break at most as its last byte (a line may arrive in several pieces; interrupted calls are allowed; after
   the schedule is used up what is left is at most one line) *)
Fixpoint line_sched (evs : list revent) (d : bytes) : Prop :=
  match evs with
  | [] => lf_last d
  | Deliver n :: ev => lf_last (nfirstn n d) /\ line_sched ev (nskipn n d)
  | Interrupt :: ev => line_sched ev d
  | Eof :: _ => True
  | FailE _ :: _ => True
  | Lie _ :: _ => False
  end.

Definition LineSrc (sr : source) : Prop := prebuf sr = [] /\ line_sched (events sr) (data sr).

Lemma nnth_nfirstn {A} (l : list A) k i : i < k -> nnth (nfirstn k l) i = nnth l i.
Proof. intros H. unfold nnth, nfirstn. apply nth_error_firstn. lia. Qed.

Lemma nnth_app_r {A} (a b : list A) i : nlen a <= i -> nnth (a ++ b) i = nnth b (i - nlen a).
Proof. intros H. unfold nnth, nlen in *. rewrite nth_error_app2 by lia. f_equal. lia. Qed.

Lemma lf_last_firstn (l : bytes) k n : k <= n -> lf_last (nfirstn n l) -> lf_last (nfirstn k l).
Proof.
  intros Hk H i Hi. rewrite nlen_nfirstn in Hi. rewrite nnth_nfirstn by lia.
  rewrite <- (nnth_nfirstn l n i) by lia. apply H. rewrite nlen_nfirstn. lia.
Qed.

Lemma lf_last_prefix (l : bytes) k : lf_last l -> lf_last (nfirstn k l).
Proof.
  intros H i Hi. rewrite nlen_nfirstn in Hi. rewrite nnth_nfirstn by lia. apply H. lia.
Qed.

Lemma lf_last_suffix (l : bytes) k : lf_last l -> lf_last (nskipn k l).
Proof.
  intros H i Hi. rewrite nlen_nskipn in Hi. rewrite nnth_nskipn. apply H. lia.
Qed.

Lemma lf_last_carry (d : bytes) k n : k <= n -> lf_last (nfirstn n d) -> lf_last (nfirstn (n - k) (nskipn k d)).
Proof.
  intros Hk H i Hi. rewrite nlen_nfirstn, nlen_nskipn in Hi. rewrite nnth_nfirstn by lia. rewrite nnth_nskipn.
  rewrite <- (nnth_nfirstn d n (k + i)) by lia. apply H. rewrite nlen_nfirstn. lia.
Qed.

Lemma lf_last_nil : lf_last [].
Proof. intros i Hi. change (nlen (@nil byte)) with 0 in Hi. lia. Qed.

(* one read of a line source: at most one line, and the rest is a line source again *)
Lemma src_read_inner_line d evs room res sr :
  1 <= room -> line_sched evs d -> src_read_inner d evs room = (res, sr) ->
  match res with
  | ROk bs cl => lf_last bs /\ (cl <> 0 -> LineSrc sr)
  | RErr _ => True
  end.
Proof.
  intros Hroom HL. destruct evs as [|[n| |e| |n] ev]; cbn [src_read_inner line_sched] in *; intros H.
  - inversion H; subst; clear H. split; [apply lf_last_prefix; exact HL|]. intros _.
    split; [reflexivity|]. cbn [events data line_sched]. apply lf_last_suffix. exact HL.
  - destruct HL as [HL1 HL2]. set (k := N.min (N.min n room) (nlen d)) in *.
    assert (Hkn : k <= n) by lia.
    destruct ((0 <? k) && (k <? n)) eqn:Hc; inversion H; subst; clear H.
    + split; [eapply lf_last_firstn; eassumption|]. intros _. split; [reflexivity|]. cbn [events data line_sched].
      split; [apply lf_last_carry; assumption|]. rewrite nskipn_nskipn. replace (n - k + k) with n by lia. exact HL2.
    + split; [eapply lf_last_firstn; eassumption|]. intros Hk0. split; [reflexivity|]. cbn [events data].
      apply andb_false_iff in Hc. assert (k = n) as -> by (destruct Hc as [Hc|Hc]; apply N.ltb_ge in Hc; lia).
      exact HL2.
  - inversion H; subst; clear H. split; [apply lf_last_nil|]. intros Hc. exfalso. apply Hc. reflexivity.
  - inversion H; subst; clear H. exact I.
  - inversion H; subst; clear H. split; [apply lf_last_nil|]. intros Hc. exfalso. apply Hc. reflexivity.
  - contradiction.
Qed.

Lemma read_retry_inner_line evs : forall d room calls res sr calls',
  1 <= room -> line_sched evs d -> read_retry_inner evs d room calls = (res, sr, calls') ->
  match res with
  | ROk bs cl => lf_last bs /\ (cl <> 0 -> LineSrc sr)
  | RErr _ => True
  end.
Proof.
  induction evs as [|e ev IH]; intros d room calls res sr calls' Hroom HL H.
  - cbn [read_retry_inner] in H. apply (f_equal fst) in H; cbn [fst] in H.
    eapply src_read_inner_line; eauto.
  - destruct e; cbn [read_retry_inner] in H;
      try (apply (f_equal fst) in H; cbn [fst] in H; eapply src_read_inner_line; eauto; fail).
    cbn [line_sched] in HL. eapply IH; eauto.
Qed.

Lemma read_retry_line sr room calls res sr' calls' :
  1 <= room -> LineSrc sr -> read_retry sr room calls = (res, sr', calls') ->
  match res with
  | ROk bs cl => lf_last bs /\ (cl <> 0 -> LineSrc sr')
  | RErr _ => True
  end.
Proof.
  intros Hroom [Hp HL] H. unfold read_retry in H. rewrite Hp in H. change (nlen (@nil byte)) with 0 in H.
  change (0 <? 0) with false in H. cbv iota in H. eapply read_retry_inner_line; eauto.
Qed.

(* the invariant: while the reader is not complete its source is a line source, and what has been delivered does not
   extend beyond the line of the last byte that has been asked for (R = vreq of the view) *)
Definition Jr (R : N) (s : rstate) : Prop :=
  (complete s = false -> LineSrc (src s)) /\ nolf (g_delivered s) (R - 1) (nlen (g_delivered s) - 1).

Lemma Jr_mono R R' s : R <= R' -> Jr R s -> Jr R' s.
Proof. intros H [H1 H2]. split; [exact H1|]. eapply nolf_weaken; [exact H2|lia|lia]. Qed.

Lemma nolf_app_line (D bs : bytes) R : nlen D < R -> lf_last bs -> nolf (D ++ bs) (R - 1) (nlen (D ++ bs) - 1).
Proof.
  intros HR Hbs i Hi1 Hi2. rewrite nlen_app in Hi2. rewrite nnth_app_r by lia. apply Hbs. lia.
Qed.

(* a refill issued while the byte asked for (offset R - 1) has not been delivered yet *)
Lemma Jr_request_more s R :
  Inv s -> 1 <= chunk_size s -> Jr R s -> nlen (g_delivered s) < R -> Jr R (rm_state (request_more s)).
Proof.
  intros HI HC [HJ1 HJ2] HR. unfold request_more. destruct (complete s) eqn:Hc; [split; [intros Hx; cbn [rm_state] in Hx; congruence|exact HJ2]|].
  pose proof (inv_range s HI) as Hr. apply N.leb_le in Hr. rewrite Hr, andb_false_r.
  unfold finish_read. change (src (prep s)) with (src s). change (chunk_size (prep s)) with (chunk_size s).
  change (g_calls (prep s)) with (g_calls s).
  destruct (read_retry (src s) (chunk_size s) (g_calls s)) as [[r sr] c] eqn:Hrr.
  pose proof (read_retry_line _ _ _ _ _ _ HC (HJ1 eq_refl) Hrr) as Hl.
  destruct r as [bs cl|e]; cbn [rm_state].
  - destruct Hl as [Hl1 Hl2]. destruct (cl =? 0) eqn:Hz; [|destruct (chunk_size s <? cl)]; unfold Jr;
      cbn [after_read complete src g_delivered prep with_layout].
    + split; [discriminate|apply nolf_app_line; assumption].
    + apply N.eqb_neq in Hz. split; [intros _; apply Hl2; exact Hz|exact HJ2].
    + apply N.eqb_neq in Hz. split; [intros _; apply Hl2; exact Hz|apply nolf_app_line; assumption].
  - unfold Jr; cbn [after_read complete src g_delivered prep with_layout]. split; [discriminate|exact HJ2].
Qed.

Lemma Jr_fill_until fuel : forall need s R,
  Inv s -> 1 <= chunk_size s -> Jr R s -> g_consumed s + need <= R -> Jr R (loop_state (fill_until fuel need s)).
Proof.
  induction fuel as [|f IH]; intros need s R HI HC HJ HR; cbn [fill_until].
  - destruct (need <=? valid_len s); exact HJ.
  - destruct (need <=? valid_len s) eqn:Hn; [exact HJ|]. apply N.leb_gt in Hn.
    pose proof (inv_count s HI) as Hcnt.
    assert (HJ' : Jr R (rm_state (request_more s))) by (apply Jr_request_more; [exact HI|exact HC|exact HJ|lia]).
    pose proof (Inv_request_more s HI) as HI'.
    pose proof (ReaderProofs.frame_request_more s) as (_ & Hf2 & _ & Hf4).
    destruct (request_more s) as [[|] s'|k s']; cbn [rm_state] in *; cbn [loop_state]; try exact HJ'.
    apply IH; [exact HI'|lia|exact HJ'|lia].
Qed.

Lemma Jr_peek s k R :
  Inv s -> 1 <= chunk_size s -> Jr R s -> g_consumed s + k + 1 <= R -> Jr R (fst (peek s k)).
Proof.
  intros HI HC HJ HR. unfold peek. destruct (k <? valid_len s); [destruct (nnth _ _); exact HJ|].
  pose proof (Jr_fill_until (loop_fuel s) (k + 1) s R HI HC HJ) as H.
  destruct (fill_until (loop_fuel s) (k + 1) s) as [s'|p s'|s']; cbn [loop_state] in H; cbn [fst].
  - destruct (k <? valid_len s'); [destruct (nnth _ _)|]; cbn [fst]; apply H; lia.
  - apply H; lia.
  - apply H; lia.
Qed.

(* ---------- the simulation carries an invariant of (reader state, view) ---------- *)
(* (the structure of Simulation.simulation, with one more component in the relation) *)
Section SimInv.
Variable P : rstate -> view -> Prop.
(* a peek establishes P again *)
Hypothesis P_peek : forall s v k s',
  Rel s v -> P s v -> peek s k = (s', VOptByte (vpeek v k)) -> P s' (after_peek v k).
(* the other operations touch neither the source, the completeness flag, the delivered data nor vreq *)
Hypothesis P_same : forall s v s' v',
  P s v -> src s' = src s -> complete s' = complete s -> g_delivered s' = g_delivered s -> vreq v' = vreq v -> P s' v'.

Definition refinesP {A} (c : cres A) (r : ares A) : Prop :=
  match r with
  | AStuck => True
  | ADone a v' => exists s', c = CDone a s' /\ Rel s' v' /\ P s' v'
  | APanic k => exists s', c = CPanic k s'
  | AFuel => c = CFuel
  end.

Theorem simulation_inv {A} (p : prog A) : forall s v, Rel s v -> P s v -> exists r, aruns p v r /\ refinesP (crun p s) r.
Proof.
  induction p as [a|k c IH|n c IH|off c IH|c IH|c IH|c IH|c IH|c IH|c IH|k|]; intros s v HR HP; cbn [crun].
  - (* Ret *) exists (ADone a v). split; [constructor|]. exists s. split; [reflexivity|split; assumption].
  - (* Peek *)
    destruct (Rel_peek s v k HR) as (s' & Hp & HR'). rewrite Hp.
    destruct (IH (vpeek v k) s' (after_peek v k) HR' (P_peek _ _ _ _ HR HP Hp)) as (r & Hr & Href).
    exists r. split; [constructor; exact Hr|exact Href].
  - (* Advance *)
    destruct (N.le_gt_cases (vcur v + n) (vhwm v)) as [Hle|Hgt].
    + pose proof HR as [[HI HPo HN HC HS HF Hcur Hm Hh] Hk].
      assert (Hn : n <= valid_len s) by lia.
      unfold advance. assert ((valid_len s <? n) = false) as -> by (apply N.ltb_ge; exact Hn).
      set (s' := upd_adv s (valid_len s - n) (pos_in_buf s + n) (g_consumed s + n)).
      assert (HR' : Rel s' (v_advance v n)).
      { pose proof (Inv_advance s n HI) as HI'. unfold advance in HI'.
        assert ((valid_len s <? n) = false) as E by (apply N.ltb_ge; exact Hn). rewrite E in HI'. cbn [fst] in HI'.
        split; [|exact Hk].
        constructor; cbn [s' upd_adv v_advance src chunk_size g_delivered g_terminal io_error g_consumed g_mark valid_len
          vS vfail vcur vmark vtaken vknown vhwm]; auto; lia. }
      assert (HP' : P s' (v_advance v n)) by (apply (P_same s v); [exact HP|reflexivity..]).
      destruct (IH s' (v_advance v n) HR' HP') as (r & Hr & Href).
      exists r. split; [apply ar_adv; assumption|exact Href].
    + exists AStuck. split; [apply ar_adv_stuck; exact Hgt|exact I].
  - (* TryLoad8 *)
    pose proof HR as [[HI HPo HN HC HS HF Hcur Hm Hh] Hk].
    destruct (off + 8 <=? valid_len s) eqn:Hn.
    + apply N.leb_le in Hn.
      rewrite (Rel_load8 s v off (proj1 HR) Hn).
      set (o := Some (le_value (window (vS v) (vcur v + off) 8))).
      assert (Hok : tryload_ok v off o).
      { unfold tryload_ok, o, word_at. split; [|reflexivity].
        rewrite HS, nlen_app, Hcur. pose proof (inv_count s HI). lia. }
      assert (HR' : Rel s (v_loaded v off o)).
      { split; [|exact Hk]. constructor; cbn [v_loaded o vS vfail vcur vmark vtaken vknown vhwm]; auto. lia. }
      assert (HP' : P s (v_loaded v off o)) by (apply (P_same s v); [exact HP|reflexivity..]).
      destruct (IH o s (v_loaded v off o) HR' HP') as (r & Hr & Href).
      exists r. split; [eapply ar_tryload; eassumption|exact Href].
    + apply N.leb_gt in Hn.
      assert (Hok : tryload_ok v off None) by (unfold tryload_ok; lia).
      assert (HR' : Rel s (v_loaded v off None)).
      { split; [|exact Hk]. constructor; cbn [v_loaded vS vfail vcur vmark vtaken vknown vhwm]; auto. }
      assert (HP' : P s (v_loaded v off None)) by (apply (P_same s v); [exact HP|reflexivity..]).
      destruct (IH None s (v_loaded v off None) HR' HP') as (r & Hr & Href).
      exists r. split; [eapply ar_tryload; eassumption|exact Href].
  - (* IsAtEnd *)
    pose proof HR as [[HI HPo HN HC HS HF Hcur Hm Hh] Hk].
    assert (Heq : is_at_end s = s_atend v).
    { unfold is_at_end, s_atend. rewrite (inv_compl s HI), Hk. pose proof (inv_count s HI) as Hc.
      destruct (g_terminal s) eqn:Ht; [|reflexivity]. cbn [andb]. rewrite HS, app_nil_r, Hcur.
      destruct (valid_len s =? 0) eqn:E1; destruct (nlen (g_delivered s) <=? g_consumed s) eqn:E2; try reflexivity.
      - apply N.eqb_eq in E1. apply N.leb_gt in E2. lia.
      - apply N.eqb_neq in E1. apply N.leb_le in E2. lia. }
    rewrite Heq. destruct (IH (s_atend v) s v HR HP) as (r & Hr & Href).
    exists r. split; [constructor; exact Hr|exact Href].
  - (* ErrParked *)
    pose proof HR as [[HI HPo HN HC HS HF Hcur Hm Hh] Hk].
    assert (Heq : match io_error s with Some _ => true | None => false end = s_parked v).
    { unfold s_parked, v_err_now. rewrite Hk. destruct (g_terminal s) eqn:Ht.
      - rewrite HF. reflexivity.
      - destruct HF as (_ & HF2 & _). rewrite HF2. reflexivity. }
    rewrite Heq. destruct (IH (s_parked v) s v HR HP) as (r & Hr & Href).
    exists r. split; [constructor; exact Hr|exact Href].
  - (* TakeErr *)
    pose proof HR as [[HI HPo HN HC HS HF Hcur Hm Hh] Hk].
    assert (Heq : io_error s = s_take v).
    { unfold s_take, v_err_now. rewrite Hk. destruct (g_terminal s) eqn:Ht.
      - exact HF.
      - destruct HF as (_ & HF2 & _). exact HF2. }
    assert (HR' : Rel (clear_io_error s) (v_take v (s_take v))).
    { split; [|exact Hk].
      constructor; cbn [clear_io_error v_take src chunk_size g_delivered g_terminal io_error g_consumed g_mark valid_len
        vS vfail vcur vmark vtaken vknown vhwm]; auto.
      - destruct HI as [a1 a2 a3 a4 a5 a6 a7 a8]. constructor; auto; try (cbn [clear_io_error io_error]; congruence).
      - rewrite <- Heq. destruct (g_terminal s) eqn:Ht.
        + destruct (io_error s) as [e|] eqn:He; [reflexivity|]. exact HF.
        + destruct HF as (HF1 & HF2 & HF3). rewrite HF2. auto. }
    assert (HP' : P (clear_io_error s) (v_take v (s_take v))) by (apply (P_same s v); [exact HP|reflexivity..]).
    rewrite Heq. destruct (IH (s_take v) (clear_io_error s) (v_take v (s_take v)) HR' HP') as (r & Hr & Href).
    exists r. split; [constructor; exact Hr|exact Href].
  - (* SetMark *)
    pose proof HR as [[HI HPo HN HC HS HF Hcur Hm Hh] Hk].
    assert (HR' : Rel (set_mark_in_buf s (pos_in_buf s) (g_consumed s)) (v_setmark v)).
    { split; [|exact Hk].
      constructor; cbn [set_mark_in_buf v_setmark src chunk_size g_delivered g_terminal io_error g_consumed g_mark valid_len
        vS vfail vcur vmark vtaken vknown vhwm]; auto; try (apply Inv_set_mark; exact HI). }
    assert (HP' : P (set_mark_in_buf s (pos_in_buf s) (g_consumed s)) (v_setmark v)) by (apply (P_same s v); [exact HP|reflexivity..]).
    destruct (IH _ _ HR' HP') as (r & Hr & Href).
    exists r. split; [constructor; exact Hr|exact Href].
  - (* GetMark *)
    pose proof HR as [[HI HPo HN HC HS HF Hcur Hm Hh] Hk].
    rewrite (inv_mark s HI), <- Hm.
    destruct (IH (vmark v mod W64) s v HR HP) as (r & Hr & Href).
    exists r. split; [constructor; exact Hr|exact Href].
  - (* GetPos *)
    pose proof HR as [[HI HPo HN HC HS HF Hcur Hm Hh] Hk].
    rewrite (inv_pos s HI), <- Hcur.
    destruct (IH (vcur v mod W64) s v HR HP) as (r & Hr & Href).
    exists r. split; [constructor; exact Hr|exact Href].
  - (* Crash *) exists (APanic k). split; [constructor|]. exists s. reflexivity.
  - (* NoFuel *) exists AFuel. split; [constructor|reflexivity].
Qed.
End SimInv.

(* ---------- the invariant of a parse over a line source ---------- *)
Definition LineJ (s : rstate) (v : view) : Prop := Jr (vreq v) s.

Lemma LineJ_peek s v k s' :
  Rel s v -> LineJ s v -> peek s k = (s', VOptByte (vpeek v k)) -> LineJ s' (after_peek v k).
Proof.
  intros [HR _] HJ Hp. unfold LineJ. cbn [after_peek vreq].
  replace s' with (fst (peek s k)) by (rewrite Hp; reflexivity).
  apply Jr_peek; [exact (r_inv _ _ HR)|exact (r_chunk _ _ HR)|eapply Jr_mono; [|exact HJ]; lia|rewrite (r_cur _ _ HR); lia].
Qed.

Lemma LineJ_same s v s' v' :
  LineJ s v -> src s' = src s -> complete s' = complete s -> g_delivered s' = g_delivered s -> vreq v' = vreq v -> LineJ s' v'.
Proof. unfold LineJ, Jr. intros [H1 H2] E1 E2 E3 E4. rewrite E1, E2, E3, E4. split; assumption. Qed.

(* what has been asked for beyond the cursor lies in the cursor's line *)
Definition Near (v : view) : Prop := exists e, vreq v <= e + 1 /\ nolf (vS v) (vcur v) e /\ e <= nlen (vS v).

Lemma Near_init S fail : Near (view_init S fail).
Proof. exists 0. cbn [view_init vreq vS vcur]. split; [lia|]. split; [apply nolf_empty; lia|lia]. Qed.

Lemma Near_Lk v v' : vS v' = vS v -> vcur v <= vcur v' -> Near v -> Lk v v' -> Near v'.
Proof.
  intros HS Hc (e1 & a1 & a2 & a3) (e2 & b1 & b2 & b3). exists (N.max e1 e2). rewrite HS.
  split; [lia|]. split; [|lia].
  intros i Hi1 Hi2. destruct (N.lt_ge_cases i e1) as [Hlt|Hge]; [apply a2; lia|apply b2; lia].
Qed.

(* after an item nothing at all has been asked for beyond the cursor (or the input has ended) *)
Lemma Near_ItemLk v v' : Near v -> ItemLk v v' ->
  (vreq v' <= vcur v' /\ nnth (vS v) (vcur v' - 1) = Some 10 /\ 0 < vcur v') \/ vcur v' = nlen (vS v).
Proof.
  intros (e & a1 & a2 & a3) [(b1 & b2 & b3)|(b1 & b2)]; [left|right; exact b1].
  split; [|split; [exact b2|lia]].
  destruct (N.lt_ge_cases (vcur v' - 1) e) as [Hlt|Hge]; [|lia].
  exfalso. apply (a2 (vcur v' - 1)); [lia|exact Hlt|exact b2].
Qed.

(* ... hence, over a line source, the reader holds no byte beyond the item's last line *)
Lemma item_buffer_empty s' v v' :
  Rel s' v' -> LineJ s' v' -> vS v' = vS v -> Near v -> ItemLk v v' -> valid_len s' = 0.
Proof.
  intros [HR _] [_ HJ] HS HN HI.
  pose proof (inv_count s' (r_inv _ _ HR)) as Hcnt. pose proof (r_cur _ _ HR) as Hcur. pose proof (r_S _ _ HR) as HSd.
  assert (HlenS : nlen (g_delivered s') <= nlen (vS v')) by (rewrite HSd, nlen_app; lia).
  destruct (Near_ItemLk v v' HN HI) as [(c1 & c2 & c3)|c1]; [|rewrite HS in HlenS; lia].
  destruct (N.eq_dec (valid_len s') 0) as [E|E]; [exact E|]. exfalso.
  apply (HJ (vcur v' - 1)); [lia|lia|].
  rewrite <- c2, <- HS, HSd. symmetry. apply nnth_app_l. lia.
Qed.

(* the state between two calls of the parser *)
Definition Session (fuel : nat) (lr : lrs) (s : rstate) (v : view) : Prop :=
  Rel s v /\ K fuel lr v /\ LineJ s v /\ Near v.

Lemma Session_init fuel (sr : source) (c : N) :
  NoLie (events sr) -> LineSrc sr -> 1 <= c ->
  Forall (fun b => b < 256) (fst (stream_of sr)) -> nlen (fst (stream_of sr)) < 2 ^ 62 -> (length (fst (stream_of sr)) < fuel)%nat ->
  Session fuel lrs_init (set_chunk (reader_init sr) c) (view_init (fst (stream_of sr)) (snd (stream_of sr))).
Proof.
  intros HN HL Hc Hb Hl Hf. split; [apply Rel_init; assumption|]. split; [apply K_init; assumption|].
  split; [|apply Near_init].
  split; [intros _; exact HL|]. cbn [set_chunk reader_init g_delivered]. intros i _ Hi. change (nlen (@nil byte)) with 0 in Hi. lia.
Qed.

(* L2 for Parser::new: every concrete run over a line source that returns a parser state is an admissible abstract run
   with the bounds of L1; the session invariant holds again; and if a header line was read, the reader holds no byte
   beyond it: everything the source has delivered has been consumed -- no read was issued after the read that delivered
   the end of the header line *)
Theorem parser_new_line_by_line fuel k maxd ignore_header lr s v st lr' s' :
  Session fuel lr s v -> crun (parser_new fuel k maxd ignore_header lr) s = CDone (Ok st, lr') s' ->
  exists v', aruns (parser_new fuel k maxd ignore_header lr) v (ADone (Ok st, lr') v') /\
             Session fuel lr' s' v' /\ framer v v' /\
             (phdr st <> None -> ItemLk v v' /\ valid_len s' = 0 /\ nlen (g_delivered s') = vcur v').
Proof.
  intros (HR & HK & HJ & HN) Hc.
  destruct (simulation_inv LineJ LineJ_peek LineJ_same (parser_new fuel k maxd ignore_header lr) s v HR HJ) as (r & Hr & Href).
  destruct (prt_elim _ _ _ _ _ (parser_new_okr fuel k maxd ignore_header lr v HK) Hr) as (res & lr2 & v' & -> & Hf & Hres).
  destruct Href as (s2 & Hc2 & HR' & HJ'). rewrite Hc in Hc2. inversion Hc2; subst res lr2 s2.
  exists v'. split; [exact Hr|]. destruct Hres as [HK' Hi]. pose proof Hf as (a1 & _ & a3 & a4).
  split; [split; [exact HR'|split; [exact HK'|split; [exact HJ'|eapply Near_Lk; eassumption]]]|]. split; [exact Hf|].
  intros Hh. specialize (Hi Hh). split; [exact Hi|].
  pose proof (item_buffer_empty s' v v' HR' HJ' a1 HN Hi) as Hv. split; [exact Hv|].
  destruct HR' as [HR0 _]. pose proof (inv_count s' (r_inv _ _ HR0)). rewrite (r_cur _ _ HR0). lia.
Qed.
Print Assumptions parser_new_line_by_line.

(* L2 for Parser::next_clause *)
Theorem next_clause_line_by_line fuel k st lr s v item st' lr' s' :
  Session fuel lr s v -> crun (next_clause fuel k st lr) s = CDone ((Ok (Some item), st'), lr') s' ->
  exists v', aruns (next_clause fuel k st lr) v (ADone ((Ok (Some item), st'), lr') v') /\
             Session fuel lr' s' v' /\ framer v v' /\ ItemLk v v' /\
             valid_len s' = 0 /\ nlen (g_delivered s') = vcur v'.
Proof.
  intros (HR & HK & HJ & HN) Hc.
  destruct (simulation_inv LineJ LineJ_peek LineJ_same (next_clause fuel k st lr) s v HR HJ) as (r & Hr & Href).
  destruct (prt_elim _ _ _ _ _ (next_clause_okr fuel k st lr v HK) Hr) as ([res st2] & lr2 & v' & -> & Hf & Hres).
  destruct Href as (s2 & Hc2 & HR' & HJ'). rewrite Hc in Hc2. inversion Hc2; subst res st2 lr2 s2.
  exists v'. split; [exact Hr|]. cbn [fst] in Hres. destruct Hres as (HK' & _ & Hi). pose proof Hf as (a1 & _ & a3 & a4).
  split; [split; [exact HR'|split; [exact HK'|split; [exact HJ'|eapply Near_Lk; eassumption]]]|]. split; [exact Hf|].
  split; [exact Hi|].
  pose proof (item_buffer_empty s' v v' HR' HJ' a1 HN Hi) as Hv. split; [exact Hv|].
  destruct HR' as [HR0 _]. pose proof (inv_count s' (r_inv _ _ HR0)). rewrite (r_cur _ _ HR0). lia.
Qed.
Print Assumptions next_clause_line_by_line.

(* ---------- any honest source: no read once the item's line has been delivered ---------- *)
(* The reader calls the source only inside a Peek whose offset is not buffered.  Hence, whatever the source and the
   chunk size: if everything the run asks for (vreq of the final view -- by L1 at most the old vreq or the cursor
   behind the item's line break) had already been delivered when the call began, the call does not touch the source. *)
Section NoRead.
Variables (D0 : bytes) (src0 : source).

Definition PQ (s : rstate) (v : view) : Prop := vreq v <= nlen D0 -> g_delivered s = D0 /\ src s = src0.

Lemma PQ_peek s v k s' : Rel s v -> PQ s v -> peek s k = (s', VOptByte (vpeek v k)) -> PQ s' (after_peek v k).
Proof.
  intros [HR _] HP Hp Hle. cbn [after_peek vreq] in Hle. destruct (HP ltac:(lia)) as [E1 E2].
  pose proof (r_inv _ _ HR) as HI. pose proof (inv_count s HI) as Hcnt. pose proof (r_cur _ _ HR) as Hcur.
  assert (Hk : k < valid_len s) by (rewrite E1 in Hcnt; lia).
  pose proof (proj2 (satisfied_no_call s) k Hk HI) as Hs. cbn [step] in Hs. rewrite Hp in Hs. cbn [fst] in Hs. subst s'.
  split; assumption.
Qed.

Lemma PQ_same s v s' v' :
  PQ s v -> src s' = src s -> complete s' = complete s -> g_delivered s' = g_delivered s -> vreq v' = vreq v -> PQ s' v'.
Proof. unfold PQ. intros H E1 _ E3 E4. rewrite E1, E3, E4. exact H. Qed.
End NoRead.

Theorem next_clause_no_read_when_delivered fuel k st lr s v item st' lr' s' :
  Rel s v -> K fuel lr v -> crun (next_clause fuel k st lr) s = CDone ((Ok (Some item), st'), lr') s' ->
  exists v', aruns (next_clause fuel k st lr) v (ADone ((Ok (Some item), st'), lr') v') /\ Rel s' v' /\ K fuel lr' v' /\
             ItemLk v v' /\
             (vreq v' <= nlen (g_delivered s) -> g_delivered s' = g_delivered s /\ src s' = src s).
Proof.
  intros HR HK Hc.
  destruct (simulation_inv (PQ (g_delivered s) (src s)) (PQ_peek _ _) (PQ_same _ _) (next_clause fuel k st lr) s v HR) as (r & Hr & Href);
    [intros _; split; reflexivity|].
  destruct (prt_elim _ _ _ _ _ (next_clause_okr fuel k st lr v HK) Hr) as ([res st2] & lr2 & v' & -> & Hf & Hres).
  destruct Href as (s2 & Hc2 & HR' & HP'). rewrite Hc in Hc2. inversion Hc2; subst res st2 lr2 s2.
  exists v'. split; [exact Hr|]. cbn [fst] in Hres. destruct Hres as (HK' & _ & Hi).
  split; [exact HR'|]. split; [exact HK'|]. split; [exact Hi|exact HP'].
Qed.
Print Assumptions next_clause_no_read_when_delivered.

Theorem parser_new_no_read_when_delivered fuel k maxd ignore_header lr s v st lr' s' :
  Rel s v -> K fuel lr v -> crun (parser_new fuel k maxd ignore_header lr) s = CDone (Ok st, lr') s' ->
  exists v', aruns (parser_new fuel k maxd ignore_header lr) v (ADone (Ok st, lr') v') /\ Rel s' v' /\ K fuel lr' v' /\
             (phdr st <> None -> ItemLk v v') /\
             (vreq v' <= nlen (g_delivered s) -> g_delivered s' = g_delivered s /\ src s' = src s).
Proof.
  intros HR HK Hc.
  destruct (simulation_inv (PQ (g_delivered s) (src s)) (PQ_peek _ _) (PQ_same _ _) (parser_new fuel k maxd ignore_header lr) s v HR) as (r & Hr & Href);
    [intros _; split; reflexivity|].
  destruct (prt_elim _ _ _ _ _ (parser_new_okr fuel k maxd ignore_header lr v HK) Hr) as (res & lr2 & v' & -> & Hf & Hres).
  destruct Href as (s2 & Hc2 & HR' & HP'). rewrite Hc in Hc2. inversion Hc2; subst res lr2 s2.
  exists v'. split; [exact Hr|]. destruct Hres as (HK' & Hi).
  split; [exact HR'|]. split; [exact HK'|]. split; [exact Hi|exact HP'].
Qed.
Print Assumptions parser_new_no_read_when_delivered.

(* ================================================================== *)
(* examples: the bounds are attained, the hypotheses are satisfiable *)

(* "p cnf 1 1\r\n1 0\r\n": CR LF line ends; both bytes are consumed, nothing beyond them is asked for *)
Example look_crlf :
  let S := [112; 32; 99; 110; 102; 32; 49; 32; 49; 13; 10; 49; 32; 48; 13; 10] in
  match srun (parser_new 100 KCnf max_dimacs_i32 false lrs_init) (view_init S None) with
  | ADone (Ok st, lr) v1 =>
      (vcur v1, vreq v1) = (11, 11) /\
      match srun (next_clause 100 KCnf st lr) v1 with
      | ADone ((Ok (Some _), _), _) v2 => (vcur v2, vreq v2) = (16, 16)
      | _ => False
      end
  | _ => False
  end.
Proof. vm_compute. split; reflexivity. Qed.

(* "p cnf 1 1\n1 0": the last line has no line break; the clause is handed out after the one request that finds the end *)
Example look_unterminated :
  let S := [112; 32; 99; 110; 102; 32; 49; 32; 49; 10; 49; 32; 48] in
  match srun (parser_new 100 KCnf max_dimacs_i32 false lrs_init) (view_init S None) with
  | ADone (Ok st, lr) v1 =>
      (vcur v1, vreq v1) = (10, 10) /\
      match srun (next_clause 100 KCnf st lr) v1 with
      | ADone ((Ok (Some _), _), _) v2 => (vcur v2, vreq v2, nlen S) = (13, 14, 13)
      | _ => False
      end
  | _ => False
  end.
Proof. vm_compute. split; reflexivity. Qed.

(* a checkable form of lf_last *)
Fixpoint lf_lastb (bs : bytes) : bool :=
  match bs with
  | [] => true
  | b :: r => match r with [] => true | _ => negb (b =? 10) && lf_lastb r end
  end.

Lemma lf_lastb_ok bs : lf_lastb bs = true -> lf_last bs.
Proof.
  induction bs as [|b r IH]; intros H i Hi; [change (nlen (@nil byte)) with 0 in Hi; lia|].
  destruct r as [|c r']; [unfold nlen in Hi; cbn [length] in Hi; lia|].
  cbn [lf_lastb] in H. apply andb_prop in H. destruct H as [Hb Hr].
  destruct (N.eq_dec i 0) as [->|Hi0].
  - cbn. intros E. inversion E; subst. discriminate.
  - assert (Hn : nnth (b :: c :: r') i = nnth (c :: r') (i - 1)).
    { unfold nnth. replace (N.to_nat i) with (S (N.to_nat (i - 1))) by lia. reflexivity. }
    rewrite Hn. apply (IH Hr). unfold nlen in *. cbn [length] in *. lia.
Qed.

(* "p cnf 2 2\n1 0\n2 0\n" arriving one line per read: after Parser::new exactly the header line has been read (one read),
   after next_clause exactly two lines (two reads); the buffer is empty each time *)
Definition ex_data : bytes := [112; 32; 99; 110; 102; 32; 50; 32; 50; 10; 49; 32; 48; 10; 50; 32; 48; 10].
Definition ex_lines : source := {| prebuf := []; data := ex_data; events := [Deliver 10; Deliver 4; Deliver 4] |}.

Example ex_lines_LineSrc : LineSrc ex_lines.
Proof.
  split; [reflexivity|]. cbn [ex_lines events data line_sched].
  split; [apply lf_lastb_ok; vm_compute; reflexivity|].
  split; [apply lf_lastb_ok; vm_compute; reflexivity|].
  split; [apply lf_lastb_ok; vm_compute; reflexivity|].
  apply lf_lastb_ok. vm_compute. reflexivity.
Qed.

Example ex_line_by_line :
  match crun (parser_new 100 KCnf max_dimacs_i32 false lrs_init) (set_chunk (reader_init ex_lines) 16384) with
  | CDone (Ok st, lr) s1 =>
      (nlen (g_delivered s1), g_calls s1, valid_len s1) = (10, 1, 0) /\
      match crun (next_clause 100 KCnf st lr) s1 with
      | CDone ((Ok (Some _), _), _) s2 => (nlen (g_delivered s2), g_calls s2, valid_len s2) = (14, 2, 0)
      | _ => False
      end
  | _ => False
  end.
Proof. vm_compute. split; reflexivity. Qed.

(* the same data arriving in one piece: the first read delivers everything; the later calls make no read at all *)
Example ex_all_at_once :
  match crun (parser_new 100 KCnf max_dimacs_i32 false lrs_init)
             (set_chunk (reader_init {| prebuf := []; data := ex_data; events := [] |}) 16384) with
  | CDone (Ok st, lr) s1 =>
      (nlen (g_delivered s1), g_calls s1, valid_len s1) = (18, 1, 8) /\
      match crun (next_clause 100 KCnf st lr) s1 with
      | CDone ((Ok (Some _), _), _) s2 => (nlen (g_delivered s2), g_calls s2, valid_len s2) = (18, 1, 4)
      | _ => False
      end
  | _ => False
  end.
Proof. vm_compute. split; reflexivity. Qed.

(* ================================================================== *)
(* the solver log parser: it returns only at the end of the log, but it reads its input line by line: every
   iteration of its loop that goes on to the next line does so in a state in which nothing beyond the line break of
   the line just read has been asked for (log_loop_step) *)
Section LookLog.
Variable fuel : nat.

Local Notation K := (K fuel).
Local Notation Gk := (Gk fuel).
Local Notation Gs := (Gs fuel).
Local Notation TokPostR := (TokPostR fuel).
Local Notation GsI := (GsI fuel).
Local Notation meas_init := (meas_init fuel).
Local Notation meas_stepr := (meas_stepr fuel).
Local Notation MarkOK_setmark := (MarkOK_setmark fuel).
Local Notation matches_tok_okr := (matches_tok_okr fuel).
Local Notation or_unexpected_okr := (or_unexpected_okr fuel).
Local Notation unexpected_okr := (unexpected_okr fuel).
Local Notation interactive_end_of_line_okr := (interactive_end_of_line_okr fuel).
Local Notation interactive_strict_comment_okr := (interactive_strict_comment_okr fuel).
Local Notation interactive_skip_line_okr := (interactive_skip_line_okr fuel).
Local Notation skip_whitespace_okr := (skip_whitespace_okr fuel).
Local Notation tfixed_okr := (tfixed_okr fuel).
Local Notation lit_tok_okr := (lit_tok_okr fuel).
Local Notation give_up_at_mark_okr := (give_up_at_mark_okr fuel).
Local Notation teof_okr := (teof_okr fuel).
Local Notation TokPostR_weaken := (TokPostR_weaken fuel).

Lemma strict_comments_okr n : forall lr v, K lr v -> meas v n -> prt (strict_comments fuel n) lr v (ResPostR Gk v).
Proof.
  induction n as [|n IH]; intros lr v HK Hm; [exfalso; unfold meas in Hm; lia|]. cbn [strict_comments].
  apply prt_pbnd.
  eapply prt_conseq; [apply (matches_tok_okr _ (fun lr' v' => K lr' v' /\ vcur v < vcur v' /\ ItemLk v v')); apply interactive_strict_comment_okr; exact HK|].
  intros c lr1 v1 [Hf Hc]. destruct c as [[|]|e].
  - destruct Hc as (HK1 & Hlt & _). eapply prt_conseq; [apply IH; [exact HK1|eapply meas_stepr; eassumption]|].
    intros a lr3 v3 Ha. eapply ResPostR_frame; eassumption.
  - apply prt_pret. split; assumption.
  - apply prt_pret. split; assumption.
Qed.

Lemma value_lits_genr (I : list Z -> Prop) n : forall maxd acc lr v,
  (forall a z, I a -> InLim maxd z -> I (a ++ [z])) ->
  K lr v -> meas v n -> I acc ->
  prt (value_lits fuel n maxd acc) lr v (ResPostR (fun r lr' v' => K lr' v' /\ I (fst r)) v).
Proof.
  induction n as [|n IH]; intros maxd acc lr v HI HK Hm Hacc; [exfalso; unfold meas in Hm; lia|]. cbn [value_lits].
  apply prt_pbnd, prt_pset_mark.
  pose proof (MarkOK_setmark lr v HK) as HM0. pose proof (K_setmark fuel lr v HK) as HK0.
  pose proof (framer_setmark v) as Hf0.
  apply prt_pbnd. eapply prt_conseq; [apply lit_tok_okr; [exact HK0|exact HM0]|].
  intros r lr1 v1 [Hf Hr]. pose proof (framer_trans _ _ _ Hf0 Hf) as Hf1.
  destruct r as [[lit|e]|]; [|apply prt_pret; split; assumption|apply prt_pret; split; [assumption|split; assumption]].
  destruct Hr as (-> & HK1 & Hmk & Hlt).
  destruct (lit =? 0)%Z; [apply prt_pret; split; [assumption|split; assumption]|].
  destruct ((- maxd <=? lit) && (lit <=? maxd))%Z eqn:Er.
  - cbn [v_setmark vcur] in Hlt.
    assert (Hin : InLim maxd lit).
    { apply andb_prop in Er. destruct Er as [E1 E2]. apply Z.leb_le in E1, E2. split; assumption. }
    eapply prt_conseq; [apply IH; [exact HI|exact HK1|eapply meas_stepr; eassumption|apply HI; assumption]|].
    intros a lr3 v3 Ha. eapply ResPostR_frame; eassumption.
  - apply prt_pbnd. eapply prt_conseq; [apply (give_up_at_mark_okr lr (v_setmark v) v1 HM0 HK1 Hf Hmk)|].
    intros e lr2 v2 [Hf2 He]. apply prt_pret. split; [eapply framer_trans; eassumption|exact He].
Qed.

Lemma value_lits_okr n maxd acc lr v : K lr v -> meas v n -> prt (value_lits fuel n maxd acc) lr v (ResPostR Gk v).
Proof.
  intros HK Hm. eapply prt_conseq; [apply (value_lits_genr (fun _ => True)); auto|].
  intros a lr' v' Ha. eapply ResPostR_weaken; [exact Ha|]. intros x [H _]. exact H.
Qed.

Lemma tfixed_log_okr (pat : bytes) lr v :
  In pat [log_v; log_s; log_sat; log_unsat; log_unknown] -> K lr v -> prt (tfixed pat) lr v (TokPostR (Gs v) v).
Proof. intros Hin HK. destruct (log_pat_ok pat Hin) as [H1 H2]. apply tfixed_okr; assumption. Qed.

Lemma status_tok_okr lr v : K lr v -> prt (status_tok fuel) lr v (TokPostR (GsI v) v).
Proof.
  intros HK. unfold status_tok, tok_ok, tok_err, tok_ft.
  apply prt_pbnd. eapply prt_conseq; [apply (tfixed_log_okr log_sat); [cbn; tauto|exact HK]|].
  intros s lr1 v1 [Hf1 Hs].
  apply prt_pbnd. apply (prt_conseq _ _ _ (TokPostR (Gs v) v)).
  { destruct s as [[u|e]|]; [apply prt_pret; split; [exact Hf1|]; destruct Hs; split; assumption|apply prt_pret; split; assumption|].
    apply prt_pbnd. eapply prt_conseq; [apply (tfixed_log_okr log_unsat); [cbn; tauto|exact Hs]|].
    intros u lr2 v2 [Hf2 Hu]. pose proof (framer_trans _ _ _ Hf1 Hf2) as Hf12.
    destruct u as [[u|e]|]; [apply prt_pret; split; [exact Hf12|]; destruct Hu as [Hk Hlt]; split; [exact Hk|destruct Hf1 as (_ & _ & Hc & _); lia]|apply prt_pret; split; assumption|].
    apply prt_pbnd. eapply prt_conseq; [apply (tfixed_log_okr log_unknown); [cbn; tauto|exact Hu]|].
    intros w lr3 v3 [Hf3 Hw]. pose proof (framer_trans _ _ _ Hf12 Hf3) as Hf13.
    destruct w as [[u|e]|]; apply prt_pret; (split; [exact Hf13|]); [|exact Hw|exact Hw].
    destruct Hw as [Hk Hlt]. split; [exact Hk|]. destruct Hf12 as (_ & _ & Hc & _). lia. }
  intros r lr2 v2 [Hf2 Hr]. destruct r as [[b|e]|]; [|apply prt_pret; split; assumption..].
  destruct Hr as [HK2 Hlt].
  apply prt_pbnd. eapply prt_conseq; [apply or_unexpected_okr; apply interactive_end_of_line_okr; exact HK2|].
  intros e lr3 v3 [Hf3 He]. pose proof (framer_trans _ _ _ Hf2 Hf3) as Hf23.
  destruct e as [u|er]; apply prt_pret; (split; [exact Hf23|]); [|exact He].
  destruct He as [HK3 Hi]. split; [exact HK3|].
  split; [destruct Hf3 as (_ & _ & Hc & _); lia|exact (framer_ItemLk _ _ _ Hf2 Hi)].
Qed.

(* the ways out of the loop: the result of the whole parse *)
Definition LogExit (v : view) : result (option bool * list Z) perr -> lrs -> view -> Prop :=
  ResPostR (fun _ _ v' => vfail v' = None) v.

(* One iteration.  Q holds of every way out of the loop; the next iteration (whatever the new parser state st') is
   entered only in a state v' reached by consuming at least one line, with nothing asked for beyond its line break. *)
Lemma log_loop_step n maxd iu st lr v (Q : result (option bool * list Z) perr -> lrs -> view -> Prop) :
  K lr v ->
  (forall st' lr' v', K lr' v' -> framer v v' -> vcur v < vcur v' -> ItemLk v v' ->
                      prt (log_loop fuel n maxd iu st') lr' v' Q) ->
  (forall r lr' v', LogExit v r lr' v' -> Q r lr' v') ->
  prt (log_loop fuel (S n) maxd iu st) lr v Q.
Proof.
  intros HK Hloop Hexit. cbn [log_loop].
  assert (Hret : forall r lr' v', LogExit v r lr' v' -> prt (pret r) lr' v' Q)
    by (intros r lr' v' H; apply prt_pret; apply Hexit; exact H).
  assert (Hun : forall lr' v', K lr' v' -> framer v v' -> prt (let* e := unexpected in pret (Err e)) lr' v' Q).
  { intros lr' v' HK' Hf'. apply prt_pbnd. eapply prt_conseq; [apply unexpected_okr; exact HK'|]. intros e lr4 v4 [Hf4 He].
    apply Hret. split; [eapply framer_trans; eassumption|exact He]. }
  apply prt_pbnd. eapply prt_conseq; [apply strict_comments_okr; [exact HK|eapply meas_init; exact HK]|].
  intros c lr1 v1 [Hf1 Hc]. destruct c as [u|e]; [|apply Hret; split; assumption].
  apply prt_pbnd.
  apply (prt_conseq _ _ _ (ResPostR (fun (b : bool) lr' v' => if b then K lr' v' /\ vcur v1 < vcur v' else K lr' v') v1)).
  { destruct (finished st); [apply prt_pret; split; [apply framer_refl|exact Hc]|].
    apply matches_tok_okr. apply (tfixed_log_okr log_v); [cbn; tauto|exact Hc]. }
  intros vv lr2 v2 [Hf Hvv]. pose proof (framer_trans _ _ _ Hf1 Hf) as Hf2. destruct vv as [[|]|e];
    [| |apply Hret; split; assumption].
  - (* a value line *)
    destruct Hvv as [HK2 Hlt2].
    apply prt_pbnd. eapply prt_conseq; [apply skip_whitespace_okr; exact HK2|]. intros _ lr3 v3 (-> & HK3 & Hf23).
    pose proof (framer_trans _ _ _ Hf2 Hf23) as Hf3.
    apply prt_pbnd. eapply prt_conseq; [apply value_lits_okr; [exact HK3|eapply meas_init; exact HK3]|].
    intros ls lr4 v4 [Hf34 Hls]. pose proof (framer_trans _ _ _ Hf3 Hf34) as Hf4.
    destruct ls as [[a fin]|e]; [|apply Hret; split; assumption].
    apply prt_pbnd. eapply prt_conseq; [apply or_unexpected_okr; apply interactive_end_of_line_okr; exact Hls|].
    intros e lr5 v5 [Hf45 He]. pose proof (framer_trans _ _ _ Hf4 Hf45) as Hf5.
    destruct e as [u5|er]; [|apply Hret; split; assumption].
    destruct He as [HK5 Hi5].
    apply Hloop; [exact HK5|exact Hf5| |exact (framer_ItemLk _ _ _ Hf4 Hi5)].
    destruct Hf1 as (_ & _ & c1 & _). destruct Hf23 as (_ & _ & c2 & _). destruct Hf34 as (_ & _ & c3 & _).
    destruct Hf45 as (_ & _ & c4 & _). lia.
  - apply prt_pbnd.
    apply (prt_conseq _ _ _ (ResPostR (fun (b : bool) lr' v' => if b then K lr' v' /\ vcur v2 < vcur v' else K lr' v') v2)).
    { destruct (sat st); [apply prt_pret; split; [apply framer_refl|exact Hvv]|].
      apply matches_tok_okr. apply (tfixed_log_okr log_s); [cbn; tauto|exact Hvv]. }
    intros ss lr3 v3 [Hf23 Hss]. pose proof (framer_trans _ _ _ Hf2 Hf23) as Hf3. destruct ss as [[|]|e];
      [| |apply Hret; split; assumption].
    + (* a status line *)
      destruct Hss as [HK3 Hlt3].
      apply prt_pbnd. eapply prt_conseq; [apply or_unexpected_okr; apply status_tok_okr; exact HK3|].
      intros r lr4 v4 [Hf34 Hr]. pose proof (framer_trans _ _ _ Hf3 Hf34) as Hf4.
      destruct r as [sv|e]; [|apply Hret; split; assumption].
      destruct Hr as (HK4 & Hlt4 & Hi4). apply Hloop; [exact HK4|exact Hf4| |exact (framer_ItemLk _ _ _ Hf3 Hi4)].
      destruct Hf2 as (_ & _ & c1 & _). lia.
    + apply prt_pbnd.
      eapply prt_conseq; [apply (matches_tok_okr _ (fun lr' v' => K lr' v' /\ vfail v' = None /\ ItemLk v3 v')); apply teof_okr; exact Hss|].
      intros ef lr4 v4 [Hf34 Hef]. pose proof (framer_trans _ _ _ Hf3 Hf34) as Hf4. destruct ef as [[|]|e];
        [| |apply Hret; split; assumption].
      * destruct Hef as (HK4 & Hfail & _). destruct (started st && negb (finished st)); [apply Hun; assumption|].
        apply Hret. split; assumption.
      * apply prt_pbnd.
        apply (prt_conseq _ _ _ (ResPostR (fun (b : bool) lr' v' => if b then GsI v4 tt lr' v' else K lr' v') v4)).
        { destruct iu; [|apply prt_pret; split; [apply framer_refl|exact Hef]].
          apply (matches_tok_okr _ (fun lr' v' => GsI v4 tt lr' v')). apply interactive_skip_line_okr. exact Hef. }
        intros sk lr5 v5 [Hf45 Hsk]. pose proof (framer_trans _ _ _ Hf4 Hf45) as Hf5. destruct sk as [[|]|e];
          [| |apply Hret; split; assumption].
        -- destruct Hsk as (HK5 & Hlt5 & Hi5). apply Hloop; [exact HK5|exact Hf5| |exact (framer_ItemLk _ _ _ Hf4 Hi5)].
           destruct Hf4 as (_ & _ & c1 & _). lia.
        -- apply Hun; assumption.
Qed.

(* hence the whole parse, as in CnfSafe.v (with the look-ahead condition in the frame) *)
Lemma log_loop_okr n : forall maxd iu st lr v, K lr v -> meas v n -> prt (log_loop fuel n maxd iu st) lr v (LogExit v).
Proof.
  induction n as [|n IH]; intros maxd iu st lr v HK Hm; [exfalso; unfold meas in Hm; lia|].
  apply log_loop_step; [exact HK| |intros r lr' v' H; exact H].
  intros st' lr' v' HK' Hf' Hlt' _. eapply prt_conseq; [apply IH; [exact HK'|eapply meas_stepr; eassumption]|].
  intros a lr3 v3 Ha. eapply ResPostR_frame; eassumption.
Qed.

Lemma parse_log_okr maxd iu lr v : K lr v -> prt (parse_log fuel maxd iu) lr v (LogExit v).
Proof. intros HK. unfold parse_log. apply log_loop_okr; [exact HK|eapply meas_init; exact HK]. Qed.

End LookLog.


(* the per-line statement for the solver log, outside the section *)
Theorem solver_log_line_by_line fuel n maxd iu st lr v (Q : result (option bool * list Z) perr -> lrs -> view -> Prop) :
  K fuel lr v ->
  (forall st' lr' v', K fuel lr' v' -> framer v v' -> vcur v < vcur v' -> ItemLk v v' ->
                      prt (log_loop fuel n maxd iu st') lr' v' Q) ->
  (forall r lr' v', LogExit v r lr' v' -> Q r lr' v') ->
  prt (log_loop fuel (S n) maxd iu st) lr v Q.
Proof. exact (log_loop_step fuel n maxd iu st lr v Q). Qed.
Print Assumptions solver_log_line_by_line.

(* ================================================================== *)
(* L2 from the start of the input: a line source, any chunk size.  When Parser::new returns with a header, exactly the
   lines up to and including the header line have been read from the source; the session invariant holds, so that
   next_clause_line_by_line applies to every following call. *)
Corollary header_line_by_line fuel k maxd ignore_header (sr : source) (c : N) st lr' s' :
  NoLie (events sr) -> LineSrc sr -> 1 <= c ->
  Forall (fun b => b < 256) (fst (stream_of sr)) -> nlen (fst (stream_of sr)) < 2 ^ 62 -> (length (fst (stream_of sr)) < fuel)%nat ->
  crun (parser_new fuel k maxd ignore_header lrs_init) (set_chunk (reader_init sr) c) = CDone (Ok st, lr') s' ->
  exists v', Session fuel lr' s' v' /\ vS v' = fst (stream_of sr) /\
    (phdr st <> None ->
       valid_len s' = 0 /\ nlen (g_delivered s') = vcur v' /\
       (nnth (fst (stream_of sr)) (vcur v' - 1) = Some 10 \/ vcur v' = nlen (fst (stream_of sr)))).
Proof.
  intros HN HL Hc Hb Hl Hf Hrun.
  pose proof (Session_init fuel sr c HN HL Hc Hb Hl Hf) as HS.
  destruct (parser_new_line_by_line fuel k maxd ignore_header _ _ _ _ _ _ HS Hrun) as (v' & _ & HS' & Hfr & Hh).
  exists v'. split; [exact HS'|]. destruct Hfr as (a1 & _). cbn [view_init vS] in a1. split; [exact a1|].
  intros Hp. destruct (Hh Hp) as (Hi & Hv & Hd). split; [exact Hv|]. split; [exact Hd|].
  destruct Hi as [(_ & b2 & _)|(b1 & _)]; cbn [view_init vS] in *; [left; exact b2|right; exact b1].
Qed.
Print Assumptions header_line_by_line.

(* ================================================================== *)
(* L3 (C10), at the level of views: the window [vreq - vcur] (what has been asked for and not consumed: what the reader
   must hold) during a call.  [aruns_via p v vi r]: the admissible run of p from v with result r passes through vi. *)
Inductive aruns_via {A} : prog A -> view -> view -> ares A -> Prop :=
| via_here p v r : aruns p v r -> aruns_via p v v r
| via_peek k c v vi r : aruns_via (c (vpeek v k)) (after_peek v k) vi r -> aruns_via (Peek k c) v vi r
| via_adv n c v vi r : vcur v + n <= vhwm v -> aruns_via c (v_advance v n) vi r -> aruns_via (Advance n c) v vi r
| via_tryload off c v o vi r : tryload_ok v off o -> aruns_via (c o) (v_loaded v off o) vi r -> aruns_via (TryLoad8 off c) v vi r
| via_atend c v vi r : aruns_via (c (s_atend v)) v vi r -> aruns_via (IsAtEnd c) v vi r
| via_parked c v vi r : aruns_via (c (s_parked v)) v vi r -> aruns_via (ErrParked c) v vi r
| via_take c v vi r : aruns_via (c (s_take v)) (v_take v (s_take v)) vi r -> aruns_via (TakeErr c) v vi r
| via_setmark c v vi r : aruns_via c (v_setmark v) vi r -> aruns_via (SetMark c) v vi r
| via_getmark c v vi r : aruns_via (c (vmark v mod W64)) v vi r -> aruns_via (GetMark c) v vi r
| via_getpos c v vi r : aruns_via (c (vcur v mod W64)) v vi r -> aruns_via (GetPos c) v vi r.

Lemma via_aruns {A} (p : prog A) v vi r : aruns_via p v vi r -> aruns p v r.
Proof.
  induction 1; [assumption|constructor; assumption|apply ar_adv; assumption|eapply ar_tryload; eassumption|
                constructor; assumption..].
Qed.

(* requests and cursor only grow *)
Lemma aruns_req_mono {A} (p : prog A) v r : aruns p v r -> forall a v', r = ADone a v' -> vreq v <= vreq v' /\ vcur v <= vcur v'.
Proof.
  induction 1; intros a0 v0 E; try discriminate.
  - inversion E; subst. split; lia.
  - destruct (IHaruns a0 v0 E) as [h1 h2]. cbn [after_peek vreq vcur] in *. split; lia.
  - destruct (IHaruns a0 v0 E) as [h1 h2]. cbn [v_advance vreq vcur] in *. split; lia.
  - exact (IHaruns a0 v0 E).
  - exact (IHaruns a0 v0 E).
  - exact (IHaruns a0 v0 E).
  - exact (IHaruns a0 v0 E).
  - exact (IHaruns a0 v0 E).
  - exact (IHaruns a0 v0 E).
  - exact (IHaruns a0 v0 E).
Qed.

Lemma via_mono {A} (p : prog A) v vi r : aruns_via p v vi r -> forall a v', r = ADone a v' ->
  vreq v <= vreq vi /\ vcur v <= vcur vi /\ vreq vi <= vreq v' /\ vcur vi <= vcur v'.
Proof.
  induction 1; intros a0 v0 E.
  - destruct (aruns_req_mono _ _ _ H a0 v0 E) as [h1 h2]. lia.
  - destruct (IHaruns_via a0 v0 E) as (h1 & h2 & h3 & h4). cbn [after_peek vreq vcur] in *. lia.
  - destruct (IHaruns_via a0 v0 E) as (h1 & h2 & h3 & h4). cbn [v_advance vreq vcur] in *. lia.
  - exact (IHaruns_via a0 v0 E).
  - exact (IHaruns_via a0 v0 E).
  - exact (IHaruns_via a0 v0 E).
  - exact (IHaruns_via a0 v0 E).
  - exact (IHaruns_via a0 v0 E).
  - exact (IHaruns_via a0 v0 E).
  - exact (IHaruns_via a0 v0 E).
Qed.

(* during a call of next_clause that returns an item, the window never exceeds what it was at the start or the length
   of the item -- everything the call consumes: blank and comment lines before the clause, the clause with its
   continuation lines, its line break -- plus one (the request that finds the end of an unterminated last line) *)
Theorem next_clause_window fuel k st lr v vi item st' lr' v' :
  K fuel lr v -> aruns_via (next_clause fuel k st lr) v vi (ADone ((Ok (Some item), st'), lr') v') ->
  vreq vi - vcur vi <= N.max (vreq v - vcur v) (vcur v' - vcur v + 1).
Proof.
  intros HK Hvia. pose proof (via_aruns _ _ _ _ Hvia) as Hr.
  destruct (via_mono _ _ _ _ Hvia _ _ eq_refl) as (h1 & h2 & h3 & h4).
  destruct (next_clause_lookahead fuel k st lr v _ HK Hr) as (res & st2 & lr2 & v2 & E & HS & _ & _ & Hres).
  inversion E; subst. destruct Hres as (_ & _ & [(b1 & b2 & b3)|(b1 & b2)]); lia.
Qed.
Print Assumptions next_clause_window.

(* whatever the outcome: at most the window at the start, or everything consumed plus the rest of the line the cursor ends in,
   its break (or the end of the input) included *)
Theorem next_clause_window_any fuel k st lr v vi res st' lr' v' :
  K fuel lr v -> aruns_via (next_clause fuel k st lr) v vi (ADone ((res, st'), lr') v') ->
  exists e, nolf (vS v) (vcur v') e /\ e <= nlen (vS v) /\ vreq vi - vcur vi <= N.max (vreq v - vcur v) (e + 1 - vcur v).
Proof.
  intros HK Hvia. pose proof (via_aruns _ _ _ _ Hvia) as Hr.
  destruct (via_mono _ _ _ _ Hvia _ _ eq_refl) as (h1 & h2 & h3 & h4).
  destruct (next_clause_lookahead fuel k st lr v _ HK Hr) as (res2 & st2 & lr2 & v2 & E & HS & _ & (e & a1 & a2 & a3) & _).
  inversion E; subst. exists e. split; [exact a2|]. split; [exact a3|lia].
Qed.

Theorem parser_new_window fuel k maxd ignore_header lr v vi st lr' v' :
  K fuel lr v -> aruns_via (parser_new fuel k maxd ignore_header lr) v vi (ADone (Ok st, lr') v') -> phdr st <> None ->
  vreq vi - vcur vi <= N.max (vreq v - vcur v) (vcur v' - vcur v + 1).
Proof.
  intros HK Hvia Hh. pose proof (via_aruns _ _ _ _ Hvia) as Hr.
  destruct (via_mono _ _ _ _ Hvia _ _ eq_refl) as (h1 & h2 & h3 & h4).
  destruct (parser_new_lookahead fuel k maxd ignore_header lr v _ HK Hr) as (res & lr2 & v2 & E & HS & _ & _ & Hres).
  inversion E; subst. destruct Hres as (_ & Hi). destruct (Hi Hh) as [(b1 & b2 & b3)|(b1 & b2)]; lia.
Qed.
Print Assumptions parser_new_window.
