"""stream tx: direct calls of the text.rs scanners through a DeferredReader.
kind="digits": the four decimal scanners for all 12 modelled integer types; digit strings of
length 0..45 around every type's MIN/MAX, random tails, all amounts of pre-buffered data
(selects SWAR fast path / cold path); kernel lanes: 0..8 digits followed by each of the 256
byte values.  kind="scan": tabs_or_spaces/newline/next_newline/fixed; exhaustive small scope
(strings <= 5 over {space,tab,CR,LF,x}) x offsets x patterns, one byte per read."""
import itertools

UTYPES = {"u8": 8, "u16": 16, "u32": 32, "u64": 64, "u128": 128, "usize": 64}
STYPES = {"i8": 8, "i16": 16, "i32": 32, "i64": 64, "i128": 128, "isize": 64}

def hexs(b):
    return bytes(b).hex() if b else "-"

def case(fn, ty, data, evs="-", pre=0, chunk=16384, prefill=0, off=0, pat=b"", prefix="tx"):
    return "%s %s %s %s %s %d %d %d %d %s" % (prefix, fn, ty, hexs(data), evs, pre, chunk, prefill, off, hexs(pat))

def digit_strings(rng, bits, signed):
    lo, hi = (-(1 << (bits - 1)), (1 << (bits - 1)) - 1) if signed else (0, (1 << bits) - 1)
    vals = [0, 1, 9, 10, 12345678, 123456789, 99999999, 100000000, 1234567, 12345670, hi, hi - 1, hi + 1, hi * 10, hi // 10,
            hi + 10 ** rng.randrange(1, 6), rng.randrange(0, hi + 1), rng.randrange(0, 10 ** rng.randrange(1, 46))]
    if signed:
        vals += [lo, lo + 1, lo - 1, lo * 10, -1, -9, -1234567, -12345678, -123456789, -rng.randrange(0, -lo + 1)]
    out = []
    for v in vals:
        s = str(v)
        out.append(s)
        if rng.random() < 0.3:
            z = "0" * rng.choice([1, 2, 7, 8, 9])
            out.append(("-" + z + s[1:]) if s.startswith("-") else z + s)
    return out

TAILS = [b"", b" ", b"\n", b" 0\n", b"x", b"-", b":", b"/", b"\x00", b"\xff", b"a1", b" 12 -3 0\n", b"}", b"\t"]

def gen_digits(rng, n, prefix):
    cases = []
    # kernel lanes: k digits then every byte value
    for k in range(0, 9):
        for term in range(256):
            if rng.random() < (1.0 if n >= 20000 else 0.12):
                ds = bytes(rng.choice(b"0123456789") for _ in range(k))
                data = ds + bytes([term]) + bytes(rng.randrange(0, 256) for _ in range(8))
                fn, ty = rng.choice([("mdigits", "u32"), ("msdigits", "i32"), ("mdigits", "u8"), ("msdigits", "i64")])
                if fn == "msdigits" and rng.random() < 0.5:
                    data = b"-" + data
                cases.append(case(fn, ty, data, prefill=len(data), prefix=prefix))
    while len(cases) < n:
        signed_fn = rng.random() < 0.5
        ty = rng.choice(list(STYPES)) if signed_fn else rng.choice(list(UTYPES) + list(STYPES))
        bits = STYPES.get(ty) or UTYPES[ty]
        s = rng.choice(digit_strings(rng, bits, ty in STYPES))
        if not signed_fn and s.startswith("-"):
            s = s[1:]
        lead = bytes(rng.choice(b" x1\n") for _ in range(rng.choice([0, 0, 0, 1, 3, 9])))
        data = lead + s.encode() + rng.choice(TAILS)
        if rng.random() < 0.1:
            data = bytes(rng.choice(b"0123456789-- \n") for _ in range(rng.randrange(0, 30)))
        fn = rng.choice(["sdigits", "msdigits", "msdigits"]) if signed_fn else rng.choice(["digits", "mdigits", "mdigits"])
        prefill = rng.choice([0, 0, len(data), len(data), len(lead) + 7, len(lead) + 8, len(lead) + 9, rng.randrange(0, len(data) + 2)])
        evs = rng.choice(["-", "-", "d1,d1,d1,d1,d1,d1,d1,d1,d1,d1,d1,d1", "d3,i,d5,d8", "d8", "d7", "d9,f3", "d4,e"])
        chunk = rng.choice([16384, 16384, 1, 3, 8, 9])
        pre = rng.choice([0, 0, 0, 2, 8])
        off = len(lead)
        if rng.random() < 0.04:      # offsets beyond the data and at the very top of usize (guard arithmetic)
            off = rng.choice([len(data), len(data) + 1, len(data) + 9, 2 ** 64 - 1 - rng.randrange(1, 12), 2 ** 64 - 9, 2 ** 63])
        cases.append(case(fn, ty, data, evs, pre, chunk, prefill, off, prefix=prefix))
    return cases

def gen_scan(rng, n, prefix, tier):
    cases = []
    alpha = [32, 9, 13, 10, 120]
    maxlen = 5 if tier == "thorough" else 4
    pats = [b"", b"x", b"\r\n", b"c ", b"xx", b"p cnf", b" \t"]
    for ln in range(0, maxlen + 1):
        for tup in itertools.product(alpha, repeat=ln):
            data = bytes(tup)
            evs = ",".join(["d1"] * (ln + 1))
            for off in range(0, ln + 2):
                for fn in ("blanks", "newline", "nextnl"):
                    cases.append(case(fn, "-", data, evs, 0, 16384, 0, off, prefix=prefix))
                for pat in pats + [data[off:off + 2], data[off:] + b"x"]:
                    cases.append(case("fixed", "-", data, evs, 0, 16384, 0, off, pat, prefix=prefix))
    # sampled beyond the small scope, with arbitrary buffering
    for _ in range(n):
        ln = rng.randrange(0, 40)
        # beyond ASCII: bytes whose low seven bits are a blank, CR or LF must not be classified as such
        data = bytes(rng.choice([32, 32, 9, 13, 10, 120, 99, 0, 255, 0xa0, 0x89, 0x8a, 0x8d, 0x20 ^ 0x40, 0x09 ^ 0x40]) for _ in range(ln))
        off = rng.randrange(0, ln + 3)
        fn = rng.choice(["blanks", "newline", "nextnl", "fixed"])
        pat = rng.choice(pats + [data[off:off + rng.randrange(0, 6)], data[off:off + 3] + b"!"])
        evs = rng.choice(["-", ",".join(["d1"] * (ln + 1)), "d2,i,d3,d100", "d5,e", "d3,f2"])
        cases.append(case(fn, "-", data, evs, rng.choice([0, 0, 3]), rng.choice([16384, 1, 2, 7]),
                          rng.choice([0, 0, off, ln]), off, pat if fn == "fixed" else b"", prefix=prefix))
    return cases

def gen(rng, n, tier, kind="digits", prefix="tx", **kw):
    return gen_digits(rng, n, prefix) if kind == "digits" else gen_scan(rng, n, prefix, tier)

def category(case):
    t = case.split()
    fn = t[1]
    if fn in ("digits", "sdigits", "mdigits", "msdigits"):
        path = "fast" if int(t[7]) >= int(t[8]) + 8 else "cold"
        return "%s/%s/%s" % (fn, t[2], path)
    return fn + ("/1byte" if t[4].startswith("d1,d1") or t[4] == "d1" else "/other")

def nontrivial(case):
    return len(case.split()[3]) >= 4
