(* s_tx.ml — stream "tx": one call of a text.rs scanner on a DeferredReader.
   case:  tx <fn> <ty|-> <datahex> <events> <pre> <chunk> <prefill> <offset> <pathex|->
   trace: <value|none|-> <offset> | pos=<position> buffered=<buf_len> calls=<n>        *)
open Model
open Util

let fuel_for (data : n list) : nat = nat_of_int (List.length data + 4)

let show_cres show (r : 'a cres) : string =
  match r with
  | CDone (a, s) ->
      Printf.sprintf "%s | pos=%s buffered=%s calls=%s" (show a) (str_of_n (position s))
        (str_of_n s.valid_len) (str_of_n s.g_calls)
  | CPanic (k, _) -> S_rd.show_panic k
  | CUB -> "UB"
  | CFuel -> "FUEL"

let run (toks : string list) : string =
  match toks with
  | [fn; ty; datahex; evs; pre; chunk; prefill; offset; pat] ->
      let s0 = reader_init (S_rd.mk_source datahex evs pre) in
      let (s1, _) = step s0 (OSetChunk (n_of_str chunk)) in
      let (s2, _) = if prefill = "0" then (s1, VUnit) else step s1 (ORequest (n_of_str prefill)) in
      let data = bytes_of_hex datahex in
      let fuel = fuel_for data in
      let off = n_of_str offset in
      let show_num (v, o) =
        (match v with None -> "none" | Some z -> str_of_zz z) ^ " " ^ str_of_n o in
      let show_off o = "- " ^ str_of_n o in
      (match fn with
       | "digits" -> show_cres show_num (crun (ascii_digits fuel (S_wr.parse_ity ty) off) s2)
       | "sdigits" -> show_cres show_num (crun (signed_ascii_digits fuel (S_wr.parse_ity ty) off) s2)
       | "mdigits" -> show_cres show_num (crun (ascii_digits_multi fuel (S_wr.parse_ity ty) off) s2)
       | "msdigits" -> show_cres show_num (crun (signed_ascii_digits_multi fuel (S_wr.parse_ity ty) off) s2)
       | "blanks" -> show_cres show_off (crun (tabs_or_spaces fuel off) s2)
       | "newline" -> show_cres show_off (crun (newline off) s2)
       | "nextnl" -> show_cres show_off (crun (next_newline fuel off) s2)
       | "fixed" -> show_cres show_off (crun (fixed off (bytes_of_hex pat)) s2)
       | _ -> failwith ("unknown text fn " ^ fn))
  | _ -> failwith "tx: expected 9 fields"
