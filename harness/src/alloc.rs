//! Counting global allocator: live and peak heap bytes of the harness process.
use std::alloc::{GlobalAlloc, Layout, System};
use std::sync::atomic::{AtomicUsize, Ordering::Relaxed};

pub struct Counting;
static CUR: AtomicUsize = AtomicUsize::new(0);
static PEAK: AtomicUsize = AtomicUsize::new(0);

unsafe impl GlobalAlloc for Counting {
    unsafe fn alloc(&self, l: Layout) -> *mut u8 {
        let p = System.alloc(l);
        if !p.is_null() {
            let c = CUR.fetch_add(l.size(), Relaxed) + l.size();
            PEAK.fetch_max(c, Relaxed);
        }
        p
    }
    unsafe fn dealloc(&self, p: *mut u8, l: Layout) {
        System.dealloc(p, l);
        CUR.fetch_sub(l.size(), Relaxed);
    }
    unsafe fn realloc(&self, p: *mut u8, l: Layout, new: usize) -> *mut u8 {
        let q = System.realloc(p, l, new);
        if !q.is_null() {
            if new >= l.size() {
                let c = CUR.fetch_add(new - l.size(), Relaxed) + (new - l.size());
                PEAK.fetch_max(c, Relaxed);
            } else {
                CUR.fetch_sub(l.size() - new, Relaxed);
            }
        }
        q
    }
}

pub fn current() -> usize { CUR.load(Relaxed) }
pub fn peak() -> usize { PEAK.load(Relaxed) }
pub fn reset_peak() { PEAK.store(CUR.load(Relaxed), Relaxed); }
