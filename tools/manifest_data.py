NOTES = ("Machine-checked proof in Coq 8.16 about a Gallina model of flussab, tied to /repo on every run by a translator "
         "(tables/constants) and a model-vs-implementation correspondence check (extracted OCaml vs the real crates). "
         "See DESIGN.md.")

ALL = ["C%02d" % i for i in range(1, 17)]
NOT_YET = {p: "check not built yet in this round (planned, see DESIGN.md section 2); not claimed until its theorems and "
              "correspondence stream exist" for p in ALL}

CHECKS = {
    "C15": {
        "text": "Coq theorems (Props/C15.v), one per combinator, quantified over all types, all three input cases and all closures "
                "(closures are functions into a call-log monad, so 'ran iff' is a statement about the log). The model is tied to "
                "parser.rs by a complete enumeration (combinator x input case x closure outcome) run on the real crate and on the "
                "extracted model, compared line by line.",
        "design_ref": "DESIGN.md 2/C15",
        "note": "Trusted: Coq kernel; extraction (ExtrOcamlBasic); the hand model of parser.rs (validated exhaustively up to "
                "parametricity); closures as logged functions.",
        "technique": "Coq proof (case analysis) + exhaustive model/implementation correspondence",
    },
    "C02": {
        "text": "Coq theorems (Props/C02.v): an invariant proved for every state reachable by any operation history from any source "
                "schedule (induction over history and over the refill loop, no bound on sizes), giving window = delivered-minus-consumed, "
                "position, mark across realignment, completeness flags, parked-error life cycle, termination of the refill loops, and "
                "conservation of the source stream for honest sources (BufReader leftovers included). The hand-written Gallina model of "
                "deferred_reader.rs is tied to the code by running the extracted model and the real crate on the same random histories "
                "(debug and release), plus an implementation-only Vec+cursor oracle used to turn a disagreement into a replay.",
        "design_ref": "DESIGN.md 2/C02",
        "note": "Trusted: Coq kernel; extraction; the hand model of deferred_reader.rs and of std Read/Chain/Cursor/Vec (validated "
                "differentially each run); sizes < 2^62. Defect D1 (mark not rebased on realign) was found by this check and fixed in /repo.",
        "technique": "Coq proof (invariant by induction over histories) + model/implementation correspondence",
    },
    "C11": {
        "text": "Coq theorems (Props/C11.v) over a Gallina model of deferred_writer.rs and write/text.rs: for every operation history and "
                "every non-failing sink schedule (short writes, Interrupted) the sink holds exactly the written stream after flush/drop; "
                "for every sink the sink+buffer bytes are an in-order duplicate-free selection of the written stream, writes never "
                "fail, a parked error blocks all sink calls until reported exactly once; the decimal text of every integer is "
                "canonical (proved for all Z, all 12 types' ranges). Model tied to the code by the wr correspondence stream (debug "
                "and release) and an implementation-only oracle used as search.",
        "design_ref": "DESIGN.md 2/C11",
        "note": "Trusted: Coq kernel; extraction; hand model of the writer, of Write::write_all and of itoap's output (validated "
                "differentially each run); Vec capacity = 16384 exactly.",
        "technique": "Coq proof (invariants by induction over histories and over write_all) + model/implementation correspondence",
    },
    "C12": {
        "text": "Coq theorems (Props/C12.v) over a Gallina model of aig.rs (lit_defs, LitMap, the explicit-stack machine of "
                "Renumber::transfer with its middle-of-the-stack cycle test, initialize with its latch check, renumber_aig, "
                "Aig::from(OrderedAig)): for every graph and all 8 option combinations a successful result has inputs, latches, "
                "gates numbered consecutively, every gate's inputs below the gate with the larger first, max_var_index = "
                "I+L+gates (step invariant of the machine); whenever a circuit is returned, every output, next-state, bad, "
                "constraint, justice, fairness literal and every lit_map entry has the same value before and after under every "
                "assignment (semantic step invariant: map, structural-hash index and stack frames sound; const-fold cases x&0, "
                "x&1, x&x; evaluation of the result through the same eval function on Aig::from(ordered); no well-formedness "
                "hypothesis: a returned circuit implies that no variable is defined twice); LitAlreadyDefined l is returned "
                "exactly when l is the first literal, in the order constant / inputs / gate outputs / latch states, whose "
                "variable was defined before (so every double definition, latch states included, in either polarity, is "
                "rejected with the right literal); LitNotDefined / FoundCycle each imply the corresponding defect; unwrap never "
                "panics; the loop terminates on every graph of any depth, cyclic or not (the stack literals form an orbit of a "
                "function of the current map, every push passed the middle-of-the-stack test, so the stack stays below "
                "4*gates+2 frames; a potential bounds the steps; at most 7 steps per gate on acyclic graphs). The model is tied "
                "to the code by the rn stream (random, adversarial and 2000-deep graphs, debug and release) and an "
                "implementation-only oracle (order checks, exhaustive truth tables up to 6 variables, 64-bit parallel "
                "simulation above, independent first-clash / cycle / undefined detector).",
        "design_ref": "DESIGN.md 2/C12",
        "note": "Trusted: Coq kernel; std++ gmap (axiom-free); extraction; hand model of aig.rs with hash maps as finite maps and "
                "usize codes as unbounded N, validated differentially each run; for the narrower literal types the truncating from_code cast is "
                "proved unreachable on every run that returns a circuit (C12_result_codes_fit_the_literal_type). Defect D10 (latch state clash not reported, "
                "constant-false output renumbered to a latch) was found by this check and fixed in /repo (3b322e7).",
        "technique": "Coq proof (step invariants of the stack machine, orbit/pigeonhole argument and potential for termination) + "
                     "model/implementation correspondence",
    },
    "C16": {
        "text": "Coq theorems (Props/C16.v) about the four scanners as parser programs: on every view (every stream, cursor and "
                "buffering state) every admissible run returns exactly the documented offset, leaves cursor/mark/stream untouched, "
                "and the highest offset it asks for is the minimal one (first non-blank; one byte, two after CR; the LF; first "
                "mismatch and never beyond the pattern; nothing for the empty pattern). Proved by induction on the input, no size "
                "bound. The programs are tied to text.rs by the tx correspondence stream (complete small scope, one byte per read, "
                "buffered-byte counts compared) in debug and release builds.",
        "design_ref": "DESIGN.md 2/C16",
        "note": "Trusted: Coq kernel; extraction; hand transcription of text.rs into Text.v (validated differentially, exhaustively "
                "for short inputs); fuel parameters exceed the input length.",
        "technique": "Coq proof (induction over the input on an abstract reader view) + exhaustive small-scope correspondence",
    },
    "C13": {
        "text": "Coq theorems (Props/C13.v): the SWAR kernel returns value and length of the leading digit run for every 64-bit word "
                "(lane-decomposition proof, no enumeration of words); the simple scanners return the offset just past the longest "
                "digit run and Some v exactly when the run's value v is representable (accumulator invariant over the overflow flag, "
                "all 12 modelled types, both signs, lone '-' not consumed); the multi variants return the same (value, offset) for "
                "every admissible answer to the buf_len question, including 7/8/9 digits, continuation overflow and MIN of signed "
                "types. The programs are tied to text.rs by the tx correspondence stream (fast and cold paths, debug and release) and "
                "an implementation-only big-decimal oracle.",
        "design_ref": "DESIGN.md 2/C13",
        "note": "Trusted: Coq kernel; extraction; transcription of text.rs (incl. the bit-twiddling constants) into Text.v, validated "
                "differentially; num_traits semantics as modelled; i128/u128 included, isize/usize as 64-bit.",
        "technique": "Coq proof (bit-lane decomposition, loop invariant, all admissible buffering answers) + model/implementation correspondence",
    },
    "C01": {
        "text": "Coq theorems (Props/C01.v): a simulation theorem proved once by induction over parser programs — every concrete run "
                "of any program on the DeferredReader model, under every read schedule (short reads, Interrupted), every chunk size >= 1 "
                "and BufReader leftovers, is an admissible abstract run on the stream its source delivers; hence every program whose "
                "abstract runs agree returns the same result however the bytes arrive (instance proved for the SWAR scanner, whose "
                "fast/cold choice depends on buffering). For the whole DIMACS cnf/wcnf/gcnf parsers and the solver-log parser this is "
                "now an end-to-end theorem: all admissible runs agree (PDet, CnfProofs.v) and every admissible run finishes normally "
                "(Hoare-style safety pass, CnfSafe.v), so for every honest source, schedule, chunk size and BufReader leftover the "
                "concrete run returns the value of the simple run on the delivered stream (C01_dimacs_any_chunking, "
                "C01_log_any_chunking, two-sources corollaries). The programs are tied to the code by running the extracted programs and "
                "the real parsers on the same re-chunked inputs (items, error location, read calls). The same end-to-end theorem is "
                "proved for the AIGER ascii and binary parsers and the BTOR2 parser (PDet_parse_aag/aig/btor2 incl. the BTOR2 keyword "
                "scanner's 8-byte fast path = its cold path; AigerSafe.v, Btor2Safe.v): all seven parsers of the crate are programs "
                "of the model and each returns, for every way the bytes arrive, the value of the simple run on the delivered stream. "
                "An implementation-only one-shot-vs-rechunked oracle runs as well.",
        "design_ref": "DESIGN.md 2/C01",
        "note": "Trusted: Coq kernel; extraction; hand transcription of text.rs/token.rs/cnf.rs/wcnf.rs/gcnf.rs/sat_solver_log.rs into "
                "parser programs, likewise aiger/{token,ascii,binary}.rs and btor2/{token,parser,btor2}.rs (validated differentially); Read contract.",
        "technique": "Coq proof (simulation by induction on programs over the reader invariant) + model/implementation correspondence + oracle",
    },
    "C14": {
        "text": "Coq theorems (Props/C14.v): in the reader and writer models every unsafe access is a checked operation yielding UB when "
                "outside the Vec length/capacity; proved: no history over the safe API produces it — including advance/advance_with_buf "
                "beyond the window with the panic caught and the history continued, sources that claim more bytes than their slice (the "
                "load-bearing assert), every sink — and after any history the exposed slice has the buffered length and is the "
                "delivered-unconsumed data. The decimal text of every integer fits the MAX_LEN bytes reserved before the raw-pointer "
                "write. Model tied to the code by the rd/wr/tx streams with caught panics (debug assertions on) and release builds. "
                "Supporting dynamic check (thorough tier, not a proof): a sample of the same reader / writer / scanner histories runs on "
                "the real code under Miri, which reports real undefined behaviour (e.g. the out-of-bounds raw load of a seeded guard "
                "change); none is reported on the unchanged tree.",
        "design_ref": "DESIGN.md 2/C14",
        "note": "Trusted: as C02/C11. Partial: the theorem is about index arithmetic relative to the modelled allocation; real memory "
                "effects, aliasing rules and Vec internals are outside the model. Defects D3, D16 and D17 (buf_write_ptr length overflow) were found by this check and fixed.",
        "technique": "Coq proof (safety invariant over histories with caught panics) + model/implementation correspondence",
    },
    "C10": {
        "text": "Coq theorem (Props/C10.v): for every history whose chunk size stays <= C and whose window (look-ahead for one item) "
                "stays <= W, the reader's buffer never exceeds 3C + W bytes, independent of the number of bytes consumed (induction over "
                "histories, using the realign threshold); the look-ahead window of a DIMACS next_clause call is bounded by the item it "
                "consumes; and (ProgBuf.v, CnfBuf.v) an instrumented run that records the largest buffer at every reader state of a "
                "parser program's execution — every refill iteration included — stays <= 4*chunk + W when all peek offsets are < W, with "
                "the precondition re-established at the end (so it composes over any number of calls); for a whole DIMACS parse of an "
                "input whose items span <= n bytes and whose lines are <= L long the buffer never exceeds 4c + n + L + 1, however long "
                "the input; likewise a whole BTOR2 parse and a whole solver-log parse, ASCII AIGER entry readers, and the binary and-gate "
                "section (4c + 16 for any number of gates) (Buf2.v). The link to real heap use (Vec capacity, allocator, the parsers' "
                "own per-item buffers) is measured: cnf and btor2 inputs generated on the "
                "fly are streamed under a counting allocator and the peak live heap is compared with 8*chunk + 16*item + 64 KiB.",
        "design_ref": "DESIGN.md 2/C10",
        "note": "Trusted: as C02. Partial: Vec growth policy, shrink_to_fit and allocator overhead are runtime behaviour (measured); the "
                "parsers' per-item buffers are measured, not modelled.",
        "technique": "Coq proof (buffer-size invariant over histories) + measured streaming memory",
    },
    "C04": {
        "text": "Coq theorems (Props/C04.v): reader level — a parked error survives every operation but check_io_error, which hands it "
                "out once (invariant over all histories), and concrete runs are admissible abstract runs (simulation); parser level — "
                "every syntax error of the LineReader programs is generated by give_up/give_up_at/give_up_at_mark, each proved to report "
                "the parked error instead of a location; token::eof provably refuses a failing stream; the first empty peek parks the "
                "error; and (srun_prefix, induction over programs) any result computed without seeing the end of the delivered data is "
                "the result on every continuation, so items before the failure equal the unfailing items. End to end for the DIMACS "
                "family and solver logs (CnfSafe.v, every admissible run): a failing source never yields the clean end; the final result "
                "is the source's error, or a syntax error found before the end of the delivered data was seen, which is then reported on "
                "every continuation of the data; a non-failing source never yields an I/O error. The same end-to-end theorems hold for the "
                "AIGER ascii/binary parsers (incl. the acceptors that bypass eof: remaining line / file content) and the BTOR2 parser, "
                "where additionally every line handed out before the error ended at a line break (no truncated item). And the property's last "
                "sentence (FailPrefix*.v): for the cnf/wcnf/gcnf, AIGER ascii/binary and BTOR2 parsers the items handed out on a failing "
                "source are a prefix of the items handed out on the same data with a clean end (both runs arbitrary admissible runs), "
                "and a header handed out is the same header.",
        "design_ref": "DESIGN.md 2/C04",
        "note": "Trusted: as C01/C02. Defects D6, D8, D11, D12 (I/O error lost) were found by this check and fixed in /repo.",
        "technique": "Coq proof (reader invariant, determinism of give-up programs, prefix monotonicity by induction on programs) + "
                     "model/implementation correspondence + fault-injection oracle",
    },
    "C09": {
        "text": "Coq theorems (Props/C09.v): for every reachable reader state a refill adds exactly one successful read() call (after the "
                "Interrupted ones), none when complete or when BufReader leftovers remain; no operation calls the source after its "
                "terminal event; a satisfied request/peek leaves the reader untouched; the newline and next_newline scanners ask for "
                "no offset beyond the line break (minimal look-ahead, by induction on the input). Per item, for the DIMACS family "
                "(Look.v/LookProofs.v, every admissible run of Parser::new and next_clause from every invariant state): when an item is "
                "returned the cursor sits just behind its line break and nothing beyond the cursor was requested (or the input ended "
                "and only the request that found the end went beyond); and at the concrete reader: over a source that hands out a "
                "line per read, everything delivered has been consumed when the item is returned (no read after the one that "
                "delivered the item's last line), for every chunk size; for any honest source a call whose requests were already "
                "delivered does not touch the source. The same per-item theorems for BTOR2 next_line (incl. the keyword scanner's fast and "
                "cold paths; a line with a comment leaves exactly its terminating LF requested but unconsumed) and for the ASCII AIGER "
                "header and every section entry reader (LookW.v, Btor2Look.v, AigerLook.v), for a binary AIGER and-gate (nothing beyond "
                "its last byte; AigLook.v) and for the solver log (line by line; whole parse consumes the log and requests at most the "
                "byte that discovers its end; LogLook.v). The AIGER comment section is by format the rest of the file. The "
                "one-line-per-read oracle and read-call counts against the model run on all formats as well.",
        "design_ref": "DESIGN.md 2/C09",
        "note": "Trusted: as C02/C16.",
        "technique": "Coq proof (call-count invariant over histories; minimal look-ahead of scanners) + model/implementation "
                     "correspondence + line-by-line oracle",
    },
    "C05": {
        "text": "Coq theorems (Props/C05.v): the refill loop terminates for every source; no history over the reader API yields "
                "undefined behaviour, an index/overflow/assert panic or non-termination; advance panics exactly when asked to pass the "
                "buffered data; digit accumulation returns None instead of wrapping for every admissible run; binary_uint rejects more "
                "than 8 groups; AIG renumbering terminates on every graph (cyclic or not, any depth) and never panics. End to end for "
                "the DIMACS family and solver logs (Hoare logic over the parser-program semantics, CnfSafe.v): for every byte string and "
                "every terminal event every admissible run ends with a value — never an advance beyond the scanned offsets, never the "
                "column-subtraction underflow or any other panic, every loop makes progress — hence every concrete run is CDone; the "
                "same for the AIGER ascii/binary and BTOR2 parsers (AigerSafe.v, Btor2Safe.v). The pre-allocation sizes of the AIGER whole-file parsers are regenerated from "
                "the source on every run (translator section prealloc, which also enumerates every size-driven allocation site of the four "
                "crates and refuses unknown ones) and proved bounded by a constant for every header (Prealloc.v). PARTIAL: heap growth "
                "and stack are runtime behaviour, measured by the safe oracle (debug assertions and overflow checks "
                "on, counting allocator, time limit, hostile declared counts per section), not modelled.",
        "design_ref": "DESIGN.md 2/C05",
        "note": "Trusted: as C02/C12/C13. Defects D4, D5, D7 (overflow, unbounded pre-allocation) were found by this check and fixed.",
        "technique": "Coq proof (termination measures, safety invariants, pre-allocation bound over sizes translated from the source) + model/implementation correspondence + resource-measuring oracle",
    },
    "C06": {
        "text": "Coq theorems (Props/C06.v): every admissible run of the unsigned and signed scanner programs returns exactly the "
                "decimal value of the digit run when it fits the type and None otherwise (never a wrapped or truncated value), with the "
                "offset just past the run; 7-bit groups decode to the encoded number; MAX_DIMACS of every literal type (regenerated "
                "from the source) fits the type, so the cast after the range check is lossless. Token level, every admissible run from "
                "every state satisfying the parsers' invariant: number tokens return Ok z only for the exact decimal value within "
                "the type; var_count, clause_group, the clause-literal and value-line loops return Ok only within the limit in force. "
                "PARTIAL: clause-count / clean-end gating and AIGER limits are validated by the limits oracle (every limit at "
                "-1/0/+1, all formats) and the pa stream — for the DIMACS family and solver logs these are now end-to-end theorems too "
                "(CnfLimits.v): for every item ever handed out, literals non-zero and within the declared variable count (or the "
                "type limit when 0 / no header / ignore_header), groups within the declared group count, weights within u64, at most the "
                "declared number of clauses, and the clean end only with exactly that number. AIGER (AigerLimits.v): an accepted file has "
                "M <= (MAX_CODE-1)/2, I+L+A <= M, section sizes equal to the header counts, literals <= 2M+1, defining literals even and "
                "non-zero, binary deltas within the reference code; BTOR2: every line handed out is in the format's domain.",
        "design_ref": "DESIGN.md 2/C06",
        "note": "Trusted: as C13; translator for MAX_DIMACS / MAX_CODE.",
        "technique": "Coq proof (exactness of scanners for all admissible runs) + translator-generated constants + limit oracle",
    },
    "C07": {
        "text": "Coq theorems (Props/C07.v): lexical layout facts every token relies on — blank runs of any length are skipped as a whole, "
                "LF and CRLF are one line break each, leading zeros do not change a numeral, '-0' reads as 0, a numeral's reading does "
                "not depend on the non-digit that follows. Whole parsers (Layout*.v): a rendering function with the layout as explicit "
                "data (blank runs, LF/CRLF per line end, comment/blank filler lines before the header, between clauses and inside a "
                "clause, leading zeros, 0 or -0, missing final newline); for every document in the format's domain and every "
                "well-formed layout every admissible run of the cnf/wcnf/gcnf parser returns exactly the document and a clean end, hence "
                "any two layouts parse alike, for every source, schedule and chunk size; likewise the solver log over line lists "
                "(value lines split arbitrarily, comments and — when ignored — unknown lines anywhere). The expectation oracle with "
                "random layouts and the pa stream (model = code) run as well.",
        "design_ref": "DESIGN.md 2/C07",
        "note": "Trusted: as C16/C13.",
        "technique": "Coq proof (scanner specifications by induction on the input) + model/implementation correspondence + layout oracle",
    },
    "C08": {
        "text": "Coq theorems (Props/C08.v): give_up/give_up_at/give_up_at_mark are deterministic programs whose syntax error is "
                "(current line, position - line start + 1); line_at_offset counts one line and moves the line start to cursor + "
                "offset. End to end for the DIMACS family and solver logs (CnfSafe.v, every admissible run): every reported (line, "
                "column) satisfies loc_ok — a genuine line start (0 or just after an LF) whose number is 1 + the LF bytes before it, "
                "no LF between it and the reported position, position within the input, column = position - line start + 1 — with one "
                "documented exception inside the property's bounds (a last comment line without LF counts as a line; witness pinned). "
                "'On the offending token' is checked by the corruption oracle (decorated layouts) on all formats. ASCII AIGER, binary "
                "AIGER and BTOR2: every reported (line, column) satisfies loc_ok and is exactly line_col_of S pos for a position of the "
                "input (no exception); for binary AIGER every byte 10 of the file is a line break, also one that ends a delta code of "
                "the and-gate section (C08_aig_error_location, C08_aig_error_position; corruption cases behind and-gate sections with "
                "0x0A bytes).",
        "design_ref": "DESIGN.md 2/C08",
        "note": "Trusted: as C01. Defects D2 (BTOR2 mark), D11 (AIGER line accounting) and D15 (the former known finding K1: binary "
                "AIGER did not count a byte 0x0A that ends a delta code of the and-gate section as a line break; fixed by 530b52f, "
                "replay in corpus/pa_fixed.cases) were found by this check and fixed.",
        "technique": "Coq proof (LineReader primitives) + model/implementation correspondence + location oracle",
    },
    "C03": {
        "text": "Coq theorems (Props/C03.v): for every integer and every type it fits, the text the writer produces is read back as "
                "that integer with the offset just behind it by every admissible run of the scanner programs, whatever non-digit "
                "follows; write_binary_uint/binary_uint round trip for every delta below 2^56; the BTOR2 writer's operator names are "
                "the parser's keywords (table regenerated from the source on every run). BTOR2 whole documents: the parser program run on "
                "the bytes the writer function produces returns exactly the lines and a clean end, for every list of lines in the format's "
                "domain (all node kinds, symbols, comments; Btor2Rt.v), parser program and writer function being tied to the code by the "
                "pa stream (every field of every line, the bytes write_into produces, the constants' validating constructors). DIMACS family "
                "(Layout.v, LayoutProofs.v): the crate's writer as a function (header formats regenerated from the source) is the "
                "plain-layout rendering, and every admissible/concrete parse of its output returns exactly the document, for every "
                "document in the domain (strict header unless ignore_header; witness pinned). AIGER (AigerWrite.v, AigerRt.v, RtAll.v): "
                "write_aag / write_aig followed by the parser returns the circuit, every admissible and concrete run, incl. header "
                "elision, latch reset forms, symbols, comment, M up to 2^63-1. The converse (Converse*.v): every text a parser accepts "
                "yields a value in the format's domain, so writing it and parsing again gives the same value, for BTOR2, the DIMACS "
                "family, ASCII and binary AIGER. All writer functions are tied to the code by the pa stream (bytes written by the crate "
                "vs. by the function, flags x / w); the rt and expectation oracles run on the implementation as well.",
        "design_ref": "DESIGN.md 2/C03",
        "note": "Trusted: as C11/C13; translator for the BTOR2 table. Defect D9 (DecimalConst) was found by this check and fixed.",
        "technique": "Coq proof (number-level round trips) + translator-generated table + round-trip oracle",
    },
}
