(* AigerProofs.v — the AIGER parser programs (ascii and binary) are answer-insensitive: every
   admissible abstract run of a parse, whatever the fast-path tests of the number scanner answer,
   yields the same items and the same final outcome.  With Simulation.v this is C01 for aag / aig.
   Second part: the byte-by-byte varint reader of token::binary_uint agrees with Varint.varint_decode.
   Third part: Header::parse reads the header fields in the order M I L O A B C J F (run on the text of
   a header it returns exactly the fields that were written, in both the 9-field and the 5-field form). *)
From Flussab Require Import Base Reader Writer Parsed Prog Text TextSpec ProgProofs ScanProofs DigitsProofs DecimalProofs Consts Cnf CnfProofs.
From Flussab Require Import ListN Varint Aiger.
Ltac Zify.zify_post_hook ::= Z.to_euclidean_division_equations.

Section Det.
Variable fuel : nat.

Local Notation PDet := (PDet fuel).

Ltac pdet_leaf :=
  first
    [ apply PDet_pret
    | apply PDet_lift_det; first [ apply det_tabs_or_spaces | apply det_newline | apply det_next_newline
                                 | apply det_fixed_from | (cbn [det]; intros; exact I) ]
    | (apply PDet_det; intros ?; cbn [det]; intros; exact I) ].

Hint Resolve PDet_ppeek PDet_padvance PDet_pset_mark PDet_get_lrs PDet_set_lrs @PDet_pcrash @PDet_pnofuel
  PDet_line_at_offset PDet_give_up_at PDet_give_up PDet_give_up_at_mark PDet_tfixed PDet_teof PDet_unexpected : pdet.

Ltac pdet :=
  repeat first
    [ progress intros
    | solve [auto with pdet nocore]
    | pdet_leaf
    | apply PDet_pbnd
    | match goal with
      | |- PDet (match ?x with _ => _ end) => destruct x
      | |- PDet (if ?x then _ else _) => destruct x
      | |- PDet (let '(_, _) := ?x in _) => destruct x
      end ].

Ltac pd := repeat first [ solve [auto with pdet] | pdet ].

Lemma PDet_rbnd {A B} (m : PM (result A perr)) (f : A -> PM (result B perr)) :
  PDet m -> (forall a, PDet (f a)) -> PDet (rbnd m f).
Proof. intros Hm Hf. unfold rbnd. apply PDet_pbnd; [exact Hm|]. intros [a|e]; [apply Hf|pd]. Qed.

Lemma PDet_fail_with {A} (err : PM perr) : PDet err -> PDet (@fail_with A err).
Proof. intros H. unfold fail_with. pd. Qed.

Lemma PDet_add_lines n : PDet (add_lines n).
Proof. unfold add_lines. pd. Qed.
Hint Resolve PDet_add_lines : pdet.

Ltac pr := repeat first [ solve [auto with pdet] | apply PDet_rbnd | apply PDet_fail_with | pdet ].

(* ---------- tokens ---------- *)
Lemma PDet_fixed_not_eol pat : PDet (fixed_not_eol pat).
Proof. unfold fixed_not_eol, tok_ft, tok_ok. pd. Qed.
Lemma PDet_space : PDet space.
Proof. unfold space, tok_ft, tok_ok. pd. Qed.
Lemma PDet_anewline : PDet anewline.
Proof. unfold anewline, tok_ft, tok_ok. pd. Qed.
Hint Resolve PDet_fixed_not_eol PDet_space PDet_anewline : pdet.

Lemma PDet_required_space : PDet required_space.
Proof. unfold required_space. apply PDet_or_unexpected. pd. Qed.
Lemma PDet_required_newline : PDet required_newline.
Proof. unfold required_newline. apply PDet_or_unexpected. pd. Qed.
Lemma PDet_required_newline_or_space : PDet required_newline_or_space.
Proof. unfold required_newline_or_space. pr. Qed.
Hint Resolve PDet_required_space PDet_required_newline PDet_required_newline_or_space : pdet.

(* the one token with a fast path: its scanner is ascii_digits_multi *)
Lemma PDet_uint : PDet (uint fuel).
Proof.
  unfold uint. apply PDet_pbnd; [apply PDet_lift; apply CoreDet_multi|]. intros [value offset]. pd.
Qed.
Hint Resolve PDet_uint : pdet.

Lemma PDet_located_uint : PDet (located (uint fuel) give_up_at_mark).
Proof. apply PDet_located; pd. Qed.
Hint Resolve PDet_located_uint : pdet.

Lemma PDet_header_field limit : PDet (header_field fuel limit).
Proof. unfold header_field. pr. Qed.
Lemma PDet_symbol_index limit : PDet (symbol_index fuel limit).
Proof. unfold symbol_index. apply PDet_header_field. Qed.
Lemma PDet_lit limit assigning : PDet (lit fuel limit assigning).
Proof. unfold lit. pr. Qed.
Hint Resolve PDet_header_field PDet_symbol_index PDet_lit : pdet.

Lemma PDet_varint_scan n : forall byte_len acc, PDet (varint_scan n byte_len acc).
Proof. induction n as [|n IH]; intros byte_len acc; cbn [varint_scan]; pr. Qed.
Hint Resolve PDet_varint_scan : pdet.

Lemma PDet_binary_uint : PDet binary_uint.
Proof. unfold binary_uint. pr. Qed.
Hint Resolve PDet_binary_uint : pdet.

Lemma PDet_delta_code code : PDet (delta_code code).
Proof. unfold delta_code. pr. Qed.
Hint Resolve PDet_delta_code : pdet.

Lemma PDet_line_scan n : forall offset acc, PDet (line_scan n offset acc).
Proof. induction n as [|n IH]; intros offset acc; cbn [line_scan]; pd. Qed.
Hint Resolve PDet_line_scan : pdet.

Lemma PDet_remaining_line_content : PDet (remaining_line_content fuel).
Proof. unfold remaining_line_content. pr. Qed.
Hint Resolve PDet_remaining_line_content : pdet.

Lemma PDet_read_all n : forall k acc, PDet (read_all n k acc).
Proof. induction n as [|n IH]; intros k acc; cbn [read_all]; pd. Qed.
Hint Resolve PDet_read_all : pdet.

Lemma PDet_bad_file_content content v : PDet (bad_file_content content v).
Proof. unfold bad_file_content. pr. Qed.
Hint Resolve PDet_bad_file_content : pdet.

Lemma PDet_remaining_file_content : PDet (remaining_file_content fuel).
Proof. unfold remaining_file_content. pr. Qed.
Hint Resolve PDet_remaining_file_content : pdet.

(* ---------- header ---------- *)
Lemma PDet_parse_aheader magic maxc : PDet (parse_aheader fuel magic maxc).
Proof.
  unfold parse_aheader.
  apply PDet_rbnd; [apply PDet_or_unexpected; pd|]. intros _.
  pr.
Qed.
Hint Resolve PDet_parse_aheader : pdet.

(* ---------- sections ---------- *)
Lemma PDet_sloop {St : Type} (it : St -> PM (result (item * St) perr)) :
  (forall st, PDet (it st)) -> forall n left st acc, PDet (sloop n it left st acc).
Proof.
  intros Hit. induction n as [|n IH]; intros left st acc; cbn [sloop]; destruct (left =? 0); pd.
Qed.

Lemma PDet_sect {St : Type} (m : PM (list item * St * option perr)) (k : St -> PM (list item * final)) :
  PDet m -> (forall st, PDet (k st)) -> PDet (sect m k).
Proof.
  intros Hm Hk. unfold sect. apply PDet_pbnd; [exact Hm|]. intros [[items st] [err|]]; [pd|].
  apply PDet_pbnd; [apply Hk|]. pd.
Qed.

Lemma PDet_lit_line {St : Type} maxc max_lit assigning mk (st : St) : PDet (lit_line fuel maxc max_lit assigning mk st).
Proof. unfold lit_line. pr. Qed.
Lemma PDet_justice_size total : PDet (justice_size fuel total).
Proof. unfold justice_size. pr. Qed.
Lemma PDet_latch_init max_lit code : PDet (latch_init fuel max_lit code).
Proof. unfold latch_init. pr. Qed.
Hint Resolve @PDet_lit_line PDet_justice_size PDet_latch_init : pdet.

Lemma PDet_aag_latch maxc max_lit st : PDet (aag_latch fuel maxc max_lit st).
Proof. unfold aag_latch. pr. Qed.
Lemma PDet_aag_and maxc max_lit st : PDet (aag_and fuel maxc max_lit st).
Proof. unfold aag_and. pr. Qed.
Lemma PDet_code_plus_2 {A} code (k : N -> PM A) : (forall c, PDet (k c)) -> PDet (code_plus_2 code k).
Proof. intros H. unfold code_plus_2. apply H. Qed.
Lemma PDet_aig_latch maxc max_lit code : PDet (aig_latch fuel maxc max_lit code).
Proof.
  unfold aig_latch. apply PDet_rbnd; [pd|]. intros next. apply PDet_rbnd; [pd|]. intros init.
  apply PDet_code_plus_2. pd.
Qed.
Lemma PDet_aig_and maxc code : PDet (aig_and maxc code).
Proof.
  unfold aig_and. apply PDet_rbnd; [pd|]. intros in0. apply PDet_rbnd; [pd|]. intros in1.
  apply PDet_code_plus_2. pd.
Qed.
Hint Resolve PDet_aag_latch PDet_aag_and PDet_aig_latch PDet_aig_and : pdet.

(* ---------- symbols and comment ---------- *)
Lemma PDet_sym_try count letter not_eol k : PDet (sym_try fuel count letter not_eol k).
Proof. unfold sym_try, tok_err, tok_ft. pd. Qed.
Hint Resolve PDet_sym_try : pdet.

Lemma PDet_or_parse_tok {A} (a b : tok A) : PDet a -> PDet b -> PDet (or_parse_tok a b).
Proof. intros Ha Hb. unfold or_parse_tok. pd. Qed.

Lemma PDet_symbol_target h : PDet (symbol_target fuel h).
Proof. unfold symbol_target. repeat (apply PDet_or_parse_tok; [pd|]). pd. Qed.
Hint Resolve PDet_symbol_target : pdet.

Lemma PDet_next_symbol h : PDet (next_symbol fuel h).
Proof. unfold next_symbol. pr. Qed.
Hint Resolve PDet_next_symbol : pdet.

Lemma PDet_symbols_loop n : forall h acc, PDet (symbols_loop fuel n h acc).
Proof. induction n as [|n IH]; intros h acc; cbn [symbols_loop]; pd. Qed.
Hint Resolve PDet_symbols_loop : pdet.

Lemma PDet_comment_section h : PDet (comment_section fuel h).
Proof.
  unfold comment_section. apply PDet_pbnd; [pd|]. intros [[items u] [err|]]; [pd|].
  apply PDet_pbnd; [pd|]. intros [[_|err]|]; [|pd|].
  - apply PDet_pbnd; [pr|]. pd.
  - apply PDet_pbnd; [apply PDet_or_unexpected; pd|]. pd.
Qed.
Hint Resolve PDet_comment_section : pdet.

(* ---------- the two parsers ---------- *)
Lemma PDet_finish_parse h body : (forall hd, PDet (body hd)) -> PDet (finish_parse h body).
Proof. intros H. unfold finish_parse. destruct h as [hd|e]; [|pd]. apply PDet_pbnd; [apply H|]. pd. Qed.

Lemma PDet_middle_sections {St : Type} maxc max_lit h (st : St) k :
  (forall st', PDet (k st')) -> PDet (middle_sections fuel maxc max_lit h st k).
Proof.
  intros Hk. unfold middle_sections.
  repeat (apply PDet_sect; [apply PDet_sloop; intros; pd|]; intros).
  apply Hk.
Qed.

(* C01 for ascii AIGER: the whole parse is answer-insensitive *)
Theorem PDet_parse_aag maxc : PDet (parse_aag fuel maxc).
Proof.
  unfold parse_aag. apply PDet_pbnd; [pd|]. intros h. apply PDet_finish_parse. intros hd.
  apply PDet_sect; [apply PDet_sloop; intros; pd|]. intros st.
  apply PDet_sect; [apply PDet_sloop; intros; pd|]. intros st1.
  apply PDet_middle_sections. intros st2.
  apply PDet_sect; [apply PDet_sloop; intros; pd|]. intros _.
  apply PDet_sect; [pd|]. intros _. pd.
Qed.

(* C01 for binary AIGER *)
Theorem PDet_parse_aig maxc : PDet (parse_aig fuel maxc).
Proof.
  unfold parse_aig. apply PDet_pbnd; [pd|]. intros h. apply PDet_finish_parse. intros hd.
  apply PDet_sect; [apply PDet_sloop; intros; pd|]. intros code.
  apply PDet_middle_sections. intros code1.
  apply PDet_sect; [apply PDet_sloop; intros; pd|]. intros _.
  apply PDet_sect; [pd|]. intros _. pd.
Qed.

End Det.

(* ================================================================== *)
(* token::binary_uint, run on a view, decodes exactly what Varint.varint_decode decodes from the
   bytes at the cursor, consumes exactly the bytes of that group encoding, and fails on exactly the
   inputs on which varint_decode fails. *)

Lemma srun_pbind {A B} (p : prog A) (f : A -> prog B) : forall v,
  srun (pbind p f) v =
  match srun p v with
  | ADone a v' => srun (f a) v'
  | APanic k => APanic k
  | AStuck => AStuck
  | AFuel => AFuel
  end.
Proof.
  induction p as [a|k c IH|n c IH|off c IH|c IH|c IH|c IH|c IH|c IH|c IH|k|]; intros v; cbn [pbind srun]; auto.
  destruct (vcur v + n <=? vhwm v); auto.
Qed.

Lemma srun_fail_with_not_ok {A} (err : PM perr) lr v (x : A) lr' v' :
  srun (fail_with err lr) v <> ADone (Ok x, lr') v'.
Proof.
  unfold fail_with, pbnd. rewrite srun_pbind.
  destruct (srun (err lr) v) as [[e s'] w| | |]; cbn [srun pret]; congruence.
Qed.

(* the value of a group encoding, low group first *)
Fixpoint group_value (l : bytes) : N :=
  match l with
  | [] => 0
  | b :: r => b mod 128 + 128 * group_value r
  end.

(* the second loop of binary_uint, without its overflow test *)
Definition rv_step (a : N) (b : byte) : N := a * 128 + b mod 128.
Definition rv (l : bytes) (value : N) : N := fold_left rv_step l value.

Lemma rv_rev grp : rv (rev grp) 0 = group_value grp.
Proof.
  induction grp as [|b r IH]; [reflexivity|].
  cbn [rev group_value]. unfold rv in *. rewrite fold_left_app. cbn [fold_left]. rewrite IH. unfold rv_step. lia.
Qed.

Lemma land_127 b : N.land b 127 = b mod 128.
Proof. change 127 with (N.ones 7). rewrite N.land_ones. reflexivity. Qed.

Lemma land_shifted_low x y : y < 128 -> N.land (x * 128) y = 0.
Proof.
  intros Hy. apply N.bits_inj. intros i. rewrite N.land_spec, N.bits_0.
  change 128 with (2 ^ 7). rewrite <- N.shiftl_mul_pow2.
  destruct (N.lt_ge_cases i 7) as [Hi|Hi].
  - rewrite N.shiftl_spec_low by exact Hi. reflexivity.
  - destruct (N.eq_dec y 0) as [->|Hy0]; [rewrite N.bits_0; apply andb_false_r|].
    rewrite (N.bits_above_log2 y i); [apply andb_false_r|].
    assert (N.log2 y < 7) by (apply N.log2_lt_pow2; [lia|exact Hy]). lia.
Qed.

Lemma lor_shifted_low x y : y < 128 -> N.lor (x * 128) y = x * 128 + y.
Proof.
  intros Hy. pose proof (land_shifted_low x y Hy) as H0.
  rewrite (N.add_nocarry_lxor _ _ H0). symmetry. apply N.lxor_lor. exact H0.
Qed.

(* with at most 8 groups the overflow test of the second loop never fires *)
Lemma varint_value_rv l : forall value bnd,
  value < bnd -> bnd * 128 ^ N.of_nat (length l) <= W64 -> varint_value l value = Some (rv l value).
Proof.
  induction l as [|b r IH]; intros value bnd Hv Hb; [reflexivity|].
  cbn [varint_value]. unfold rv. cbn [fold_left]. fold (rv r (rv_step value b)).
  cbn [length] in Hb. replace (N.of_nat (S (length r))) with (N.succ (N.of_nat (length r))) in Hb by lia.
  rewrite N.pow_succ_r' in Hb.
  assert (Hp : 1 <= 128 ^ N.of_nat (length r)).
  { pose proof (N.pow_nonzero 128 (N.of_nat (length r))). lia. }
  assert (Hsmall : value * 128 < W64) by nia.
  rewrite (N.mod_small _ _ Hsmall).
  assert ((value * 128 / 128 =? value) = true) as -> by (apply N.eqb_eq; apply N.div_mul; lia).
  rewrite land_127, lor_shifted_low by (apply N.mod_lt; lia).
  apply (IH (rv_step value b) (bnd * 128)); [unfold rv_step; pose proof (N.mod_lt b 128); lia|lia].
Qed.

Fixpoint below256 (n : nat) : list N :=
  match n with O => [] | S k => N.of_nat k :: below256 k end.
Lemma below256_in n : forall b, b < N.of_nat n -> In b (below256 n).
Proof.
  induction n as [|k IH]; intros b Hb; [lia|]. cbn [below256].
  destruct (N.eq_dec b (N.of_nat k)) as [->|Hne]; [left; reflexivity|right; apply IH; lia].
Qed.
Lemma high_bit_test b : b < 256 -> (N.land b 128 =? 0) = (b <? 128).
Proof.
  intros Hb.
  assert (Hall : forallb (fun b => Bool.eqb (N.land b 128 =? 0) (b <? 128)) (below256 256) = true) by (vm_compute; reflexivity).
  rewrite forallb_forall in Hall. specialize (Hall b (below256_in 256 b Hb)). apply eqb_prop in Hall. exact Hall.
Qed.

(* the view after looking at (not consuming) some bytes *)
Definition looked (v v' : view) : Prop :=
  vS v' = vS v /\ vfail v' = vfail v /\ vcur v' = vcur v /\ vmark v' = vmark v /\ vtaken v' = vtaken v /\
  vhwm v <= vhwm v' /\ WFV v'.

Lemma looked_refl v : WFV v -> looked v v.
Proof. intros H. unfold looked. repeat split; auto. lia. Qed.

Lemma looked_peek v v0 k : looked v0 v -> looked v0 (after_peek v k).
Proof.
  intros (a1 & a2 & a3 & a4 & a5 & a6 & a7). unfold looked. cbn [after_peek vS vfail vcur vmark vtaken vhwm].
  repeat split; auto.
  - destruct (vpeek v k); [lia|]. unfold WFV in a7. lia.
  - apply WFV_after_peek. exact a7.
Qed.

Lemma rest_at_looked v0 v off : looked v0 v -> rest_at v off = rest_at v0 off.
Proof. intros (a1 & _ & a3 & _). unfold rest_at. rewrite a1, a3. reflexivity. Qed.

Lemma Forall_rest_at v off : BytesOK v -> Forall (fun b => b < 256) (rest_at v off).
Proof. intros H. unfold rest_at, nskipn. apply Forall_skipn. exact H. Qed.

(* the first loop against dec_groups *)
Lemma varint_scan_spec : forall n byte_len acc v lr,
  N.of_nat n + byte_len = 8 -> BytesOK v -> WFV v -> vcur v + byte_len <= vhwm v ->
  match dec_groups n (rest_at v byte_len) with
  | Some (val, rest') =>
      exists grp v',
        rest_at v byte_len = grp ++ rest' /\ val = group_value grp /\ (length grp <= n)%nat /\
        srun (varint_scan n byte_len acc lr) v = ADone (Ok (rev grp ++ acc), lr) v' /\
        looked v v' /\ vcur v + byte_len + nlen grp <= vhwm v'
  | None => forall x lr' v', srun (varint_scan n byte_len acc lr) v <> ADone (Ok x, lr') v'
  end.
Proof.
  induction n as [|n IH]; intros byte_len acc v lr Hn Hb Hw Hh.
  - cbn [dec_groups varint_scan]. intros x lr' v'. unfold pnofuel. cbn [srun]. discriminate.
  - cbn [dec_groups varint_scan]. unfold pbnd, ppeek, lift. cbn [pbind srun].
    pose proof (Forall_rest_at v byte_len Hb) as Hall.
    rewrite vpeek_rest. destruct (rest_at v byte_len) as [|b r] eqn:E.
    + intros x lr' v'. apply srun_fail_with_not_ok.
    + inversion Hall as [|b' r' Hb256 Hr]; subst.
      rewrite (high_bit_test b Hb256). destruct (b <? 128) eqn:Hlow.
      * apply N.ltb_lt in Hlow.
        exists [b], (after_peek v byte_len). cbn [app rev group_value length]. unfold pret. cbn [srun].
        split; [reflexivity|]. split; [rewrite (N.mod_small b 128 Hlow); lia|]. split; [lia|].
        split; [reflexivity|]. split; [apply looked_peek, looked_refl; exact Hw|].
        assert (Hp : vpeek v byte_len = Some b) by (rewrite vpeek_rest, E; reflexivity).
        cbn [after_peek vhwm]. rewrite Hp. change (nlen [b]) with 1. lia.
      * apply N.ltb_ge in Hlow.
        destruct (byte_len + 1 =? 8) eqn:H8.
        -- apply N.eqb_eq in H8. assert (n = O) by lia. subst n. cbn [dec_groups].
           intros x lr' v'. apply srun_fail_with_not_ok.
        -- apply N.eqb_neq in H8.
           assert (Hp : vpeek v byte_len = Some b) by (rewrite vpeek_rest, E; reflexivity).
           pose proof (looked_peek v v byte_len (looked_refl v Hw)) as Hlk.
           assert (Er : rest_at (after_peek v byte_len) (byte_len + 1) = r).
           { rewrite (rest_at_looked _ _ _ Hlk). eapply rest_at_succ; eauto. }
           assert (Hb' : BytesOK (after_peek v byte_len)) by exact Hb.
           assert (Hh' : vcur (after_peek v byte_len) + (byte_len + 1) <= vhwm (after_peek v byte_len)).
           { cbn [after_peek vhwm vcur]. rewrite Hp. lia. }
           specialize (IH (byte_len + 1) (b :: acc) (after_peek v byte_len) lr ltac:(lia) Hb' (WFV_after_peek v byte_len Hw) Hh').
           rewrite Er in IH. destruct (dec_groups n r) as [[val rest']|].
           ++ destruct IH as (grp & v' & I1 & I2 & I3 & I4 & I5 & I6).
              exists (b :: grp), v'. cbn [app rev group_value length]. rewrite <- app_assoc. cbn [app].
              split; [rewrite I1; reflexivity|]. split; [rewrite I2; lia|]. split; [lia|].
              split; [exact I4|]. split.
              ** destruct I5 as (a1 & a2 & a3 & a4 & a5 & a6 & a7). destruct Hlk as (b1 & b2 & b3 & b4 & b5 & b6 & b7).
                 unfold looked. cbn [after_peek vS vfail vcur vmark vtaken vhwm] in *.
                 split; [congruence|]. split; [congruence|]. split; [congruence|]. split; [congruence|].
                 split; [congruence|]. split; [lia|exact a7].
              ** change (vcur (after_peek v byte_len)) with (vcur v) in I6.
                 replace (nlen (b :: grp)) with (1 + nlen grp) by (unfold nlen; cbn [length]; lia). lia.
           ++ exact IH.
Qed.

Lemma hd_error_rev (l : bytes) : hd_error (rev l) = last_byte l.
Proof.
  induction l as [|b r IH]; [reflexivity|]. cbn [rev last_byte]. destruct r as [|c r']; [reflexivity|].
  rewrite <- IH. cbn [rev]. destruct (rev r' ++ [c]) eqn:E; [destruct (rev r'); discriminate|reflexivity].
Qed.

(* the flag returned with the value: whether the last byte of the group encoding is a line feed *)
Theorem binary_uint_decodes v lr :
  WFV v -> BytesOK v -> vcur v <= vhwm v ->      (* the cursor never passes what is buffered *)
  match varint_decode (rest_at v 0) with
  | Some (n, rest') =>
      exists grp v',
        srun (binary_uint lr) v = ADone (Ok (n, is_byte (last_byte grp) 10), lr) v' /\
        rest_at v 0 = grp ++ rest' /\ n = group_value grp /\
        vS v' = vS v /\ vcur v' = vcur v + nlen grp /\ rest_at v' 0 = rest' /\ vmark v' = vmark v
  | None => forall n lr' v', srun (binary_uint lr) v <> ADone (Ok n, lr') v'
  end.
Proof.
  intros Hw Hb Hcur. unfold varint_decode.
  pose proof (varint_scan_spec 8 0 [] v lr ltac:(reflexivity) Hb Hw ltac:(lia)) as H.
  unfold binary_uint, rbnd, pbnd.
  destruct (dec_groups 8 (rest_at v 0)) as [[val rest']|].
  - destruct H as (grp & v' & I1 & I2 & I3 & I4 & I5 & I6).
    rewrite app_nil_r in I4.
    assert (Hvv : varint_value (rev grp) 0 = Some val).
    { rewrite (varint_value_rv (rev grp) 0 1); [rewrite rv_rev, I2; reflexivity|lia|].
      rewrite rev_length. assert (128 ^ N.of_nat (length grp) <= 128 ^ 8) by (apply N.pow_le_mono_r; lia).
      change (128 ^ 8) with 72057594037927936 in H. unfold W64. lia. }
    exists grp, (v_advance v' (nlen grp)).
    rewrite srun_pbind, I4. rewrite Hvv. cbv zeta. rewrite hd_error_rev. unfold padvance, lift, pret. cbn [pbind srun].
    assert (Hlen : nlen (rev grp) = nlen grp) by (unfold nlen; rewrite rev_length; reflexivity).
    rewrite Hlen. destruct I5 as (a1 & a2 & a3 & a4 & a5 & a6 & a7).
    assert ((vcur v' + nlen grp <=? vhwm v') = true) as -> by (apply N.leb_le; lia).
    split; [reflexivity|]. split; [exact I1|]. split; [exact I2|].
    cbn [v_advance vS vcur vmark]. split; [exact a1|]. split; [lia|]. split; [|exact a4].
    unfold rest_at in *. cbn [v_advance vS vcur]. rewrite a1, a3.
    replace (vcur v + nlen grp + 0) with (nlen grp + (vcur v + 0)) by lia.
    rewrite <- nskipn_nskipn, I1. unfold nskipn, nlen. rewrite Nat2N.id. apply skipn_app_exact. reflexivity.
  - intros n lr' v'. rewrite srun_pbind.
    destruct (srun (varint_scan 8 0 [] lr) v) as [[[acc|e] s'] w| | |] eqn:E; try discriminate.
    exfalso. exact (H acc s' w eq_refl).
Qed.

(* ================================================================== *)
(* Header::parse reads the nine fields in the order M I L O A B C J F. *)

Lemma digits_loop_hwm f : forall t neg value ovfl off v a o v',
  srun (digits_loop f t neg value ovfl off) v = ADone (a, o) v' -> WFV v -> vcur v + off <= vhwm v ->
  off <= o /\ vcur v + o <= vhwm v' /\ vhwm v' <= N.max (vhwm v) (vcur v + o + 1) /\ WFV v'.
Proof.
  induction f as [|f IH]; intros t neg value ovfl off v a o v' H Hw Hh; cbn [digits_loop srun] in H; [discriminate|].
  pose proof (WFV_after_peek v off Hw) as Hw'.
  destruct (vpeek v off) as [d|] eqn:Hp.
  - destruct (is_dig d).
    + destruct (ovf t (value * 10)) as [v1 o1]. destruct (ovf t _) as [v2 o2] in H.
      apply IH in H; [|exact Hw'|cbn [after_peek vcur vhwm]; rewrite Hp; lia].
      cbn [after_peek vcur vhwm] in H. rewrite Hp in H. destruct H as (h0 & h1 & h2 & h3).
      split; [lia|]. split; [exact h1|]. split; [lia|exact h3].
    + inversion H; subst. cbn [after_peek vcur vhwm]. rewrite Hp. split; [lia|]. split; [lia|]. split; [lia|exact Hw'].
  - inversion H; subst. cbn [after_peek vcur vhwm]. rewrite Hp. apply vpeek_none_iff in Hp. unfold WFV in Hw.
    split; [lia|]. split; [lia|]. split; [lia|exact Hw'].
Qed.

Section HeaderOrder.
Variable fuel : nat.
Variable Sx : bytes.       (* the whole input *)

(* between two tokens the simple run has at most the byte behind the cursor buffered *)
Definition TokInv (v : view) : Prop := WFV v /\ vcur v <= vhwm v /\ vhwm v <= vcur v + 1.
Definition TokSt (c : N) (v : view) : Prop := vS v = Sx /\ vcur v = c /\ TokInv v.
Definition runs_to {A} (m : PM A) (lr : lrs) (v : view) (Q : A -> lrs -> view -> Prop) : Prop :=
  exists a lr' v', srun (m lr) v = ADone (a, lr') v' /\ Q a lr' v'.

Lemma runs_to_bind {A B} (m : PM A) (f : A -> PM B) lr v Q1 Q2 :
  runs_to m lr v Q1 -> (forall a lr1 v1, Q1 a lr1 v1 -> runs_to (f a) lr1 v1 Q2) -> runs_to (pbnd m f) lr v Q2.
Proof.
  intros (a & lr1 & v1 & Hrun & HQ) Hf. destruct (Hf a lr1 v1 HQ) as (b & lr2 & v2 & Hrun2 & HQ2).
  exists b, lr2, v2. split; [|exact HQ2]. unfold pbnd. rewrite srun_pbind, Hrun. exact Hrun2.
Qed.

Lemma runs_to_rbnd {A B} (m : PM (result A perr)) (f : A -> PM (result B perr)) lr v (x : A) (P : lrs -> view -> Prop) Q2 :
  runs_to m lr v (fun a lr1 v1 => a = Ok x /\ P lr1 v1) ->
  (forall lr1 v1, P lr1 v1 -> runs_to (f x) lr1 v1 Q2) -> runs_to (rbnd m f) lr v Q2.
Proof.
  intros H Hf. unfold rbnd. eapply runs_to_bind; [exact H|]. intros a lr1 v1 [-> HP]. apply Hf. exact HP.
Qed.

Lemma runs_to_ret {A} (a : A) lr v (Q : A -> lrs -> view -> Prop) : Q a lr v -> runs_to (pret a) lr v Q.
Proof. intros H. exists a, lr, v. split; [reflexivity|exact H]. Qed.

Lemma nskipn_step c x tail : nskipn c Sx = x :: tail -> nnth Sx c = Some x /\ nskipn (c + 1) Sx = tail.
Proof. apply nskipn_cons_nnth. Qed.

Lemma nskipn_app_step c (a b : bytes) : nskipn c Sx = a ++ b -> nskipn (c + nlen a) Sx = b.
Proof.
  intros H. replace (c + nlen a) with (nlen a + c) by lia. rewrite <- nskipn_nskipn, H.
  unfold nskipn, nlen. rewrite Nat2N.id. apply skipn_app_exact. reflexivity.
Qed.

Lemma TokSt_peek c v k x : TokSt c v -> nnth Sx (c + k) = Some x -> vpeek v k = Some x.
Proof. intros (HS & Hc & _) H. unfold vpeek. rewrite HS, Hc. exact H. Qed.

(* one byte is looked at and consumed *)
Lemma TokSt_step1 c v x : TokSt c v -> nnth Sx c = Some x -> TokSt (c + 1) (v_advance (after_peek v 0) 1).
Proof.
  intros Hst Hn. assert (Hp : vpeek v 0 = Some x) by (apply (TokSt_peek c); [exact Hst|rewrite N.add_0_r; exact Hn]).
  destruct Hst as (HS & Hc & Hw & Hlo & Hhi). apply nnth_some_lt in Hn.
  unfold TokSt, TokInv, WFV in *. cbn [v_advance after_peek vS vcur vhwm]. rewrite Hp. rewrite HS in *.
  split; [reflexivity|]. lia.
Qed.

Lemma adv1_ok c v x : TokSt c v -> nnth Sx c = Some x ->
  (vcur (after_peek v 0) + 1 <=? vhwm (after_peek v 0)) = true.
Proof.
  intros Hst Hn. assert (Hp : vpeek v 0 = Some x) by (apply (TokSt_peek c); [exact Hst|rewrite N.add_0_r; exact Hn]).
  cbn [after_peek vcur vhwm]. rewrite Hp. apply N.leb_le. lia.
Qed.

Lemma space_ok c v lr tail : TokSt c v -> nskipn c Sx = 32 :: tail ->
  runs_to required_space lr v (fun a lr' v' => a = Ok tt /\ (lr' = lr /\ TokSt (c + 1) v')).
Proof.
  intros Hst Hn. destruct (nskipn_step _ _ _ Hn) as [Hx _].
  assert (Hp : vpeek v 0 = Some 32) by (apply (TokSt_peek c); [exact Hst|rewrite N.add_0_r; exact Hx]).
  unfold runs_to, required_space, or_unexpected, space, pbnd, ppeek, padvance, lift, tok_ok, pret. cbn [pbind srun].
  rewrite Hp. cbn [is_byte]. change (32 =? 32) with true. cbn [pbind srun]. rewrite (adv1_ok c v 32 Hst Hx). cbn [srun].
  eexists _, _, _. split; [reflexivity|]. split; [reflexivity|]. split; [reflexivity|]. apply (TokSt_step1 c v 32); assumption.
Qed.

Lemma nos_space_ok c v lr tail : TokSt c v -> nskipn c Sx = 32 :: tail ->
  runs_to required_newline_or_space lr v (fun a lr' v' => a = Ok true /\ (lr' = lr /\ TokSt (c + 1) v')).
Proof.
  intros Hst Hn. destruct (nskipn_step _ _ _ Hn) as [Hx _].
  assert (Hp : vpeek v 0 = Some 32) by (apply (TokSt_peek c); [exact Hst|rewrite N.add_0_r; exact Hx]).
  unfold runs_to, required_newline_or_space, pbnd, ppeek, padvance, lift, pret. cbn [pbind srun].
  rewrite Hp. cbn [is_byte]. change (32 =? 10) with false. change (32 =? 32) with true. cbn [pbind srun].
  rewrite (adv1_ok c v 32 Hst Hx). cbn [srun].
  eexists _, _, _. split; [reflexivity|]. split; [reflexivity|]. split; [reflexivity|]. apply (TokSt_step1 c v 32); assumption.
Qed.

(* the line feed that ends the header starts line l_line + 1 behind it *)
Lemma newline_ok c v lr tail : TokSt c v -> nskipn c Sx = 10 :: tail ->
  runs_to required_newline lr v (fun a lr' v' =>
    a = Ok tt /\ (lr' = {| l_line := l_line lr + 1; l_start := (c + 1) mod W64 + 0 |} /\ TokSt (c + 1) v')).
Proof.
  intros Hst Hn. destruct (nskipn_step _ _ _ Hn) as [Hx _].
  assert (Hp : vpeek v 0 = Some 10) by (apply (TokSt_peek c); [exact Hst|rewrite N.add_0_r; exact Hx]).
  unfold runs_to, required_newline, or_unexpected, anewline, line_at_offset, get_lrs, set_lrs, pbnd, ppeek, padvance, lift, tok_ok, pret.
  cbn [pbind srun]. rewrite Hp. cbn [is_byte]. change (10 =? 10) with true. cbn [pbind srun].
  rewrite (adv1_ok c v 10 Hst Hx). cbn [srun pbind v_advance vcur after_peek].
  destruct Hst as (HS & Hc & Hi). rewrite Hc.
  eexists _, _, _. split; [reflexivity|]. split; [reflexivity|]. split; [reflexivity|].
  rewrite <- Hc. apply (TokSt_step1 (vcur v) v 10); [split; [exact HS|split; [reflexivity|exact Hi]]|rewrite Hc; exact Hx].
Qed.

Lemma magic_ok c v lr a b d tail : TokSt c v -> nskipn c Sx = a :: b :: d :: tail ->
  runs_to (or_unexpected (tfixed [a; b; d])) lr v (fun r lr' v' => r = Ok tt /\ (lr' = lr /\ TokSt (c + 3) v')).
Proof.
  intros Hst Hn.
  destruct (nskipn_step _ _ _ Hn) as [Ha Hn1]. destruct (nskipn_step _ _ _ Hn1) as [Hb Hn2].
  destruct (nskipn_step _ _ _ Hn2) as [Hd _].
  assert (Hp0 : vpeek v (0 + 0) = Some a) by (apply (TokSt_peek c); [exact Hst|rewrite !N.add_0_r; exact Ha]).
  assert (Hp1 : vpeek v (0 + (0 + 1)) = Some b) by (apply (TokSt_peek c); [exact Hst|rewrite !N.add_0_l; exact Hb]).
  assert (Hp2 : vpeek v (0 + (0 + 1 + 1)) = Some d) by (apply (TokSt_peek c); [exact Hst|rewrite !N.add_0_l; rewrite N.add_assoc; exact Hd]).
  unfold vpeek in Hp0, Hp1, Hp2.
  destruct Hst as (HS & Hc & Hw & Hlo & Hhi).
  unfold runs_to, or_unexpected, tfixed, fixed, pbnd, padvance, lift, tok_ok, tok_ft, pret.
  eexists _, _, _. split.
  - cbn [fixed_from pbind srun].
    unfold vpeek. cbn [after_peek vS vcur]. rewrite Hp0, N.eqb_refl. cbn [pbind srun].
    unfold vpeek. cbn [after_peek vS vcur]. rewrite Hp1, N.eqb_refl. cbn [pbind srun].
    unfold vpeek. cbn [after_peek vS vcur]. rewrite Hp2, N.eqb_refl. cbn [pbind srun].
    change (0 + (0 + 1 + 1 + 1)) with 3. change (3 =? 0) with false. cbn [pbind srun].
    repeat (progress (unfold vpeek; cbn [after_peek v_advance vS vcur vhwm])). rewrite ?Hp0, ?Hp1, ?Hp2.
    match goal with |- context [if ?x <=? ?y then _ else _] => assert (x <=? y = true) as -> by (apply N.leb_le; lia) end.
    cbn [srun pbind]. reflexivity.
  - split; [reflexivity|]. split; [reflexivity|].
    apply nnth_some_lt in Hd.
    unfold TokSt, TokInv, WFV in *. repeat (progress (unfold vpeek; cbn [after_peek v_advance vS vcur vhwm])).
    rewrite ?Hp0, ?Hp1, ?Hp2. rewrite HS in *. split; [reflexivity|]. lia.
Qed.

Lemma decimal_N_facts n :
  dec_val (decimal_N n) = n /\ forallb is_dig (decimal_N n) = true /\
  (exists d ds, decimal_N n = d :: ds /\ (d = 48 -> ds = [])).
Proof.
  destruct (decimal_N_canonical n) as (Hu & Hd & Hz & Hnz & _).
  split; [exact Hu|]. split; [exact Hd|].
  destruct (N.eq_dec n 0) as [->|Hn].
  - rewrite (Hz eq_refl). exists 48, []. split; [reflexivity|reflexivity].
  - specialize (Hnz Hn). destruct (decimal_N n) as [|d ds]; [cbn in Hu; lia|].
    exists d, ds. split; [reflexivity|]. cbn [hd] in Hnz. intros ->. contradiction.
Qed.

Lemma uint_ok c v lr n x tail : TokSt c v -> nskipn c Sx = decimal_N n ++ x :: tail -> is_dig x = false ->
  n < W64 -> (length (decimal_N n) < fuel)%nat ->
  runs_to (uint fuel) lr v (fun a lr' v' => a = Res (Ok n) /\ (lr' = lr /\ TokSt (c + nlen (decimal_N n)) v')).
Proof.
  intros Hst Hn Hx Hn64 Hfuel.
  destruct (decimal_N_facts n) as (Hval & Hdig & d0 & ds & Hdd & H48).
  destruct Hst as (HS & Hc & Hw & Hlo & Hhi).
  set (vL := v_loaded v 0 None).
  assert (Hrest : rest_at vL 0 = decimal_N n ++ x :: tail).
  { unfold rest_at, vL. cbn [v_loaded vS vcur]. rewrite HS, Hc, N.add_0_r. exact Hn. }
  assert (Hpre : digit_prefix (rest_at vL 0) = decimal_N n).
  { rewrite Hrest, digit_prefix_app_all by exact Hdig. cbn [digit_prefix]. rewrite Hx. apply app_nil_r. }
  destruct (ascii_digits_spec fuel Usize 0 vL) as (v1 & Hrun & Hpk); [rewrite Hpre; exact Hfuel|].
  unfold unsigned_spec in Hrun. cbn [fst snd] in Hrun. rewrite Hpre, Hval in Hrun.
  assert (Hfp : from_prim Usize (Z.of_N n) = Some (Z.of_N n)).
  { unfold from_prim. assert (in_range Usize (Z.of_N n) = true) as ->; [|reflexivity].
    apply in_range_iff. unfold ity_min, ity_max. cbn. unfold W64 in Hn64. lia. }
  rewrite Hfp in Hrun.
  pose proof Hrun as Hrun2. unfold ascii_digits in Hrun2.
  apply digits_loop_hwm in Hrun2; [|exact Hw|unfold vL; cbn [v_loaded vcur vhwm]; lia].
  unfold vL in Hrun2. cbn [v_loaded vcur vhwm] in Hrun2. destruct Hrun2 as (_ & g1 & g2 & g3).
  destruct Hpk as (p1 & p2 & p3 & p4 & p5 & p6 & p7). unfold vL in p1, p3. cbn [v_loaded vS vcur] in p1, p3.
  assert (Hd0 : nnth Sx c = Some d0).
  { rewrite Hdd in Hn. cbn [app] in Hn. apply (nskipn_step _ _ _ Hn). }
  assert (Hp0 : vpeek v1 0 = Some d0) by (unfold vpeek; rewrite p1, p3, HS, Hc, N.add_0_r; exact Hd0).
  assert (Hlen : 1 <= nlen (decimal_N n)) by (rewrite Hdd; unfold nlen; cbn [length]; lia).
  unfold runs_to, uint, pbnd, lift. eexists _, _, _. split.
  - rewrite !srun_pbind. unfold ascii_digits_multi. cbn [srun].
    assert (Hs : s_tryload v 0 = None).
    { unfold s_tryload. assert ((vcur v + 0 + 8 <=? vhwm v) = false) as -> by (apply N.leb_gt; lia). reflexivity. }
    rewrite Hs. fold vL. rewrite Hrun. cbn [srun].
    assert ((0 + nlen (decimal_N n) =? 0) = false) as -> by (apply N.eqb_neq; lia).
    unfold ppeek, padvance, lift, pret. cbn [pbind srun]. rewrite Hp0.
    assert ((negb (is_byte (Some d0) 48) || (0 + nlen (decimal_N n) =? 1)) = true) as ->.
    { cbn [is_byte]. destruct (d0 =? 48) eqn:E48; [|reflexivity]. apply N.eqb_eq in E48.
      rewrite Hdd, (H48 E48). reflexivity. }
    cbn [pbind srun after_peek vcur vhwm]. rewrite Hp0.
    match goal with |- context [if ?a <=? ?b then _ else _] => assert (a <=? b = true) as -> by (apply N.leb_le; lia) end.
    cbn [srun]. rewrite N2Z.id. reflexivity.
  - split; [reflexivity|]. split; [reflexivity|].
    apply nnth_some_lt in Hd0.
    unfold TokSt, TokInv, WFV in *. cbn [v_advance after_peek vS vcur vhwm]. rewrite Hp0. rewrite p1, p3, HS in *.
    split; [reflexivity|]. lia.
Qed.

Lemma header_field_ok c v lr n x tail limit : TokSt c v -> nskipn c Sx = decimal_N n ++ x :: tail -> is_dig x = false ->
  n < W64 -> n <= limit -> (length (decimal_N n) < fuel)%nat ->
  runs_to (header_field fuel limit) lr v (fun a lr' v' => a = Ok n /\ (lr' = lr /\ TokSt (c + nlen (decimal_N n)) v')).
Proof.
  intros Hst Hn Hx Hn64 Hlim Hfuel. unfold header_field.
  eapply runs_to_bind with (Q1 := fun _ lr' v' => lr' = lr /\ TokSt c v').
  { unfold pset_mark, lift, runs_to. cbn [pbind srun]. eexists _, _, _. split; [reflexivity|]. split; [reflexivity|].
    destruct Hst as (HS & Hc & Hw & Hlo & Hhi). unfold TokSt, TokInv, WFV in *. cbn [v_setmark vS vcur vhwm]. auto. }
  intros _ lr1 v1 [-> Hst1]. unfold located.
  eapply runs_to_bind with (Q1 := fun a lr' v' => a = Res (Ok n) /\ (lr' = lr /\ TokSt (c + nlen (decimal_N n)) v')).
  { eapply runs_to_bind; [apply (uint_ok c v1 lr n x tail Hst1 Hn Hx Hn64 Hfuel)|].
    intros a lr2 v2 (-> & -> & Hst2). unfold tok_ok. apply runs_to_ret.
    exact (conj (eq_refl (Res (Ok n))) (conj eq_refl Hst2)). }
  intros a lr2 v2 (-> & -> & Hst2). cbn beta iota.
  assert ((limit <? n) = false) as -> by (apply N.ltb_ge; exact Hlim).
  apply runs_to_ret. auto.
Qed.

Lemma decimal_N_len64 n : n < W64 -> (length (decimal_N n) <= 20)%nat.
Proof.
  intros H. destruct (decimal_N_canonical n) as (_ & _ & _ & _ & Hl).
  specialize (Hl 20 ltac:(lia)). unfold nlen in Hl. unfold W64 in H.
  assert (n < 10 ^ 20) by (change (10 ^ 20) with 100000000000000000000; lia). specialize (Hl H0). lia.
Qed.

(* the text of a header: magic word, then the fields each preceded by a space, then a line feed *)
Fixpoint fields_text (fs : list N) (rest : bytes) : bytes :=
  match fs with
  | [] => rest
  | x :: r => 32 :: decimal_N x ++ fields_text r rest
  end.

Ltac step_space Hst Hn :=
  match type of Hn with
  | nskipn ?c Sx = 32 :: ?t =>
      match goal with
      | |- runs_to _ ?lr ?v _ =>
          eapply runs_to_rbnd; [apply (space_ok c v lr t Hst Hn)|];
          let lr1 := fresh "lr" in let v1 := fresh "v" in let H1 := fresh "Hst" in
          intros lr1 v1 [-> H1];
          let Hn1 := fresh "Hn" in pose proof (proj2 (nskipn_step _ _ _ Hn)) as Hn1; clear Hst Hn
      end
  end.

Ltac step_field Hst Hn H64 Hlim :=
  match type of Hn with
  | nskipn ?c Sx = decimal_N ?n ++ ?x :: ?t =>
      match goal with
      | |- runs_to _ ?lr ?v _ =>
          eapply runs_to_rbnd;
          [apply (header_field_ok c v lr n x t _ Hst Hn eq_refl H64 Hlim); pose proof (decimal_N_len64 n H64); lia|];
          let lr1 := fresh "lr" in let v1 := fresh "v" in let H1 := fresh "Hst" in
          intros lr1 v1 [-> H1];
          apply nskipn_app_step in Hn; clear Hst
      end
  end.

Ltac step_nos Hst Hn :=
  match type of Hn with
  | nskipn ?c Sx = 32 :: ?t =>
      match goal with
      | |- runs_to _ ?lr ?v _ =>
          eapply runs_to_rbnd; [apply (nos_space_ok c v lr t Hst Hn)|];
          let lr1 := fresh "lr" in let v1 := fresh "v" in let H1 := fresh "Hst" in
          intros lr1 v1 [-> H1]; cbn [negb];
          let Hn1 := fresh "Hn" in pose proof (proj2 (nskipn_step _ _ _ Hn)) as Hn1; clear Hst Hn
      end
  end.

Theorem header_field_order c v lr a b d m i l o g bb cc j f tail maxc :
  TokSt c v ->
  nskipn c Sx = [a; b; d] ++ fields_text [m; i; l; o; g; bb; cc; j; f] (10 :: tail) ->
  m <= (maxc - 1) / 2 -> i <= m -> l <= m - i -> g <= m - i - l ->
  m < W64 -> o < W64 -> bb < W64 -> cc < W64 -> j < W64 -> f < W64 -> (20 < fuel)%nat ->
  runs_to (parse_aheader fuel [a; b; d] maxc) lr v (fun r lr' v' =>
    r = Ok (mk_header m i l o g bb cc j f) /\ l_line lr' = l_line lr + 1 /\ exists c', TokSt c' v' /\ nskipn c' Sx = tail /\ l_start lr' = c' mod W64 + 0).
Proof.
  intros Hst Hn Hm Hi Hl Hg Hm64 Ho64 Hb64 Hc64 Hj64 Hf64 Hfuel.
  assert (HU : forall n, n < W64 -> n <= USIZE_MAX_N) by (intros n Hlt; unfold USIZE_MAX_N, W64 in *; lia).
  assert (Hi64 : i < W64) by lia. assert (Hl64 : l < W64) by lia. assert (Hg64 : g < W64) by lia.
  cbn [fields_text] in Hn. unfold parse_aheader.
  eapply runs_to_rbnd; [apply (magic_ok c v lr a b d _ Hst Hn)|]. intros lr1 v1 [-> Hst1].
  apply nskipn_app_step in Hn. change (nlen [a; b; d]) with 3 in Hn. clear Hst.
  step_space Hst1 Hn. step_field Hst Hn0 Hm64 Hm.
  step_space Hst0 Hn0. step_field Hst Hn Hi64 Hi.
  step_space Hst0 Hn. step_field Hst Hn0 Hl64 Hl.
  step_space Hst0 Hn0. step_field Hst Hn Ho64 (HU o Ho64).
  step_space Hst0 Hn. step_field Hst Hn0 Hg64 Hg.
  step_nos Hst0 Hn0. step_field Hst Hn Hb64 (HU bb Hb64).
  step_nos Hst0 Hn. step_field Hst Hn0 Hc64 (HU cc Hc64).
  step_nos Hst0 Hn0. step_field Hst Hn Hj64 (HU j Hj64).
  step_nos Hst0 Hn. step_field Hst Hn0 Hf64 (HU f Hf64).
  match type of Hn0 with nskipn ?c0 Sx = _ =>
    eapply runs_to_rbnd; [apply (newline_ok c0 _ _ tail Hst0 Hn0)|] end.
  intros lrz vz [-> Hstz]. apply runs_to_ret. split; [reflexivity|]. split; [reflexivity|].
  eexists. split; [exact Hstz|]. split; [apply (proj2 (nskipn_step _ _ _ Hn0))|reflexivity].
Qed.

Lemma nos_newline_ok c v lr tail : TokSt c v -> nskipn c Sx = 10 :: tail ->
  runs_to required_newline_or_space lr v (fun a lr' v' =>
    a = Ok false /\ (lr' = {| l_line := l_line lr + 1; l_start := (c + 1) mod W64 + 0 |} /\ TokSt (c + 1) v')).
Proof.
  intros Hst Hn. destruct (nskipn_step _ _ _ Hn) as [Hx _].
  assert (Hp : vpeek v 0 = Some 10) by (apply (TokSt_peek c); [exact Hst|rewrite N.add_0_r; exact Hx]).
  unfold runs_to, required_newline_or_space, line_at_offset, get_lrs, set_lrs, pbnd, ppeek, padvance, lift, pret.
  cbn [pbind srun]. rewrite Hp. cbn [is_byte]. change (10 =? 10) with true. cbn [pbind srun].
  rewrite (adv1_ok c v 10 Hst Hx). cbn [srun pbind v_advance vcur after_peek].
  destruct Hst as (HS & Hc & Hi). rewrite Hc.
  eexists _, _, _. split; [reflexivity|]. split; [reflexivity|]. split; [reflexivity|].
  rewrite <- Hc. apply (TokSt_step1 (vcur v) v 10); [split; [exact HS|split; [reflexivity|exact Hi]]|rewrite Hc; exact Hx].
Qed.

(* the short form of the header (AIGER 1.0: five fields) leaves B C J F at 0 *)
Theorem header_field_order_short c v lr a b d m i l o g tail maxc :
  TokSt c v ->
  nskipn c Sx = [a; b; d] ++ fields_text [m; i; l; o; g] (10 :: tail) ->
  m <= (maxc - 1) / 2 -> i <= m -> l <= m - i -> g <= m - i - l ->
  m < W64 -> o < W64 -> (20 < fuel)%nat ->
  runs_to (parse_aheader fuel [a; b; d] maxc) lr v (fun r lr' v' =>
    r = Ok (mk_header m i l o g 0 0 0 0) /\ l_line lr' = l_line lr + 1 /\
    exists c', TokSt c' v' /\ nskipn c' Sx = tail /\ l_start lr' = c' mod W64 + 0).
Proof.
  intros Hst Hn Hm Hi Hl Hg Hm64 Ho64 Hfuel.
  assert (HU : forall n, n < W64 -> n <= USIZE_MAX_N) by (intros n Hlt; unfold USIZE_MAX_N, W64 in *; lia).
  assert (Hi64 : i < W64) by lia. assert (Hl64 : l < W64) by lia. assert (Hg64 : g < W64) by lia.
  cbn [fields_text] in Hn. unfold parse_aheader.
  eapply runs_to_rbnd; [apply (magic_ok c v lr a b d _ Hst Hn)|]. intros lr1 v1 [-> Hst1].
  apply nskipn_app_step in Hn. change (nlen [a; b; d]) with 3 in Hn. clear Hst.
  step_space Hst1 Hn. step_field Hst Hn0 Hm64 Hm.
  step_space Hst0 Hn0. step_field Hst Hn Hi64 Hi.
  step_space Hst0 Hn. step_field Hst Hn0 Hl64 Hl.
  step_space Hst0 Hn0. step_field Hst Hn Ho64 (HU o Ho64).
  step_space Hst0 Hn. step_field Hst Hn0 Hg64 Hg.
  match type of Hn0 with nskipn ?c0 Sx = _ =>
    eapply runs_to_rbnd; [apply (nos_newline_ok c0 _ _ tail Hst0 Hn0)|] end.
  intros lrz vz [-> Hstz]. cbn [negb]. apply runs_to_ret. split; [reflexivity|]. split; [reflexivity|].
  eexists. split; [exact Hstz|]. split; [apply (proj2 (nskipn_step _ _ _ Hn0))|reflexivity].
Qed.

Lemma TokSt_init fail : TokSt 0 (view_init Sx fail).
Proof. unfold TokSt, TokInv, WFV, view_init. cbn [vS vcur vhwm]. split; [reflexivity|]. lia. Qed.
End HeaderOrder.
