(* C09 — Items are delivered without reading past the line that completes them.
   Pinned statements.  Reader level: a refill performs exactly one successful read (plus the reads that came back
   Interrupted), none when the buffered data already satisfies the request, none after end of input or an error.
   Scanner level: the newline and end-of-line scanners ask for nothing beyond the line break. *)
From Flussab Require Import Base Reader Prog Text TextSpec ProgProofs ReaderProofs ScanProofs.

(* request_more: the number of read() calls grows by exactly one successful call (after the calls that
   returned Interrupted); by none when the reader is complete or BufReader leftovers are still to be used *)
Theorem C09_one_successful_read_per_refill : forall s,
  Inv s ->
  g_calls (rm_state (request_more s)) =
  if complete s then g_calls s
  else if 0 <? nlen (prebuf (src s)) then g_calls s
  else g_calls s + interrupts (events (src s)) + 1.
Proof. exact request_more_calls. Qed.
Print Assumptions C09_one_successful_read_per_refill.

(* after end of input or an error no operation calls the source again *)
Theorem C09_no_call_after_terminal : forall s o,
  Inv s -> g_terminal s = true -> g_calls (fst (step s o)) = g_calls s.
Proof. exact terminal_no_more_calls. Qed.
Print Assumptions C09_no_call_after_terminal.

(* a request or peek that the buffered data satisfies leaves the reader (and its call count) untouched *)
Theorem C09_no_call_when_satisfied : forall s,
  (forall n, n <= valid_len s -> fst (step s (ORequest n)) = s) /\
  (forall k, k < valid_len s -> Inv s -> fst (step s (OPeek k)) = s).
Proof. exact satisfied_no_call. Qed.
Print Assumptions C09_no_call_when_satisfied.

(* text::newline looks at one byte, at two only after CR: deciding that a line has ended never needs the next line *)
Theorem C09_newline_needs_only_the_line_break : forall off v,
  exists v', srun (newline off) v = ADone (off + newline_len (rest_at v off)) v' /\
             peeked_to v v' (vcur v + off + newline_look (rest_at v off)).
Proof. exact newline_spec. Qed.
Print Assumptions C09_newline_needs_only_the_line_break.

(* next_newline (comments, skipped lines) asks for nothing beyond the LF *)
Theorem C09_next_newline_stops_at_the_line_break : forall fuel off v,
  (N.to_nat (before_newline (rest_at v off)) < fuel)%nat ->
  exists v', srun (next_newline fuel off) v = ADone (off + to_next_newline (rest_at v off)) v' /\
             peeked_to v v' (vcur v + off + before_newline (rest_at v off) + 1).
Proof. exact next_newline_spec. Qed.
Print Assumptions C09_next_newline_stops_at_the_line_break.

(* every admissible run of these scanners is that run: they contain no buffering question *)
Theorem C09_scanners_deterministic : forall fuel off,
  det (newline off) /\ det (next_newline fuel off) /\ det (tabs_or_spaces fuel off).
Proof. intros fuel off. split; [apply det_newline|split; [apply det_next_newline|apply det_tabs_or_spaces]]. Qed.
Print Assumptions C09_scanners_deterministic.

(* non-vacuity: "1 0\n2 0\n" with the cursor on the first LF: the newline scanner asks for offset 4 only *)
Example C09_example :
  let v := {| vS := [49; 32; 48; 10; 50; 32; 48; 10]; vfail := None; vcur := 3; vmark := 0; vtaken := false;
              vknown := false; vhwm := 3; vreq := 3 |} in
  match srun (newline 0) v with ADone off v' => off = 1 /\ vreq v' = 4 | _ => False end.
Proof. vm_compute. split; reflexivity. Qed.

(* ------------------------------------------------------------------ *)
(* The DIMACS family, per item (Look.v, LookProofs.v): every admissible run of Parser::new and of next_clause, from
   every state satisfying the parsers' invariant K.
     Lk v v'      whatever the run newly asked for lies within the line of the final cursor (up to its LF, or the one
                  request that discovers the end of the input) — for every outcome, errors included
     ItemLk v v'  the cursor sits just behind an LF (CR LF: both bytes consumed) and nothing beyond the cursor was asked
                  for: vreq v' <= max (vreq v) (vcur v'); or the input ended and only the request that found the end
                  went beyond.  TryLoad8 (the "already buffered?" fast-path question) never counts as a request. *)
From Flussab Require Import Simulation Cnf CnfProofs Hoare CnfSafe Look LookProofs.

Theorem C09_header_lookahead : forall fuel k maxd ignore_header lr v r,
  K fuel lr v -> aruns (parser_new fuel k maxd ignore_header lr) v r ->
  exists res lr' v', r = ADone (res, lr') v' /\ vS v' = vS v /\ vcur v <= vcur v' /\ Lk v v' /\
    match res with
    | Ok st => K fuel lr' v' /\ (phdr st <> None -> ItemLk v v')
    | Err _ => True
    end.
Proof. exact parser_new_lookahead. Qed.
Print Assumptions C09_header_lookahead.

Theorem C09_clause_lookahead : forall fuel k st lr v r,
  K fuel lr v -> aruns (next_clause fuel k st lr) v r ->
  exists res st' lr' v', r = ADone ((res, st'), lr') v' /\ vS v' = vS v /\ vcur v <= vcur v' /\ Lk v v' /\
    match res with
    | Ok (Some _) => K fuel lr' v' /\ vcur v < vcur v' /\ ItemLk v v'
    | _ => True
    end.
Proof. exact next_clause_lookahead. Qed.
Print Assumptions C09_clause_lookahead.

(* what the two relations say *)
Theorem C09_lookahead_unfolded : forall v v',
  (ItemLk v v' <->
   (vcur v < vcur v' /\ nnth (vS v) (vcur v' - 1) = Some 10 /\ vreq v' <= N.max (vreq v) (vcur v')) \/
   (vcur v' = nlen (vS v) /\ vreq v' <= N.max (vreq v) (nlen (vS v) + 1))) /\
  (Lk v v' <-> exists e, vreq v' <= N.max (vreq v) (e + 1) /\ nolf (vS v) (vcur v') e /\ e <= nlen (vS v)).
Proof. intros v v'. split; reflexivity. Qed.
Print Assumptions C09_lookahead_unfolded.

(* Concrete reader, a source that hands out one line (or a piece of a line) per read (LineSrc), any chunk size: when
   an item is returned everything the source has delivered has been consumed — no read was issued after the read
   that delivered the end of the item's line.  Session = Rel (simulation relation) + K + "delivered data does not
   extend beyond the line of the last requested byte"; it holds initially (Session_init) and is re-established. *)
Theorem C09_clause_line_by_line : forall fuel k st lr s v item st' lr' s',
  Session fuel lr s v -> crun (next_clause fuel k st lr) s = CDone ((Ok (Some item), st'), lr') s' ->
  exists v', aruns (next_clause fuel k st lr) v (ADone ((Ok (Some item), st'), lr') v') /\
             Session fuel lr' s' v' /\ framer v v' /\ ItemLk v v' /\
             valid_len s' = 0 /\ nlen (g_delivered s') = vcur v'.
Proof. exact next_clause_line_by_line. Qed.
Print Assumptions C09_clause_line_by_line.

Theorem C09_header_line_by_line : forall fuel k maxd ignore_header lr s v st lr' s',
  Session fuel lr s v -> crun (parser_new fuel k maxd ignore_header lr) s = CDone (Ok st, lr') s' ->
  exists v', aruns (parser_new fuel k maxd ignore_header lr) v (ADone (Ok st, lr') v') /\
             Session fuel lr' s' v' /\ framer v v' /\
             (phdr st <> None -> ItemLk v v' /\ valid_len s' = 0 /\ nlen (g_delivered s') = vcur v').
Proof. exact parser_new_line_by_line. Qed.
Print Assumptions C09_header_line_by_line.

Theorem C09_session_initially : forall fuel (sr : source) (c : N),
  NoLie (events sr) -> LineSrc sr -> 1 <= c ->
  Forall (fun b => b < 256) (fst (stream_of sr)) -> nlen (fst (stream_of sr)) < 2 ^ 62 -> (length (fst (stream_of sr)) < fuel)%nat ->
  Session fuel lrs_init (set_chunk (reader_init sr) c) (view_init (fst (stream_of sr)) (snd (stream_of sr))).
Proof. exact Session_init. Qed.
Print Assumptions C09_session_initially.

(* Any honest source at all: if everything the call asks for had already been delivered when it began, the call does
   not touch the source *)
Theorem C09_clause_no_read_when_delivered : forall fuel k st lr s v item st' lr' s',
  Rel s v -> K fuel lr v -> crun (next_clause fuel k st lr) s = CDone ((Ok (Some item), st'), lr') s' ->
  exists v', aruns (next_clause fuel k st lr) v (ADone ((Ok (Some item), st'), lr') v') /\ Rel s' v' /\ K fuel lr' v' /\
             ItemLk v v' /\
             (vreq v' <= nlen (g_delivered s) -> g_delivered s' = g_delivered s /\ src s' = src s).
Proof. exact next_clause_no_read_when_delivered. Qed.
Print Assumptions C09_clause_no_read_when_delivered.

(* ------------------------------------------------------------------ *)
(* BTOR2 and ASCII AIGER, per item (LookW.v, Btor2Look.v, AigerLook.v), every admissible run.  BTOR2 next_line: a node line
   ends with its required line break, consumed without look-ahead (ItemLk); a line with a comment leaves the terminating
   LF as the last byte asked for, unconsumed (AtLF; the next call's skip_whitespace passes it).  The keyword scanner —
   8-byte fast path or byte-wise cold path — asks for nothing beyond the keyword's terminator.  ASCII AIGER: the header
   and every section entry reader (inputs, latches, outputs, bad, constraints, justice sizes and literals, fairness,
   and-gates, symbols) return with ItemLk.  The AIGER comment section is by format the rest of the file. *)
From Flussab Require Import Btor2 Btor2Proofs Btor2Safe Aiger AigerProofs AigerSafe LookW Btor2Look AigerLook.

Theorem C09_btor2_keyword_step_requests : forall off v w n v',
  aruns (ascii_lowercase_u64 off) v (ADone (w, n) v') ->
  vreq v' <= N.max (vreq v) (vcur v + off + lc_look (rest_at v off)).
Proof. exact lc_u64_req. Qed.
Print Assumptions C09_btor2_keyword_step_requests.

Theorem C09_btor2_line_lookahead : forall fuel lr v r,
  KB fuel lr v -> aruns (next_line fuel lr) v r ->
  exists res lr' v', r = ADone (res, lr') v' /\ vS v' = vS v /\ vcur v <= vcur v' /\ Lk v v' /\
    match res with
    | Ok (Some l) => KB fuel lr' v' /\ vcur v < vcur v' /\ (if has_comment l then ItemLkB v v' else ItemLk v v')
    | _ => True
    end.
Proof. exact btor2_next_line_lookahead. Qed.
Print Assumptions C09_btor2_line_lookahead.

Theorem C09_btor2_line_by_line : forall fuel lr s v l lr' s',
  SessionB fuel lr s v -> crun (next_line fuel lr) s = CDone (Ok (Some l), lr') s' ->
  exists v', aruns (next_line fuel lr) v (ADone (Ok (Some l), lr') v') /\
             SessionB fuel lr' s' v' /\ Lk v v' /\ ItemLkB v v' /\
             nlen (g_delivered s') = vcur v' + valid_len s' /\ valid_len s' <= 1 /\
             (valid_len s' = 1 -> nnth (vS v') (vcur v') = Some 10) /\
             (has_comment l = false -> valid_len s' = 0).
Proof. exact btor2_next_line_line_by_line. Qed.
Print Assumptions C09_btor2_line_by_line.

Theorem C09_btor2_no_read_when_delivered : forall fuel lr s v l lr' s',
  Rel s v -> KB fuel lr v -> crun (next_line fuel lr) s = CDone (Ok (Some l), lr') s' ->
  exists v', aruns (next_line fuel lr) v (ADone (Ok (Some l), lr') v') /\ Rel s' v' /\ KB fuel lr' v' /\
             ItemLkB v v' /\
             (vreq v' <= nlen (g_delivered s) -> g_delivered s' = g_delivered s /\ src s' = src s).
Proof. exact btor2_next_line_no_read_when_delivered. Qed.
Print Assumptions C09_btor2_no_read_when_delivered.

Theorem C09_btor2_comment_form_unfolded : forall v v',
  (AtLF v v' <-> vcur v <= vcur v' /\ nnth (vS v) (vcur v') = Some 10 /\ vreq v' <= N.max (vreq v) (vcur v' + 1)) /\
  (ItemLkB v v' <-> ItemLk v v' \/ AtLF v v').
Proof. intros. split; reflexivity. Qed.
Print Assumptions C09_btor2_comment_form_unfolded.

Theorem C09_aag_header_lookahead : forall fuel (magic : bytes) maxc lr v r,
  magic <> [] -> ~ In 10 magic -> KM fuel (vS v) lr v -> aruns (parse_aheader fuel magic maxc lr) v r ->
  exists res lr' v', r = ADone (res, lr') v' /\ vS v' = vS v /\ vcur v <= vcur v' /\ Lk v v' /\
    match res with
    | Ok hd => (KM fuel (vS v) lr' v' /\ HdrOK maxc hd) /\ ItemLk v v'
    | Err _ => True
    end.
Proof. exact aag_header_lookahead. Qed.
Print Assumptions C09_aag_header_lookahead.

Theorem C09_aag_literal_entry_lookahead : forall fuel {St : Type} maxc ml asg mk (st : St) lr v r,
  KM fuel (vS v) lr v -> aruns (lit_line fuel maxc ml asg mk st lr) v r ->
  exists res lr' v', r = ADone (res, lr') v' /\ vS v' = vS v /\ vcur v <= vcur v' /\ Lk v v' /\
    match res with Ok x => EntryG fuel v x lr' v' /\ ItemLk v v' | Err _ => True end.
Proof. exact @aag_entry_lookahead_lit_line. Qed.
Print Assumptions C09_aag_literal_entry_lookahead.

Theorem C09_aag_latch_lookahead : forall fuel maxc ml (st : unit) lr v r,
  KM fuel (vS v) lr v -> aruns (aag_latch fuel maxc ml st lr) v r ->
  exists res lr' v', r = ADone (res, lr') v' /\ vS v' = vS v /\ vcur v <= vcur v' /\ Lk v v' /\
    match res with Ok x => EntryG fuel v x lr' v' /\ ItemLk v v' | Err _ => True end.
Proof. exact aag_entry_lookahead_latch. Qed.
Print Assumptions C09_aag_latch_lookahead.

Theorem C09_aag_and_gate_lookahead : forall fuel maxc ml (st : unit) lr v r,
  KM fuel (vS v) lr v -> aruns (aag_and fuel maxc ml st lr) v r ->
  exists res lr' v', r = ADone (res, lr') v' /\ vS v' = vS v /\ vcur v <= vcur v' /\ Lk v v' /\
    match res with Ok x => EntryG fuel v x lr' v' /\ ItemLk v v' | Err _ => True end.
Proof. exact aag_entry_lookahead_and. Qed.
Print Assumptions C09_aag_and_gate_lookahead.

Theorem C09_aag_symbol_lookahead : forall fuel h lr v r,
  KM fuel (vS v) lr v -> aruns (next_symbol fuel h lr) v r ->
  exists res lr' v', r = ADone (res, lr') v' /\ vS v' = vS v /\ vcur v <= vcur v' /\ Lk v v' /\
    match res with
    | Ok (Some s) => KM fuel (vS v) lr' v' /\ vcur v < vcur v' /\ ItemLk v v'
    | Ok None => KM fuel (vS v) lr' v'
    | Err _ => True
    end.
Proof. exact aag_entry_lookahead_symbol. Qed.
Print Assumptions C09_aag_symbol_lookahead.

Theorem C09_aag_entry_line_by_line : forall fuel {St : Type} (m : PM (result (item * St) perr)) lr s v x lr' s',
  EntryLook fuel m -> SessionA fuel lr s v -> crun (m lr) s = CDone (Ok x, lr') s' ->
  exists v', aruns (m lr) v (ADone (Ok x, lr') v') /\
             SessionA fuel lr' s' v' /\ Lk v v' /\ ItemLk v v' /\ valid_len s' = 0 /\ nlen (g_delivered s') = vcur v'.
Proof. exact @aag_entry_line_by_line. Qed.
Print Assumptions C09_aag_entry_line_by_line.


(* ------------------------------------------------------------------ *)
(* Binary AIGER and-gates and the solver log (AigLook.v, LogLook.v).  A binary gate (two delta codes, at most 16 bytes, no
   line break): when it is returned nothing beyond its last byte was requested, and a call whose bytes were already
   delivered does not touch the source.  Solver log: the loop proceeds line by line (LogLines: every continuing iteration
   has consumed at least one whole line and requested nothing beyond its line break); the whole parse, when Ok, has
   consumed the log and requested at most the one byte that discovers its end. *)
From Flussab Require Import AigLook LogLook.

Theorem C09_aig_gate_lookahead : forall fuel maxc code lr v r,
  code < W64 -> KM fuel (vS v) lr v -> aruns (aig_and maxc code lr) v r ->
  exists res lr' v', r = ADone (res, lr') v' /\ vS v' = vS v /\ vcur v <= vcur v' /\ Lk v v' /\
    match res with
    | Ok x => EntryG fuel v x lr' v' /\ vreq v' <= N.max (vreq v) (vcur v') /\ vcur v' <= vcur v + 16 /\ snd x = (code + 2) mod W64
    | Err _ => True
    end.
Proof. exact aig_and_lookahead. Qed.
Print Assumptions C09_aig_gate_lookahead.

Theorem C09_aig_gate_no_read_when_delivered : forall fuel maxc code lr s v x lr' s',
  code < W64 -> Rel s v -> KM fuel (vS v) lr v -> crun (aig_and maxc code lr) s = CDone (Ok x, lr') s' ->
  exists v', aruns (aig_and maxc code lr) v (ADone (Ok x, lr') v') /\ Rel s' v' /\ KM fuel (vS v') lr' v' /\
             vcur v < vcur v' /\ vreq v' <= N.max (vreq v) (vcur v') /\
             (vreq v <= nlen (g_delivered s) -> g_consumed s' <= nlen (g_delivered s) ->
              g_delivered s' = g_delivered s /\ src s' = src s).
Proof. exact aig_and_no_read_when_delivered. Qed.
Print Assumptions C09_aig_gate_no_read_when_delivered.

Theorem C09_log_lookahead : forall fuel maxd iu lr v r,
  K fuel lr v -> aruns (parse_log fuel maxd iu lr) v r ->
  exists res lr' v', r = ADone (res, lr') v' /\ vS v' = vS v /\ vcur v <= vcur v' /\ Lk v v' /\
    match res with
    | Ok _ => vfail v' = None /\ ItemLk v v' /\ vcur v' = nlen (vS v) /\ vreq v' <= N.max (vreq v) (nlen (vS v) + 1)
    | Err e => ErrPost e v'
    end.
Proof. exact parse_log_lookahead. Qed.
Print Assumptions C09_log_lookahead.

Theorem C09_log_proceeds_line_by_line : forall fuel maxd iu lr v r,
  K fuel lr v -> aruns (parse_log fuel maxd iu lr) v r ->
  LogLines fuel maxd iu fuel {| sat := None; assignment := []; started := false; finished := false |} lr v r.
Proof. exact parse_log_lines. Qed.
Print Assumptions C09_log_proceeds_line_by_line.

