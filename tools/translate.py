#!/usr/bin/env python3
"""Translator: regenerates the table-like parts of the model from /repo's working tree
into coq/Consts.v.  It is a small line/regex reader that fails loudly (exit 2) when the
source does not have the shape it expects, so that a silent mis-translation is impossible;
the proofs that depend on the generated constants are re-checked by `make` afterwards."""
import os, re, sys

ROOT = os.path.dirname(os.path.dirname(os.path.abspath(__file__)))
REPO = "/repo"


class Shape(Exception):
    pass


def read(rel):
    return open(os.path.join(REPO, rel)).read()


def one(pattern, text, what):
    m = re.findall(pattern, text, flags=re.S)
    if len(m) != 1:
        raise Shape("%s: expected exactly one match of /%s/, found %d" % (what, pattern, len(m)))
    return m[0]


def int_expr(e):
    """a constant integer expression: literals (with `_`), `*`, `<<`, `+`, parentheses"""
    e = e.strip().replace("_", "")
    if not re.fullmatch(r"[0-9\s*<+()]+", e) or "<" in e.replace("<<", ""):
        raise Shape("unsupported constant expression %r" % e)
    try:
        v = eval(e, {"__builtins__": {}}, {})
    except Exception:
        raise Shape("unsupported constant expression %r" % e)
    if not isinstance(v, int) or v < 0:
        raise Shape("unsupported constant expression %r" % e)
    return v


TYPE_MAX = {"i8": 2 ** 7 - 1, "i16": 2 ** 15 - 1, "i32": 2 ** 31 - 1, "i64": 2 ** 63 - 1, "isize": 2 ** 63 - 1,
            "u8": 2 ** 8 - 1, "u16": 2 ** 16 - 1, "u32": 2 ** 32 - 1, "u64": 2 ** 64 - 1, "usize": 2 ** 64 - 1}


def max_expr(e, self_ty=None):
    """`isize::MAX`, `i16::MAX as isize`, `Self::MAX`, `<i16>::MAX as isize`"""
    m = re.fullmatch(r"<?(\w+)>?::MAX(?: as isize)?", e.strip())
    ty = m.group(1) if m else None
    if ty == "Self":
        ty = self_ty
    if ty not in TYPE_MAX:
        raise Shape("unsupported MAX_DIMACS expression %r" % e)
    return TYPE_MAX[ty]


def bytes_list(s):
    return "[" + "; ".join(str(b) for b in s.encode()) + "]"


def sec_reader_writer(w):
    # ---- reader / writer buffer sizes
    rd = read("flussab/src/deferred_reader.rs")
    wr = read("flussab/src/deferred_writer.rs")
    w("Definition reader_default_chunk_size : N := %d." % int_expr(one(r"const DEFAULT_CHUNK_SIZE: usize = ([^;]+);", rd, "reader chunk size")))
    w("Definition writer_default_chunk_size : N := %d." % int_expr(one(r"const DEFAULT_CHUNK_SIZE: usize = ([^;]+);", wr, "writer chunk size")))
    # the realign / shrink thresholds of request_more
    # the factors are translated as numbers (either operand order is accepted); ConstsTie.v proves they are the model's
    m = one(r"let realign = self\.pos_in_buf > (?:self\.chunk_size \* (\d+)|(\d+) \* self\.chunk_size);", rd, "realign threshold")
    realign = int(m[0] or m[1])
    m = one(r"if self\.buf\.len\(\) > (\d+) \* \(self\.pos_in_buf \+ self\.valid_len \+ self\.chunk_size\)", rd, "shrink threshold")
    w("Definition reader_realign_factor : N := %d." % realign)
    w("Definition reader_shrink_factor : N := %d." % int(m))
    w("")

def sec_dimacs_max(w):
    # ---- Dimacs::MAX_DIMACS per literal type (64-bit target)
    dt = read("flussab-cnf/src/dimacs_trait.rs")
    w("(* Dimacs::MAX_DIMACS on a 64-bit target *)")
    vals = {}
    for ty in ("isize", "i64", "i32", "i16", "i8"):
        body = one(r"impl Dimacs for %s \{(.*?)\n\}" % ty, dt, "impl Dimacs for " + ty)
        cands = re.findall(r"((?:#\[cfg\([^\]]*\)\]\s*)?)const MAX_DIMACS: isize = ([^;]+);", body, flags=re.S)
        chosen = None
        for cfg, expr in cands:
            if not cfg.strip() or 'target_pointer_width = "64"' in cfg:
                chosen = expr
                break
        if chosen is None:
            raise Shape("no MAX_DIMACS for 64-bit targets in impl Dimacs for " + ty)
        vals[ty] = max_expr(chosen, ty)
        # from_dimacs / dimacs must be plain casts
        one(r"fn from_dimacs\(value: isize\) -> Self \{\s*value(?: as (?:%s|Self))?\s*\}" % ty, body, "from_dimacs of " + ty)
        one(r"fn dimacs\(self\) -> isize \{\s*self(?: as isize)?\s*\}", body, "dimacs of " + ty)
    for ty in ("i8", "i16", "i32", "i64", "isize"):
        w("Definition max_dimacs_%s : Z := %d%%Z." % (ty, vals[ty]))
    w("")

def sec_lit_max_code(w):
    # ---- AIGER Lit::MAX_CODE
    lt = read("flussab-aiger/src/lit.rs")
    one(r"const MAX_CODE: usize = <?(?:\$t|Self)>?::MAX as usize;", lt, "Lit::MAX_CODE")
    tys = [t.strip() for grp in re.findall(r"prim_int_impl!\(([\w\s,]+)\);", lt) for t in grp.split(",") if t.strip()]
    if sorted(tys) != sorted(["u8", "u16", "u32", "u64", "usize"]):
        raise Shape("unexpected Lit implementations: %r" % tys)
    w("(* flussab_aiger::Lit::MAX_CODE *)")
    for ty in ("u8", "u16", "u32", "u64", "usize"):
        w("Definition max_code_%s : N := %d." % (ty, TYPE_MAX[ty]))
    w("")

def sec_dimacs_words(w):
    # ---- DIMACS header keywords and solver-log words
    w("(* fixed words of the DIMACS family and of solver logs *)")
    for f, kw in (("cnf", "cnf"), ("wcnf", "wcnf"), ("gcnf", "gcnf")):
        src = read("flussab-cnf/src/%s.rs" % f)
        one(r'token::word\(reader, b"p"\)', src, "header introducer in " + f)
        word = one(r'token::word\(reader, b"(\w+)"\)\s*\.or_give_up', src, "format keyword in " + f)
        w("Definition kw_%s : bytes := %s.   (* %s *)" % (f, bytes_list(word), word))
        fn_body = one(r"pub fn write_header[^{]*\{(.*?)\n\}", src, "write_header of " + f)
        lits_ = [l for l in re.findall(r'(?<![A-Za-z0-9_])b?"((?:[^"\\\\]|\\\\.)*)"', fn_body) if l not in ("\\n", "")]
        hdr = re.sub(r"\{\w*\}", "{}", "".join(lits_))
        if not hdr.startswith("p %s " % kw):
            raise Shape("write_header of %s: the literals of the function give %r" % (f, hdr))
        w("Definition hdr_fmt_%s : bytes := %s.   (* %s *)" % (f, bytes_list(hdr), hdr))
    w("Definition kw_p : bytes := %s." % bytes_list("p"))
    log = read("flussab-cnf/src/sat_solver_log.rs")
    for name, lit in (("v", "v "), ("s", "s "), ("sat", "SATISFIABLE"), ("unsat", "UNSATISFIABLE"), ("unknown", "UNKNOWN")):
        one(r'token::fixed\(input, b"%s"\)' % re.escape(lit), log, "solver log word " + lit)
        w("Definition log_%s : bytes := %s.   (* %r *)" % (name, bytes_list(lit), lit))
    tk = read("flussab-cnf/src/token.rs")
    one(r'text::fixed\(input\.reader\(\), 0, b"c "\)', tk, "strict comment introducer")
    w("Definition log_comment : bytes := %s." % bytes_list("c "))
    w("")

def sec_aiger_header(w):
    # ---- AIGER header: magic words and field order (parser and writer)
    order = ["max_var_index", "input_count", "latch_count", "output_count", "and_gate_count", "bad_state_property_count",
             "invariant_constraint_count", "justice_property_count", "fairness_constraint_count"]
    for f, magic in (("ascii", "aag"), ("binary", "aig")):
        src = read("flussab-aiger/src/%s.rs" % f)
        one(r'token::fixed\(reader, b"%s"\)' % magic, src, "magic of " + f)
        one(r'write_all_defer_err\(b"%s"\)' % magic, src, "writer magic of " + f)
        parse = one(r"fn parse<L: Lit>\(reader: &mut LineReader\) -> Result<Self, ParseError> \{(.*?)\n        Ok\(Header \{", src, "Header::parse of " + f)
        got = re.findall(r"(?:let (?:mut )?)?(\w+) =\s*token::header_field\(", parse)
        got = [g for g in got]
        if got != order:
            raise Shape("%s: header fields are parsed in the order %r" % (f, got))
        wh = one(r"pub fn write_header\(&mut self, header: &Header\) \{(?:(?!\n    \}).)*?let fields = \[(.*?)\];", src, "write_header of " + f)
        wgot = re.findall(r"header\.(\w+)", wh)
        if wgot != order:
            raise Shape("%s: header fields are written in the order %r" % (f, wgot))
        w("Definition magic_%s : bytes := %s.   (* %s *)" % (f, bytes_list(magic), magic))
    w("Definition aiger_header_fields : N := %d." % len(order))
    w("")

def sec_btor2_names(w):
    # ---- BTOR2 operator names (writer) and keywords (parser)
    b2 = read("flussab-btor2/src/btor2.rs")
    tkb = read("flussab-btor2/src/token.rs")
    names = []
    for kind in ("UnaryOp", "BinaryOp", "TernaryOp"):
        for variant, name in re.findall(kind + r'::(\w+)(?:\([^)]*\))? => "(\w+)"', b2):
            names.append((kind, variant, name))
    if len(names) < 50:
        raise Shape("only %d BTOR2 operator names found" % len(names))
    w("(* BTOR2 operator names as written by the writer, and whether the keyword scanner maps the same")
    w("   spelling back to the same operator *)")
    w("Definition btor2_op_names : list (bytes * bytes) :=   (* (Kind::Variant, keyword) *)")
    rows = []
    bad = []
    for kind, variant, name in names:
        # the parser's keyword table: b"name" => ... Variant ...
        m = re.findall(r'^\s*"%s" => ([^\n]*)' % name, tkb, flags=re.M)
        ok = len(m) == 1 and re.search(r"\b%s\b" % variant, m[0]) is not None
        if not ok:
            bad.append((kind, variant, name, m))
        rows.append("  (%s, %s)" % (bytes_list(kind + "::" + variant), bytes_list(name)))
    w("  [" + ";\n   ".join(r.strip() for r in rows) + "].")
    w("Definition btor2_names_roundtrip : bool := %s." % ("true" if not bad else "false"))
    if bad:
        w("(* mismatching entries: %r *)" % (bad,))
    w("")

def sec_btor2_keywords(w):
    tkb = read("flussab-btor2/src/token.rs")
    # ---- BTOR2 keyword tables of the parser (token.rs: node_token / sort_token), in source order
    for fn, cname in (("node_token", "btor2_node_keywords"), ("sort_token", "btor2_sort_keywords")):
        body = one(r"pub fn %s\(input: &mut LineReader\) -> Parsed<\w+, ParseError> \{\s*"
                   r"let matched = ascii_lowercase\(input\.reader\(\), 0\);\s*let token = match matched \{(.*?)\n    \};\s*"
                   r"let advance = matched\.len\(\);\s*input\.reader\.advance\(advance\);\s*Res\(Ok\(token\)\)\s*\}" % fn,
                   tkb, "keyword table of " + fn)
        rows = []
        lines_ = [l.strip() for l in body.strip().split("\n")]
        if not lines_ or lines_[-1] != "_ => return Fallthrough,":
            raise Shape("%s: the keyword table does not end with `_ => return Fallthrough,`" % fn)
        for l in lines_[:-1]:
            m = re.fullmatch(r'"([a-z]+)" => ([\w:()]+),', l)
            if not m:
                raise Shape("%s: unexpected keyword table line %r" % (fn, l))
            rows.append((m.group(1), m.group(2)))
        if len(set(k for k, _ in rows)) != len(rows):
            raise Shape("%s: duplicate keyword" % fn)
        w("(* %s: (keyword, token expression), in source order *)" % fn)
        w("Definition %s : list (bytes * bytes) :=" % cname)
        w("  [" + ";\n   ".join("(%s, %s)" % (bytes_list(k), bytes_list(v)) for k, v in rows) + "].")
        w("")

def sec_btor2_lowercase(w):
    tkb = read("flussab-btor2/src/token.rs")
    # ---- the 8-byte lowercase scanner (ascii_lowercase_u64): constants of the SWAR test
    one(r"if reader\.buf_len\(\) < offset \+ 8 \{\s*return ascii_lowercase_u64_cold\(reader, offset\);\s*\}", tkb, "lowercase fast-path test")
    body = one(r"fn ascii_lowercase_u64\(reader: &mut DeferredReader, offset: usize\) -> \(u64, usize\) \{(.*?)\n\}", tkb, "ascii_lowercase_u64")
    rep = one(r"const (\w+): u64 = 0x0101010101010101;", body, "lowercase byte-repeat constant")
    consts = re.findall(r"\(%s \* 0x([0-9a-f]+)\)" % rep, body)
    if len(consts) != 5:
        raise Shape("lowercase scanner: expected five per-byte constants, found %r" % (consts,))
    hi, lo, lo2, big, msk = consts
    one(r"\^ \(%s \* 0x%s\)\) \+ %s;" % (rep, lo2, rep), body, "lowercase too_small")
    one(r"\.trailing_zeros\(\) & !7;", body, "lowercase shift")
    one(r"== 64 \{\s*return \(word, 8\);\s*\}", body, "lowercase all-eight case")
    one(r"Some\(c @ b'a'\.\.=b'z'\) => \{\s*len = i \+ 1;\s*c\s*\}", tkb, "lowercase cold path range")
    if lo != lo2:
        raise Shape("lowercase scanner: low_bits mask 0x%s differs from the too_small xor 0x%s" % (lo, lo2))
    w("(* ascii_lowercase_u64: per-byte constants of the SWAR range test *)")
    w("Definition btor2_lc_high : N := %d." % int(hi, 16))
    w("Definition btor2_lc_low : N := %d." % int(lo, 16))
    w("Definition btor2_lc_large : N := %d." % int(big, 16))
    w("Definition btor2_lc_mask : N := %d." % int(msk, 16))
    w("")



def rust_sources():
    """the non-test part of every library source file of the four crates"""
    out = []
    for crate in ("flussab", "flussab-cnf", "flussab-aiger", "flussab-btor2"):
        d = os.path.join(REPO, crate, "src")
        for dirpath, _, fs in os.walk(d):
            for f in sorted(fs):
                if f.endswith(".rs"):
                    rel = os.path.relpath(os.path.join(dirpath, f), REPO)
                    txt = open(os.path.join(dirpath, f)).read()
                    txt = txt.split("#[cfg(test)]")[0]
                    txt = re.sub(r"//[^\n]*", "", txt)
                    out.append((rel, txt))
    return out


def balanced_arg(text, start):
    """text[start] is just after an opening parenthesis / bracket: return the argument text up to its partner"""
    depth, i = 1, start
    while i < len(text):
        c = text[i]
        if c in "([{":
            depth += 1
        elif c in ")]}":
            depth -= 1
            if depth == 0:
                return text[start:i]
        i += 1
    raise Shape("unbalanced parentheses in an allocation site")


class SizeExpr:
    """a size expression of an allocation site -> Gallina term over the header's field names (all N)"""
    def __init__(self, text, consts):
        self.toks = re.findall(r"[A-Za-z_][A-Za-z_0-9]*|\d[\d_]*|<<|::|[().+*,]", text)
        if "".join(self.toks) != re.sub(r"\s+", "", text):
            raise Shape("unsupported size expression %r" % text)
        self.i, self.consts, self.text = 0, consts, text

    def peek(self):
        return self.toks[self.i] if self.i < len(self.toks) else None

    def eat(self, t=None):
        x = self.peek()
        if x is None or (t is not None and x != t):
            raise Shape("unsupported size expression %r" % self.text)
        self.i += 1
        return x

    def primary(self):
        t = self.eat()
        if t == "(":
            e = self.expr(); self.eat(")"); return e
        if t[0].isdigit():
            return "%d" % int(t.replace("_", ""))
        if t in ("self", "header"):
            # self.header.<field> / header.<field>
            if t == "self":
                self.eat("."); self.eat("header")
            self.eat(".")
            f = self.eat()
            if not re.fullmatch(r"[a-z_]+", f):
                raise Shape("unsupported size expression %r" % self.text)
            return f
        if t in self.consts and self.peek() != "::":
            return "%d" % self.consts[t]
        # min(a, b) / cmp::min(a, b) / std::cmp::max(a, b) / usize::min(a, b)
        name = t
        while self.peek() == "::":
            self.eat("::"); name = self.eat()
        if name in ("min", "max") and self.peek() == "(":
            self.eat("("); a = self.expr(); self.eat(","); b = self.expr(); self.eat(")")
            return "(N.%s %s %s)" % (name, a, b)
        raise Shape("unsupported size expression %r (unknown name %s)" % (self.text, t))

    def postfix(self):
        e = self.primary()
        while self.peek() == ".":
            self.eat(".")
            m = self.eat()
            if m not in ("min", "max"):
                raise Shape("unsupported size expression %r (method %s)" % (self.text, m))
            self.eat("("); a = self.expr(); self.eat(")")
            e = "(N.%s %s %s)" % (m, e, a)
        return e

    def term(self):
        e = self.postfix()
        while self.peek() == "*":
            self.eat("*"); e = "(%s * %s)" % (e, self.postfix())
        return e

    def expr(self):
        e = self.term()
        while self.peek() == "+":
            self.eat("+"); e = "(%s + %s)" % (e, self.term())
        return e

    def top(self):
        e = self.expr()
        if self.peek() is not None:
            raise Shape("unsupported size expression %r" % self.text)
        return e


HEADER_FIELDS = ["max_var_index", "input_count", "latch_count", "output_count", "and_gate_count", "bad_state_property_count",
                 "invariant_constraint_count", "justice_property_count", "fairness_constraint_count"]

# allocation sites whose size is part of the hand-written reader / writer models (Reader.v: request_more, Writer.v: new)
MODELLED_ALLOC_SITES = {
    ("flussab/src/deferred_writer.rs", "with_capacity", "Self::DEFAULT_CHUNK_SIZE"),
    ("flussab/src/deferred_reader.rs", "resize", "target_end, 0"),
}


def sec_prealloc(w):
    # ---- every allocation whose size is an expression (reserve / with_capacity / resize / vec![x; n] / repeat):
    # the AIGER whole-file parsers' pre-allocations become Gallina functions of the header; the reader's and writer's
    # are the modelled ones; any other site is a shape this translator does not know (broken obligation for C05).
    sites = {"flussab-aiger/src/ascii.rs": [], "flussab-aiger/src/binary.rs": []}
    consts = {}
    for rel, txt in rust_sources():
        cs = dict((n, int_expr(v)) for n, v in re.findall(r"const ([A-Z_]+): usize = ([^;]+);", txt)
                  if re.fullmatch(r"[0-9\s*<+()_]+", v.strip()))
        for m in re.finditer(r"\b(reserve_exact|reserve|with_capacity|resize_with|resize|repeat)\s*\(|vec!\s*\[", txt):
            kind = m.group(1) or "vec!"
            arg = balanced_arg(txt, m.end())
            if kind == "vec!":
                if ";" not in arg:
                    continue          # vec![] / vec![a, b]: a literal list
                arg = arg.split(";", 1)[1]
            if kind == "repeat" and not re.search(r"\bvec\b|Vec|String|\.repeat\(", txt[max(0, m.start() - 40):m.end()]):
                pass
            arg1 = re.sub(r"\s+", " ", arg.strip())
            if (rel, kind, arg1) in MODELLED_ALLOC_SITES:
                continue
            if rel in sites and kind in ("reserve", "reserve_exact", "with_capacity"):
                sites[rel].append(SizeExpr(arg1, cs).top())
                consts[rel] = cs
                continue
            raise Shape("%s: allocation site `%s(%s)` is not part of the model" % (rel, kind, arg1))
    for rel, name in (("flussab-aiger/src/ascii.rs", "ascii"), ("flussab-aiger/src/binary.rs", "binary")):
        w("(* the sizes passed to Vec::reserve / with_capacity in %s, in source order, as functions of the header *)" % rel)
        w("Definition prealloc_%s (%s : N) : list N :=" % (name, " ".join(HEADER_FIELDS)))
        w("  [%s]." % ";\n   ".join(sites[rel]))
    w("")


SECTIONS = [("reader_writer", sec_reader_writer), ("dimacs_max", sec_dimacs_max), ("lit_max_code", sec_lit_max_code), ("dimacs_words", sec_dimacs_words), ("aiger_header", sec_aiger_header), ("btor2_names", sec_btor2_names), ("btor2_keywords", sec_btor2_keywords), ("btor2_lowercase", sec_btor2_lowercase), ("prealloc", sec_prealloc)]


def main():
    old_text = open(os.path.join(ROOT, "coq", "Consts.v")).read() if os.path.exists(os.path.join(ROOT, "coq", "Consts.v")) else ""
    out = []
    failed = []
    out.append("(* Consts.v — GENERATED by tools/translate.py from /repo's working tree on every run.  Do not edit. *)")
    out.append("From Flussab Require Import Base.")
    out.append("")
    tkb = None
    for name, fn in SECTIONS:
        sec = []
        begin, end = "(* == section %s == *)" % name, "(* == end %s == *)" % name
        try:
            fn(sec.append)
        except (Shape, OSError) as e:
            # the source no longer has the shape this section expects: keep the last good text of the section (the
            # other sections stay exact) and report it; check.py decides which properties this concerns
            m = re.search(re.escape(begin) + r"\n(.*?)" + re.escape(end), old_text, flags=re.S)
            if not m:
                raise Shape("%s: %s (and no previous text of this section to fall back to)" % (name, e))
            sec = m.group(1).rstrip("\n").split("\n")
            failed.append((name, str(e)))
        out.append(begin)
        out.extend(sec)
        out.append(end)
        out.append("")
    text = "\n".join(out) + "\n"
    path = os.path.join(ROOT, "coq", "Consts.v")
    old = open(path).read() if os.path.exists(path) else None
    if old != text:
        open(path, "w").write(text)
    for name, e in failed:
        print("translate.py: section %s: source shape not as expected: %s" % (name, e))
    return 3 if failed else 0


if __name__ == "__main__":
    try:
        sys.exit(main())
    except Shape as e:
        print("translate.py: source shape not as expected: %s" % e)
        sys.exit(2)
